"""Classify operations of a path into abstract accesses on objects whose class
is known (the root receiver `self`, and objects constructed on the path).

An access is (obj, kind, name, target) where
  obj    : 'self' | '$newN' | parameter name ...   (root identifier)
  kind   : 'builtin'  -- runs a builtin-base (C level) method `name`
           'method'   -- runs the repository method `name` (target FuncInfo)
           'field'    -- reads/writes instance attribute `name` (mode r/w/d)
  name   : method / attribute name
"""
import ast

from .index import Builtin, FuncInfo
from .paths import call_name

# builtin function applied to an object -> dunder it runs
FUNC_DUNDER = {
    'len': ['__len__'], 'iter': ['__iter__'], 'list': ['__iter__'],
    'tuple': ['__iter__'], 'set': ['__iter__'], 'frozenset': ['__iter__'],
    'sorted': ['__iter__'], 'reversed': ['__reversed__'], 'repr': ['__repr__'],
    'str': ['__repr__'], 'hash': ['__hash__'], 'bool': ['__len__'],
    'dict': ['keys', '__getitem__'], 'enumerate': ['__iter__'], 'zip': ['__iter__'],
    'sum': ['__iter__'], 'min': ['__iter__'], 'max': ['__iter__'], 'any': ['__iter__'],
    'all': ['__iter__'], 'next': ['__next__'], 'map': ['__iter__'], 'filter': ['__iter__'],
}
ITERATING_FUNCS = {'list', 'tuple', 'set', 'frozenset', 'sorted', 'dict', 'sum',
                   'min', 'max', 'any', 'all', 'enumerate', 'zip', 'map', 'filter',
                   'iter', 'reversed', 'chain', 'itertools.chain', 'islice'}


class Access:
    __slots__ = ('obj', 'kind', 'name', 'target', 'op', 'mode', 'via')

    def __init__(self, obj, kind, name, target, op, mode='r', via=''):
        self.obj, self.kind, self.name = obj, kind, name
        self.target, self.op, self.mode, self.via = target, op, mode, via

    def __repr__(self):
        return '<%s %s.%s %s line %d>' % (self.kind, self.obj, self.name,
                                          self.mode, self.op.line)


def root_of(v):
    """Root identifier of an access path value, or None."""
    while True:
        if isinstance(v, ast.Name):
            return v.id
        if isinstance(v, (ast.Attribute, ast.Subscript, ast.Starred)):
            v = v.value
        elif isinstance(v, ast.Call):
            v = v.func
        else:
            return None


def obj_class(walker, name):
    if name == 'self':
        return walker.root_recv
    info = walker.tokens.get(name)
    if info and info[0] == 'new':
        return info[1]
    return None


def _res(walker, ci, name, after=None):
    return walker.program.resolve(ci, name, after=after)


def _mk(walker, objname, ci, name, op, after=None, via=''):
    m = _res(walker, ci, name, after)
    if isinstance(m, FuncInfo):
        return Access(objname, 'method', name, m, op, via=via)
    if isinstance(m, Builtin):
        return Access(objname, 'builtin', name, m, op, via=via)
    return Access(objname, 'unresolved', name, m, op, via=via)


def accesses(walker, op):
    """Abstract accesses performed by one Op on class-known objects."""
    out = []
    k = op.kind
    v = op.val
    if k == 'call':
        f = v.func
        if isinstance(f, ast.Attribute):
            base = f.value
            ci, after = walker.class_of(base, None)
            if ci is not None and f.attr != '__class__':
                if after is not None:
                    info = walker.tokens.get(base.id)
                    rv = info[4] if len(info) > 4 else None
                    objname = rv.id if isinstance(rv, ast.Name) else 'self'
                    out.append(_mk(walker, objname, ci, f.attr, op, after=after, via='super'))
                else:
                    out.append(_mk(walker, base.id, ci, f.attr, op, via='attr'))
            elif isinstance(op.info, (Builtin, FuncInfo)) and op.recv_val is not None \
                    and isinstance(op.recv_val, ast.Name):
                # Base.m(obj, ...) / dict.m(obj, ...)
                oc = obj_class(walker, op.recv_val.id)
                if oc is not None:
                    kind = 'builtin' if isinstance(op.info, Builtin) else 'method'
                    out.append(Access(op.recv_val.id, kind, f.attr, op.info, op, via='explicit-base'))
        elif isinstance(f, ast.Name):
            dunders = FUNC_DUNDER.get(f.id)
            if dunders:
                for a in v.args[:2 if f.id in ('zip', 'map', 'filter') else 1]:
                    tgt = a.value if isinstance(a, ast.Starred) else a
                    if f.id in ('map', 'filter') and a is v.args[0]:
                        continue
                    if isinstance(tgt, ast.Name):
                        oc = obj_class(walker, tgt.id)
                        if oc is not None:
                            for d in dunders:
                                out.append(_mk(walker, tgt.id, oc, d, op, via=f.id + '()'))
    elif k in ('sub_load', 'sub_store', 'sub_del'):
        base = v.value
        if isinstance(base, ast.Name):
            oc = obj_class(walker, base.id)
            if oc is not None:
                d = {'sub_load': '__getitem__', 'sub_store': '__setitem__',
                     'sub_del': '__delitem__'}[k]
                out.append(_mk(walker, base.id, oc, d, op, via='subscript'))
    elif k == 'compare':
        operands = [v.left] + list(v.comparators)
        for i, cop in enumerate(v.ops):
            l, r = operands[i], operands[i + 1]
            if isinstance(cop, (ast.In, ast.NotIn)):
                if isinstance(r, ast.Name):
                    oc = obj_class(walker, r.id)
                    if oc is not None:
                        out.append(_mk(walker, r.id, oc, '__contains__', op, via='in'))
            elif isinstance(cop, (ast.Eq, ast.NotEq)):
                d = '__eq__' if isinstance(cop, ast.Eq) else '__ne__'
                for side in (l, r):
                    if isinstance(side, ast.Name):
                        oc = obj_class(walker, side.id)
                        if oc is not None:
                            out.append(_mk(walker, side.id, oc, d, op, via='=='))
                            break
    elif k == 'iter_start' or k == 'star':
        if isinstance(v, ast.Name):
            oc = obj_class(walker, v.id)
            if oc is not None:
                out.append(_mk(walker, v.id, oc, '__iter__', op, via='iteration'))
    elif k == 'aug':
        tv = op.info[0]
        if isinstance(tv, ast.Name):
            oc = obj_class(walker, tv.id)
            if oc is not None:
                d = {'BitOr': '__ior__', 'Add': '__iadd__', 'BitAnd': '__iand__',
                     'Sub': '__isub__', 'BitXor': '__ixor__'}.get(type(op.node.op).__name__)
                if d:
                    out.append(_mk(walker, tv.id, oc, d, op, via='augmented assignment'))
    elif k in ('attr_load', 'attr_store', 'attr_del'):
        base = v.value
        if isinstance(base, ast.Name):
            oc = obj_class(walker, base.id)
            if oc is not None:
                mode = {'attr_load': 'r', 'attr_store': 'w', 'attr_del': 'd'}[k]
                out.append(Access(base.id, 'field', v.attr, None, op, mode=mode))
    return out


def view_of(walker, v):
    """If value v is (a token for) a live view/iterator of a class-known object
    produced by a builtin-base view producer, return (objname, method)."""
    if isinstance(v, ast.Name):
        info = walker.tokens.get(v.id)
        if info and info[0] == 'call':
            call = info[1]
            f = call.func
            if isinstance(f, ast.Attribute):
                ci, after = walker.class_of(f.value, None)
                if ci is not None:
                    objname = f.value.id
                    if after is not None:
                        rv = info[4] if len(info) > 4 else None
                        tinfo = walker.tokens.get(f.value.id)
                        rv = tinfo[4] if tinfo and len(tinfo) > 4 else None
                        objname = rv.id if isinstance(rv, ast.Name) else 'self'
                    m = walker.program.resolve(ci, f.attr, after=after)
                    if isinstance(m, Builtin) and f.attr in ('keys', 'values', 'items',
                                                              '__iter__', '__reversed__'):
                        return objname, f.attr
            if isinstance(f, ast.Name) and f.id in ('iter', 'reversed', 'enumerate', 'zip') and call.args:
                a = call.args[0]
                if isinstance(a, ast.Name) and obj_class(walker, a.id) is not None:
                    return a.id, '__iter__'
                return view_of(walker, a)
    return None
