"""Source-to-source inlining of simple private helpers (the "helpers-inlined" view of a module).

A behaviour-preserving refactoring very often *moves* statements: into a new private method, a module-level function taking
the object, a staticmethod shared by two siblings.  Rules that look for a statement in the body of a named function then lose
it.  This module rewrites every statement-level call of a *simple private helper* into the helper's body, so that the rules
can be asked a second time on a program that is equivalent to the one given and has the statements back in place.

A helper qualifies when it is a private (`_name`, not dunder) module-level function, or a private method / staticmethod /
classmethod of a class of the same module; is not a generator, not async, not decorated otherwise, takes only plain
positional-or-keyword parameters (defaults allowed), declares no global/nonlocal, defines no nested function, and *returns
only in tail position* (the last statement of its body, of an if/else arm, of a try body/handler/else, or a guard clause
`if c: ... return` whose continuation becomes the else arm); it must not call itself.

A call site qualifies when the call is the whole value of an expression statement, an assignment, an annotated/augmented
free assignment (`x = _h(..)`, `a, b = _h(..)`), or a `return`; it passes no star arguments, and binds every parameter.

The rewrite:  parameters become fresh locals assigned from the arguments in call order (receiver first), the helper's own
locals are renamed apart, every tail `return E` becomes the caller's statement with E in place of the call (`x = E`,
`return E`, or the bare expression), a missing return value is None.  Inlining is repeated to a fixed depth (3).

The call is evaluated where it stood; argument evaluation order, exception behaviour and the helper's control flow are
unchanged.  What is *not* preserved is the identity of frames (tracebacks, recursion depth, `locals()`), which no rule
observes.
"""
import ast
import copy

MAX_DEPTH = 3


def _is_private(name):
    return name.startswith('_') and not name.startswith('__')


def _tail_ok(body):
    """returns appear only in tail position of the statement list"""
    if not body:
        return True
    for i, st in enumerate(body[:-1]):
        if isinstance(st, ast.If) and not st.orelse and st.body and _ends_in_return(st.body) and _tail_ok(st.body):
            continue                      # guard clause: the rest becomes the else arm
        if _try_with_terminating_handlers(st):
            # try: A / except: ...return|raise  followed by more statements  ==  the same try with those statements as its else
            return not _has_return_list(st.body) and all(_tail_ok(h.body) for h in st.handlers) and _tail_ok(body[i + 1:])
        if _has_return(st):
            return False
    last = body[-1]
    if isinstance(last, ast.Return):
        return True
    if isinstance(last, ast.If):
        return _tail_ok(last.body) and _tail_ok(last.orelse)
    if isinstance(last, ast.Try):
        if last.finalbody and any(_has_return(s) for s in last.finalbody):
            return False
        return _tail_ok(last.body) and all(_tail_ok(h.body) for h in last.handlers) and _tail_ok(last.orelse) and \
            not (last.orelse and _has_return_list(last.body))
    if isinstance(last, ast.With):
        return _tail_ok(last.body)
    return not _has_return(last)


def _try_with_terminating_handlers(st):
    return isinstance(st, ast.Try) and not st.orelse and not st.finalbody and st.handlers and \
        all(h.body and not _falls_through(h.body) for h in st.handlers)


def _ends_in_return(body):
    return bool(body) and isinstance(body[-1], (ast.Return, ast.Raise))


def _has_return_list(body):
    return any(_has_return(s) for s in body)


def _has_return(st):
    stack = [st]
    while stack:
        x = stack.pop()
        if isinstance(x, ast.Return):
            return True
        if isinstance(x, (ast.FunctionDef, ast.AsyncFunctionDef, ast.Lambda, ast.ClassDef)):
            continue
        stack.extend(ast.iter_child_nodes(x))
    return False


def _simple_helper(fn, kind):
    if isinstance(fn, ast.AsyncFunctionDef) or not _is_private(fn.name):
        return False
    decos = [ast.unparse(d) for d in fn.decorator_list]
    if any(d not in ('staticmethod', 'classmethod') for d in decos):
        return False
    a = fn.args
    if a.vararg or a.kwarg or a.kwonlyargs or a.posonlyargs:
        return False
    for x in ast.walk(fn):
        if isinstance(x, (ast.Yield, ast.YieldFrom, ast.Await, ast.Global, ast.Nonlocal)):
            return False
        if x is not fn and isinstance(x, (ast.FunctionDef, ast.AsyncFunctionDef, ast.ClassDef)):
            return False
        if isinstance(x, ast.Call) and isinstance(x.func, ast.Name) and x.func.id in ('locals', 'vars', 'super', 'eval', 'exec'):
            return False
        if isinstance(x, ast.Call) and isinstance(x.func, ast.Attribute) and x.func.attr == fn.name:
            return False                  # (possibly) recursive
        if isinstance(x, ast.Call) and isinstance(x.func, ast.Name) and x.func.id == fn.name:
            return False
    body = [s for s in fn.body if not (isinstance(s, ast.Expr) and isinstance(s.value, ast.Constant))]
    if not body:
        return False
    return True if kind == 'anywhere' else _tail_ok(body)


def _is_generator(fn):
    stack = list(fn.body)
    while stack:
        x = stack.pop()
        if isinstance(x, (ast.Yield, ast.YieldFrom)):
            return True
        if isinstance(x, (ast.FunctionDef, ast.AsyncFunctionDef, ast.Lambda, ast.ClassDef)):
            continue
        stack.extend(ast.iter_child_nodes(x))
    return False


def _gen_helper(fn):
    """a private generator function that can be inlined at a consuming statement: plain parameters, every yield is a
    statement of its own (`yield E` / `yield from E`), no `return <value>`, bare returns only in tail position"""
    if isinstance(fn, ast.AsyncFunctionDef) or not _is_private(fn.name):
        return False
    decos = [ast.unparse(d) for d in fn.decorator_list]
    if any(d not in ('staticmethod', 'classmethod') for d in decos):
        return False
    a = fn.args
    if a.vararg or a.kwarg or a.kwonlyargs or a.posonlyargs:
        return False
    ystmts = set()
    for x in ast.walk(fn):
        if isinstance(x, ast.Expr) and isinstance(x.value, (ast.Yield, ast.YieldFrom)):
            ystmts.add(id(x.value))
    has_yield = False
    for x in ast.walk(fn):
        if isinstance(x, (ast.Yield, ast.YieldFrom)):
            has_yield = True
            if id(x) not in ystmts:
                return False
        if isinstance(x, (ast.Await, ast.Global, ast.Nonlocal)):
            return False
        if x is not fn and isinstance(x, (ast.FunctionDef, ast.AsyncFunctionDef, ast.ClassDef)):
            return False
        if isinstance(x, ast.Return) and x.value is not None:
            return False
        if isinstance(x, ast.Call) and isinstance(x.func, ast.Name) and x.func.id in ('locals', 'vars', 'super', 'eval', 'exec', fn.name):
            return False
        if isinstance(x, ast.Call) and isinstance(x.func, ast.Attribute) and x.func.attr == fn.name:
            return False
    if not has_yield:
        return False
    body = [s for s in fn.body if not (isinstance(s, ast.Expr) and isinstance(s.value, ast.Constant))]
    return bool(body) and _tail_ok(body)


class _Rename(ast.NodeTransformer):
    def __init__(self, mapping):
        self.mapping = mapping

    def visit_Name(self, n):
        if n.id in self.mapping:
            return ast.copy_location(ast.Name(id=self.mapping[n.id], ctx=n.ctx), n)
        return n

    def visit_ExceptHandler(self, h):
        self.generic_visit(h)
        if h.name in self.mapping:
            h.name = self.mapping[h.name]
        return h

    def visit_Lambda(self, n):
        shadow = {a.arg for a in ast.walk(n.args) if isinstance(a, ast.arg)}
        saved = self.mapping
        self.mapping = {k: v for k, v in saved.items() if k not in shadow}
        self.generic_visit(n)
        self.mapping = saved
        return n

    def _comp(self, n):
        self.generic_visit(n)
        return n
    visit_ListComp = visit_SetComp = visit_DictComp = visit_GeneratorExp = _comp


def _replace_tail_returns(body, make):
    """body with every tail `return E` replaced by make(E) (a list of statements); guard clauses become if/else"""
    if not body:
        return make(None)
    out = []
    for i, st in enumerate(body):
        last = i == len(body) - 1
        if not last and isinstance(st, ast.If) and not st.orelse and st.body and _ends_in_return(st.body) and _has_return(st):
            new = copy.copy(st)
            new.body = _replace_tail_returns(st.body, make) if isinstance(st.body[-1], ast.Return) or _has_return_list(st.body) \
                else st.body
            new.orelse = _replace_tail_returns(body[i + 1:], make)
            out.append(new)
            return out
        if not last and _try_with_terminating_handlers(st) and _has_return(st):
            new = copy.copy(st)
            new.handlers = []
            for h in st.handlers:
                h2 = copy.copy(h)
                h2.body = _replace_tail_returns(h.body, make)
                new.handlers.append(h2)
            new.orelse = _replace_tail_returns(body[i + 1:], make)
            out.append(new)
            return out
        if not last:
            out.append(st)
            continue
        if isinstance(st, ast.Return):
            out.extend(make(st.value))
        elif isinstance(st, ast.Raise):
            out.append(st)
        elif isinstance(st, ast.If):
            new = copy.copy(st)
            new.body = _replace_tail_returns(st.body, make)
            new.orelse = _replace_tail_returns(st.orelse, make) if st.orelse else make(None)
            out.append(new)
        elif isinstance(st, ast.Try):
            new = copy.copy(st)
            if st.orelse:
                new.orelse = _replace_tail_returns(st.orelse, make)
            else:
                new.body = _replace_tail_returns(st.body, make)
            new.handlers = []
            for h in st.handlers:
                h2 = copy.copy(h)
                h2.body = _replace_tail_returns(h.body, make)
                new.handlers.append(h2)
            out.append(new)
        elif isinstance(st, ast.With):
            new = copy.copy(st)
            new.body = _replace_tail_returns(st.body, make)
            out.append(new)
        else:
            out.append(st)
            out.extend(make(None))
    return out


def _falls_through(body):
    """may control reach the end of the statement list without a return/raise?"""
    if not body:
        return True
    last = body[-1]
    if isinstance(last, (ast.Return, ast.Raise)):
        return False
    if isinstance(last, ast.If):
        return _falls_through(last.body) or _falls_through(last.orelse)
    return True


class Inliner:
    def __init__(self, tree):
        self.tree = tree
        self.count = 0
        self.serial = 0
        self.cur_fn = None
        self.keep = set()
        self.all_cls_funcs = {}
        self.in_generator = False
        self.mod_funcs = {}
        self.cls_funcs = {}       # class name -> {method name: (FunctionDef, kind)}
        self.bases = {}
        self.gen_funcs = {}
        self.tail_only = set()     # ids of helpers whose returns are not all in tail position: inlinable only as a tail call
        for st in tree.body:
            if isinstance(st, ast.FunctionDef) and _gen_helper(st):
                self.gen_funcs[st.name] = st
        for st in tree.body:
            if isinstance(st, ast.FunctionDef) and _simple_helper(st, 'anywhere'):
                self.mod_funcs[st.name] = st
                if not _simple_helper(st, 'function'):
                    self.tail_only.add(id(st))
            elif isinstance(st, ast.ClassDef):
                self.bases[st.name] = [b.id for b in st.bases if isinstance(b, ast.Name)]
                table = {}
                for m in st.body:
                    if isinstance(m, ast.FunctionDef):
                        decos = [ast.unparse(d) for d in m.decorator_list]
                        kind = 'static' if 'staticmethod' in decos else 'class' if 'classmethod' in decos else 'method'
                        table[m.name] = (m, kind)
                self.cls_funcs[st.name] = table
                self.all_cls_funcs[st.name] = dict(table)
        # a module-level name that is rebound is not a stable callee
        stores = {}
        for x in ast.walk(tree):
            if isinstance(x, ast.Name) and isinstance(x.ctx, (ast.Store, ast.Del)):
                stores[x.id] = stores.get(x.id, 0) + 1
        self.mod_funcs = {k: v for k, v in self.mod_funcs.items() if not stores.get(k)}

    def lookup_method(self, cls, name):
        seen = set()
        todo = [cls]
        while todo:
            c = todo.pop(0)
            if c in seen or c not in self.cls_funcs:
                continue
            seen.add(c)
            if name in self.cls_funcs[c]:
                m, kind = self.cls_funcs[c][name]
                if not _simple_helper(m, 'anywhere'):
                    return None
                if not _simple_helper(m, kind):
                    self.tail_only.add(id(m))
                return (m, kind)
            todo.extend(self.bases.get(c, []))
        return None

    def overridden_below(self, cls, name):
        """a subclass in this module redefines the method: the receiver's class decides, not the text"""
        for c, bs in self.bases.items():
            if c != cls and self._derives(c, cls) and name in self.cls_funcs.get(c, {}):
                return True
        return False

    def _derives(self, c, base, seen=()):
        if c in seen:
            return False
        return any(b == base or self._derives(b, base, seen + (c,)) for b in self.bases.get(c, []))

    def resolve_gen(self, call, cls):
        """-> (FunctionDef, receiver) for a call of an inlinable private generator"""
        f = call.func
        if any(isinstance(a, ast.Starred) for a in call.args) or any(k.arg is None for k in call.keywords):
            return None
        if isinstance(f, ast.Name) and f.id in self.gen_funcs and f.id not in self.keep:
            return self.gen_funcs[f.id], None
        if isinstance(f, ast.Attribute) and isinstance(f.value, ast.Name) and _is_private(f.attr) and f.attr not in self.keep and \
                f.value.id in ('self', 'cls') and cls is not None:
            seen, todo = set(), [cls]
            while todo:
                c = todo.pop(0)
                if c in seen or c not in self.all_cls_funcs:
                    continue
                seen.add(c)
                if f.attr in self.all_cls_funcs[c]:
                    m, kind = self.all_cls_funcs[c][f.attr]
                    if not _gen_helper(m) or self.overridden_below(cls, f.attr):
                        return None
                    if kind == 'static':
                        return m, None
                    if kind == 'method' and f.value.id == 'self':
                        return m, ast.Name(id='self', ctx=ast.Load())
                    return None
                todo.extend(self.bases.get(c, []))
        return None

    def resolve(self, call, cls):
        """-> (FunctionDef, receiver expression or None) for a call that can be inlined"""
        f = call.func
        if any(isinstance(a, ast.Starred) for a in call.args) or any(k.arg is None for k in call.keywords):
            return None
        if isinstance(f, ast.Name) and f.id in self.mod_funcs:
            return self.mod_funcs[f.id], None
        if isinstance(f, ast.Attribute) and isinstance(f.value, ast.Name) and _is_private(f.attr):
            r = f.value.id
            if r in ('self', 'cls') and cls is not None:
                hit = self.lookup_method(cls, f.attr)
                if hit is None or self.overridden_below(cls, f.attr):
                    return None
                m, kind = hit
                if kind == 'static':
                    return m, None
                if kind == 'class':
                    return (m, ast.Name(id='cls', ctx=ast.Load())) if r == 'cls' else \
                        (m, ast.Call(func=ast.Name(id='type', ctx=ast.Load()), args=[ast.Name(id='self', ctx=ast.Load())], keywords=[]))
                return (m, ast.Name(id=r, ctx=ast.Load())) if r == 'self' else None
            if r in self.cls_funcs:
                hit = self.lookup_method(r, f.attr)
                if hit and hit[1] == 'static':
                    return hit[0], None
            # a local bound once to a fresh instance of the current class: `ret = cls()` ... `ret._fill(...)`
            if cls is not None and self.cur_fn is not None and r not in ('self', 'cls'):
                binds = [x for x in ast.walk(self.cur_fn) if isinstance(x, ast.Assign) and len(x.targets) == 1 and
                         isinstance(x.targets[0], ast.Name) and x.targets[0].id == r]
                stores = [x for x in ast.walk(self.cur_fn) if isinstance(x, ast.Name) and x.id == r and
                          isinstance(x.ctx, (ast.Store, ast.Del))]
                if len(binds) == 1 and len(stores) == 1 and isinstance(binds[0].value, ast.Call) and \
                        ast.unparse(binds[0].value.func) in ('cls', 'self.__class__', 'type(self)', cls) and \
                        binds[0].lineno < call.lineno:
                    hit = self.lookup_method(cls, f.attr)
                    if hit and hit[1] == 'method' and not self.overridden_below(cls, f.attr):
                        return hit[0], ast.Name(id=r, ctx=ast.Load())
        return None

    def expand(self, call, make, cls, tail=None, gen=None):
        hit = self.resolve(call, cls) if gen is None else self.resolve_gen(call, cls)
        if hit is None:
            return None
        fn, recv = hit
        if gen is None and id(fn) in self.tail_only and tail is None:
            return None
        params = [a.arg for a in fn.args.args]
        defaults = [None] * (len(params) - len(fn.args.defaults)) + list(fn.args.defaults)
        bound = {}
        pos = list(call.args)
        names = list(params)
        order = []
        if recv is not None:
            if not names:
                return None
            bound[names[0]] = recv
            order.append(names[0])
            names = names[1:]
            defaults = defaults[1:] if len(defaults) == len(params) else defaults
        if len(pos) > len(names):
            return None
        for nm, a in zip(names, pos):
            bound[nm] = a
            order.append(nm)
        for k in call.keywords:
            if k.arg not in names or k.arg in bound:
                return None
            bound[k.arg] = k.value
            order.append(k.arg)
        dmap = dict(zip(params, [None] * (len(params) - len(fn.args.defaults)) + list(fn.args.defaults)))
        for nm in names:
            if nm not in bound:
                d = dmap.get(nm)
                if d is None:
                    return None
                bound[nm] = copy.deepcopy(d)
                order.append(nm)
        self.serial += 1
        tag = '_%s_%d_' % (fn.name.strip('_'), self.serial)
        local = set(params)
        for x in ast.walk(fn):
            if isinstance(x, ast.Name) and isinstance(x.ctx, (ast.Store, ast.Del)):
                local.add(x.id)
            elif isinstance(x, ast.ExceptHandler) and x.name:
                local.add(x.name)
        mapping = {}
        consts = {}
        pre = []
        rebound = {x.id for x in ast.walk(fn) if isinstance(x, ast.Name) and isinstance(x.ctx, (ast.Store, ast.Del))}
        for nm in order:
            v = bound[nm]
            if isinstance(v, ast.Name) and nm not in rebound:
                mapping[nm] = v.id                  # a plain name (the receiver, a local of the caller) keeps its name:
                continue                            # the helper cannot rebind the caller's variable
            if isinstance(v, ast.Constant) and nm not in rebound:
                consts[nm] = v
                continue
            mapping[nm] = tag + nm
            pre.append(ast.Assign(targets=[ast.Name(id=tag + nm, ctx=ast.Store())], value=v))
        for nm in local:
            if nm not in consts:                    # constant arguments are substituted below, under the parameter's own name
                mapping.setdefault(nm, tag + nm)
        body = [copy.deepcopy(s) for s in fn.body if not (isinstance(s, ast.Expr) and isinstance(s.value, ast.Constant))]
        body = [_Rename(mapping).visit(s) for s in body]
        if consts:
            class _C(ast.NodeTransformer):
                def visit_Name(self, n):
                    if isinstance(n.ctx, ast.Load) and n.id in consts:
                        return ast.copy_location(copy.deepcopy(consts[n.id]), n)
                    return n
            body = [_C().visit(s) for s in body]
        if gen is not None:
            # generator helper consumed on the spot: every `yield E` becomes gen(E), `yield from E` gen_from(E); a bare
            # return (tail position only) ends the helper's contribution
            y_one, y_from = gen

            class _Y(ast.NodeTransformer):
                def visit_Expr(self, e):
                    if isinstance(e.value, ast.Yield):
                        v = e.value.value if e.value.value is not None else ast.Constant(value=None)
                        return [ast.copy_location(x, e) for x in y_one(v)]
                    if isinstance(e.value, ast.YieldFrom):
                        return [ast.copy_location(x, e) for x in y_from(e.value.value)]
                    return e

                def visit_Lambda(self, n):
                    return n
            body = [x for st in body for x in (lambda r: r if isinstance(r, list) else [r])(_Y().visit(st))]
            body = _replace_tail_returns(body, lambda e: [])
        elif tail is None:
            body = _replace_tail_returns(body, make)
        elif tail == 'expr':
            # the call was the last statement of its function and its value was discarded: `return E` -> `E; return`
            class _R(ast.NodeTransformer):
                def visit_Return(self, r):
                    keep = r.value is not None and not isinstance(r.value, (ast.Constant, ast.Name))
                    return ([ast.copy_location(ast.Expr(value=r.value), r)] if keep else []) + [ast.copy_location(ast.Return(value=None), r)]

                def visit_Lambda(self, n):
                    return n
            body = [x for st in body for x in (lambda r: r if isinstance(r, list) else [r])(_R().visit(st))]
        # tail == 'return': the helper's returns are the function's returns
        out = pre + body
        for s in out:
            for x in ast.walk(s):
                if not hasattr(x, 'lineno'):
                    ast.copy_location(x, call)
        self.count += 1
        return out

    # -- statements ------------------------------------------------------------------------------------------
    def stmt(self, st, cls):
        call = None
        if isinstance(st, ast.Expr) and isinstance(st.value, ast.Call):
            call = st.value

            def make(e):
                return [ast.copy_location(ast.Expr(value=e), st)] if e is not None and not isinstance(e, (ast.Constant, ast.Name)) else []
        elif isinstance(st, ast.Assign) and isinstance(st.value, ast.Call):
            call = st.value

            def make(e):
                return [ast.copy_location(ast.Assign(targets=copy.deepcopy(st.targets),
                                                     value=e if e is not None else ast.Constant(value=None)), st)]
        elif isinstance(st, ast.Return) and isinstance(st.value, ast.Call):
            call = st.value

            def make(e):
                return [ast.copy_location(ast.Return(value=e), st)]
        if call is None:
            return self.gen_stmt(st, cls)
        rep = self.expand(call, make, cls)
        return rep if rep is not None else self.gen_stmt(st, cls)

    def gen_stmt(self, st, cls):
        """a statement that consumes a private generator helper completely, on the spot"""
        def is_gen_call(e):
            return isinstance(e, ast.Call) and self.resolve_gen(e, cls) is not None
        # X.extend(_g(...))
        if isinstance(st, ast.Expr) and isinstance(st.value, ast.Call) and isinstance(st.value.func, ast.Attribute) and \
                st.value.func.attr == 'extend' and len(st.value.args) == 1 and not st.value.keywords and is_gen_call(st.value.args[0]):
            tgt = st.value.func.value
            if not all(isinstance(x, (ast.Name, ast.Attribute, ast.Load)) for x in ast.walk(tgt)):
                return None

            def one(v):
                return [ast.Expr(value=ast.Call(func=ast.Attribute(value=copy.deepcopy(tgt), attr='append', ctx=ast.Load()),
                                                args=[v], keywords=[]))]

            def many(v):
                return [ast.Expr(value=ast.Call(func=ast.Attribute(value=copy.deepcopy(tgt), attr='extend', ctx=ast.Load()),
                                                args=[v], keywords=[]))]
            return self.expand(st.value.args[0], None, cls, gen=(one, many))
        # x = list(_g(...)) / return list(_g(...)) / tuple(...)
        if isinstance(st, (ast.Assign, ast.Return)) and isinstance(st.value, ast.Call) and isinstance(st.value.func, ast.Name) and \
                st.value.func.id in ('list', 'tuple') and len(st.value.args) == 1 and not st.value.keywords and \
                is_gen_call(st.value.args[0]):
            self.serial += 1
            tmp = '_collected_%d' % self.serial

            def one(v):
                return [ast.Expr(value=ast.Call(func=ast.Attribute(value=ast.Name(id=tmp, ctx=ast.Load()), attr='append', ctx=ast.Load()),
                                                args=[v], keywords=[]))]

            def many(v):
                return [ast.Expr(value=ast.Call(func=ast.Attribute(value=ast.Name(id=tmp, ctx=ast.Load()), attr='extend', ctx=ast.Load()),
                                                args=[v], keywords=[]))]
            body = self.expand(st.value.args[0], None, cls, gen=(one, many))
            if body is None:
                return None
            res = ast.Name(id=tmp, ctx=ast.Load()) if st.value.func.id == 'list' else \
                ast.Call(func=ast.Name(id='tuple', ctx=ast.Load()), args=[ast.Name(id=tmp, ctx=ast.Load())], keywords=[])
            init = ast.copy_location(ast.Assign(targets=[ast.Name(id=tmp, ctx=ast.Store())], value=ast.List(elts=[], ctx=ast.Load())), st)
            last = ast.copy_location(ast.Assign(targets=copy.deepcopy(st.targets), value=res), st) if isinstance(st, ast.Assign) \
                else ast.copy_location(ast.Return(value=res), st)
            out = [init] + body + [last]
            for x in out:
                ast.fix_missing_locations(x)
            return out
        # yield from _g(...)   /   for v in _g(...): yield v      (inside a generator: the yields stay yields)
        inner = None
        if isinstance(st, ast.Expr) and isinstance(st.value, ast.YieldFrom) and is_gen_call(st.value.value):
            inner = st.value.value
        elif isinstance(st, ast.For) and not st.orelse and isinstance(st.target, ast.Name) and len(st.body) == 1 and \
                isinstance(st.body[0], ast.Expr) and isinstance(st.body[0].value, ast.Yield) and \
                isinstance(st.body[0].value.value, ast.Name) and st.body[0].value.value.id == st.target.id and is_gen_call(st.iter):
            inner = st.iter
        # for v in _g(...): BODY   -- BODY runs at every yield of the helper, in the helper's control flow
        if inner is None and isinstance(st, ast.For) and not st.orelse and isinstance(st.target, ast.Name) and is_gen_call(st.iter):
            g, _recv = self.resolve_gen(st.iter, cls)
            has_break = has_continue = False
            stack = list(st.body)
            while stack:
                x = stack.pop()
                if isinstance(x, ast.Break):
                    has_break = True
                elif isinstance(x, ast.Continue):
                    has_continue = True
                if isinstance(x, (ast.For, ast.While, ast.FunctionDef, ast.AsyncFunctionDef, ast.Lambda, ast.ClassDef)):
                    continue
                stack.extend(ast.iter_child_nodes(x))
            # `continue` = resume the helper after its yield: the same thing only when every yield ends a loop body of the helper
            yields_end_loops = True
            any_from = False
            for lp in ast.walk(g):
                if isinstance(lp, ast.Expr) and isinstance(lp.value, ast.YieldFrom):
                    any_from = True
            def tails(body, in_loop):
                ok = True
                for i, s_ in enumerate(body):
                    last = i == len(body) - 1
                    if isinstance(s_, ast.Expr) and isinstance(s_.value, ast.Yield):
                        if not (in_loop and last):
                            ok = False
                    elif isinstance(s_, (ast.For, ast.While)):
                        ok = ok and tails(s_.body, True) and not any(isinstance(y, ast.Yield) for z in s_.orelse for y in ast.walk(z))
                    elif isinstance(s_, ast.If):
                        ok = ok and tails(s_.body, in_loop and last) and tails(s_.orelse, in_loop and last)
                    elif any(isinstance(y, ast.Yield) for y in ast.walk(s_)):
                        ok = False
                return ok
            if has_continue:
                yields_end_loops = tails([x for x in g.body], False)
            tname = st.target.id
            n_yield = sum(1 for y in ast.walk(g) if isinstance(y, ast.Yield))
            if not has_break and not any_from and (not has_continue or yields_end_loops) and n_yield == 1:
                def one(v):
                    return [ast.Assign(targets=[ast.Name(id=tname, ctx=ast.Store())], value=v)] + copy.deepcopy(st.body)

                def many(v):
                    return []
                return self.expand(st.iter, None, cls, gen=(one, many))
        if inner is not None:
            def one(v):
                return [ast.Expr(value=ast.Yield(value=v))]

            def many(v):
                return [ast.Expr(value=ast.YieldFrom(value=v))]
            return self.expand(inner, None, cls, gen=(one, many))
        return None

    def block(self, body, cls, depth, fn_tail=False):
        out = []
        for i, st in enumerate(body):
            rep = self.stmt(st, cls) if depth < MAX_DEPTH else None
            if rep is None and depth < MAX_DEPTH and isinstance(st, ast.Return) and isinstance(st.value, ast.Call) and \
                    not self.in_generator:
                # `return helper(...)`: whatever the helper returns, the function returns -- its returns can stay returns,
                # wherever they are (inside loops, guard clauses ...)
                rep = self.expand(st.value, None, cls, tail='return')
            if rep is None and fn_tail and i == len(body) - 1 and depth < MAX_DEPTH and \
                    isinstance(st, ast.Expr) and isinstance(st.value, ast.Call) and not self.in_generator:
                # last statement of the function, value discarded: `return E` -> `E; return`
                rep = self.expand(st.value, None, cls, tail='expr')
            if rep is not None:
                # a `return helper(...)` whose helper may fall off its end returns None there
                out.extend(self.block(rep, cls, depth + 1))
                continue
            for field in ('body', 'orelse', 'finalbody'):
                blk = getattr(st, field, None)
                if isinstance(blk, list) and blk and isinstance(blk[0], ast.stmt) and \
                        not isinstance(st, (ast.FunctionDef, ast.AsyncFunctionDef, ast.ClassDef)):
                    setattr(st, field, self.block(blk, cls, depth))
            if isinstance(st, ast.Try):
                for h in st.handlers:
                    h.body = self.block(h.body, cls, depth)
            out.append(st)
        return out

    def run(self):
        for st in self.tree.body:
            if isinstance(st, ast.FunctionDef):
                self.cur_fn = st
                self.in_generator = _is_generator(st)
                st.body = self.block(st.body, None, 0, fn_tail=True)
            elif isinstance(st, ast.ClassDef):
                for m in st.body:
                    if isinstance(m, ast.FunctionDef):
                        self.cur_fn = m
                        self.in_generator = _is_generator(m)
                        m.body = self.block(m.body, st.name, 0, fn_tail=True)
        ast.fix_missing_locations(self.tree)
        return self.count


def hoist_helper_calls(tree, inl):
    """`if _h(a):` / `while`-free tests and `x = f(_h(a))`-free forms: only the plain `if <call>:` test is hoisted into a
    temporary so that the call becomes statement-level (`t = _h(a); if t:`), which is exact."""
    n = [0]

    class T(ast.NodeTransformer):
        def __init__(self):
            self.cls = None

        def visit_ClassDef(self, c):
            saved, self.cls = self.cls, c.name
            self.generic_visit(c)
            self.cls = saved
            return c

        def _tmp(self, call, at):
            n[0] += 1
            nm = '_hoisted_%d' % n[0]
            asg = ast.copy_location(ast.Assign(targets=[ast.Name(id=nm, ctx=ast.Store())], value=call), at)
            return nm, asg

        def visit_For(self, s):
            self.generic_visit(s)
            if isinstance(s.iter, ast.Call) and inl.resolve(s.iter, self.cls) is not None:
                nm, asg = self._tmp(s.iter, s)          # `for x in _h(a):` -> `t = _h(a); for x in t:`
                s.iter = ast.copy_location(ast.Name(id=nm, ctx=ast.Load()), s.iter)
                return [asg, s]
            return s

        def visit_Expr(self, e):
            self.generic_visit(e)
            c = e.value
            # `local.method(_h(a))` with a local receiver: the helper cannot rebind the caller's local
            if isinstance(c, ast.Call) and isinstance(c.func, ast.Attribute) and isinstance(c.func.value, ast.Name) and \
                    c.func.value.id not in ('self', 'cls') and len(c.args) == 1 and not c.keywords and \
                    isinstance(c.args[0], ast.Call) and inl.resolve(c.args[0], self.cls) is not None:
                nm, asg = self._tmp(c.args[0], e)
                c.args[0] = ast.copy_location(ast.Name(id=nm, ctx=ast.Load()), c)
                return [asg, e]
            return e

        def _join(self, s):
            # `return SEP.join(_g(..))` / `x = SEP.join(_g(..))`: the generator is consumed completely before the join
            v = s.value
            if isinstance(v, ast.Call) and isinstance(v.func, ast.Attribute) and v.func.attr == 'join' and \
                    isinstance(v.func.value, (ast.Constant, ast.Name)) and len(v.args) == 1 and not v.keywords and \
                    isinstance(v.args[0], ast.Call) and inl.resolve_gen(v.args[0], self.cls) is not None:
                n[0] += 1
                nm = '_hoisted_%d' % n[0]
                asg = ast.copy_location(ast.Assign(targets=[ast.Name(id=nm, ctx=ast.Store())], value=ast.copy_location(
                    ast.Call(func=ast.Name(id='list', ctx=ast.Load()), args=[v.args[0]], keywords=[]), v)), s)
                v.args[0] = ast.copy_location(ast.Name(id=nm, ctx=ast.Load()), v)
                return [asg, s]
            return s

        def visit_Return(self, s):
            self.generic_visit(s)
            return self._join(s) if s.value is not None else s

        def visit_Assign(self, s):
            self.generic_visit(s)
            return self._join(s)

        def visit_If(self, s):
            self.generic_visit(s)
            t = s.test
            neg = False
            if isinstance(t, ast.UnaryOp) and isinstance(t.op, ast.Not):
                t, neg = t.operand, True
            if isinstance(t, ast.Call) and inl.resolve(t, self.cls) is not None:
                n[0] += 1
                nm = '_hoisted_%d' % n[0]
                asg = ast.copy_location(ast.Assign(targets=[ast.Name(id=nm, ctx=ast.Store())], value=t), s)
                ref = ast.copy_location(ast.Name(id=nm, ctx=ast.Load()), t)
                s.test = ast.copy_location(ast.UnaryOp(op=ast.Not(), operand=ref), t) if neg else ref
                return [asg, s]
            return s
    T().visit(tree)
    ast.fix_missing_locations(tree)
    return n[0]


_KEEP = None
_RULE_MODULES = {'atomicsave': {'fileutils'}, 'bimap': {'dictutils'}, 'cachestep': {'cacheutils'}, 'locks': {'cacheutils'},
                 'cmdquote': {'strutils'}, 'conserve': {'iterutils'}, 'omdstep': {'dictutils', 'urlutils'},
                 'urlquote': {'urlutils'}}
_PROP_MODULES = {'C01': {'dictutils', 'urlutils'}, 'C02': {'cacheutils'}, 'C03': {'cacheutils'}, 'C04': {'fileutils'},
                 'C05': {'fileutils'}, 'C06': {'urlutils'}, 'C07': {'urlutils'}, 'C08': {'iterutils'}, 'C09': {'iterutils'},
                 'C10': {'queueutils', 'listutils'}, 'C11': {'setutils'}, 'C12': {'socketutils'}, 'C14': {'strutils'},
                 'C15': {'iterutils'}, 'C16': {'tbutils'}, 'C17': {'dictutils'}, 'C18': {'ioutils'},
                 'C19': {'strutils', 'jsonutils'}, 'C20': {'cacheutils'}}


def names_known_to_rules(module_name=None):
    """Private helper names that the rules themselves mention (props/Cnn.py for the modules Cnn analyses, rules/*.py for the
    modules they are written for, rules/common.py and the rest for all): those helpers are part of the structure the rules
    were written against, so they stay calls in the second view; every other simple private helper is inlined."""
    global _KEEP
    if _KEEP is None:
        import glob
        import os
        import re
        here = os.path.dirname(os.path.dirname(os.path.abspath(__file__)))
        keep = {}
        for f in glob.glob(os.path.join(here, 'props', '*.py')) + glob.glob(os.path.join(here, 'rules', '*.py')):
            try:
                src = open(f, encoding='utf-8').read()
            except OSError:
                continue
            base = os.path.basename(f)[:-3]
            mods = _PROP_MODULES.get(base) or _RULE_MODULES.get(base) or {'*'}
            for tok in re.findall(r"(?<![A-Za-z0-9_])_[a-z][A-Za-z0-9_]*", src):
                for m in mods:
                    keep.setdefault(m, set()).add(tok)
        _KEEP = keep
    return _KEEP.get('*', set()) | _KEEP.get(module_name, set()) | existing_helpers(module_name)


_EXISTING = None


def existing_helpers(module_name):
    """private helpers that existed when the rules were written (sa/known_helpers.json, tools/gen_known_helpers.py): the
    second view puts back only what was moved into *new* helpers"""
    global _EXISTING
    if _EXISTING is None:
        import json
        import os
        try:
            with open(os.path.join(os.path.dirname(os.path.abspath(__file__)), 'known_helpers.json')) as f:
                _EXISTING = {k: set(v) for k, v in json.load(f).items()}
        except (OSError, ValueError):
            _EXISTING = {}
    return _EXISTING.get(module_name, set())


def inline_private_helpers(tree, module_name=None):
    inl = Inliner(tree)
    keep = names_known_to_rules(module_name)
    inl.keep = keep
    inl.mod_funcs = {k: v for k, v in inl.mod_funcs.items() if k not in keep}
    for c in inl.cls_funcs:
        inl.cls_funcs[c] = {k: v for k, v in inl.cls_funcs[c].items() if k not in keep}
    hoist_helper_calls(tree, inl)
    n = inl.run()
    if n:
        forward_accumulators(tree)
    return n


def forward_accumulators(tree):
    """After inlining a helper that builds a list and returns it into `R.extend(<helper call>)`, the block reads

        ACC = []
        ...  ACC.append(x) / ACC.extend(xs) ...  H = ACC ...
        R.extend(H)

    with ACC touched only as the receiver of append/extend statements and as the value of `H = ACC`, H used only in the closing
    `R.extend(H)`, R a local list of the function (bound by `R = []`) that the statements in between do not mention, and no `try`
    in the function.  The pieces then reach R in the same order if they are appended to R directly: ACC is replaced by R, the
    bindings and the closing extend are dropped.  (An exception in between leaves R partly extended, but R is a local that dies
    with the frame.)  Returns the number of accumulators forwarded."""
    total = 0
    for fn in [n for n in ast.walk(tree) if isinstance(n, (ast.FunctionDef, ast.AsyncFunctionDef))]:
        if any(isinstance(x, ast.Try) for x in ast.walk(fn)):
            continue
        local_lists = {st.targets[0].id for st in ast.walk(fn) if isinstance(st, ast.Assign) and len(st.targets) == 1 and
                       isinstance(st.targets[0], ast.Name) and isinstance(st.value, ast.List) and not st.value.elts}
        for blk in _blocks_of(fn):
            i = 0
            while i < len(blk):
                st = blk[i]
                if not (isinstance(st, ast.Assign) and len(st.targets) == 1 and isinstance(st.targets[0], ast.Name) and
                        isinstance(st.value, ast.List) and not st.value.elts):
                    i += 1
                    continue
                acc = st.targets[0].id
                # the closing statement: R.extend(H) / R.extend(ACC) later in the same block
                close = None
                for j in range(i + 1, len(blk)):
                    c = blk[j]
                    if isinstance(c, ast.Expr) and isinstance(c.value, ast.Call) and isinstance(c.value.func, ast.Attribute) and \
                            c.value.func.attr == 'extend' and isinstance(c.value.func.value, ast.Name) and len(c.value.args) == 1 and \
                            isinstance(c.value.args[0], ast.Name) and not c.value.keywords:
                        close = j
                        break
                if close is None:
                    i += 1
                    continue
                R, H = blk[close].value.func.value.id, blk[close].value.args[0].id
                region = blk[i + 1:close]
                ok = R in local_lists and R != acc
                uses = [x for x in ast.walk(fn) if isinstance(x, ast.Name) and x.id == acc]
                par = {}
                for x in ast.walk(fn):
                    for ch in ast.iter_child_nodes(x):
                        par[ch] = x
                aliases = []
                for u in uses:
                    up = par.get(u)
                    if u is st.targets[0]:
                        continue
                    if isinstance(up, ast.Attribute) and up.attr in ('append', 'extend') and isinstance(par.get(up), ast.Call) and \
                            par[up].func is up and isinstance(par.get(par[up]), ast.Expr):
                        continue
                    if isinstance(up, ast.Assign) and up.value is u and len(up.targets) == 1 and isinstance(up.targets[0], ast.Name) \
                            and up.targets[0].id == H and H != acc:
                        aliases.append(up)
                        continue
                    if H == acc and up is blk[close].value:
                        continue
                    ok = False
                if H != acc:
                    h_uses = [x for x in ast.walk(fn) if isinstance(x, ast.Name) and x.id == H]
                    ok = ok and len(h_uses) == len(aliases) + 1 and bool(aliases)
                in_region = {id(x) for s_ in region for x in ast.walk(s_)}
                ok = ok and all(id(u) in in_region or u is st.targets[0] or (H == acc and par.get(u) is blk[close].value) for u in uses)
                ok = ok and not any(isinstance(x, ast.Name) and x.id == R for s_ in region for x in ast.walk(s_))
                ok = ok and not any(isinstance(x, (ast.FunctionDef, ast.Lambda, ast.ClassDef)) for s_ in region for x in ast.walk(s_))
                if not ok:
                    i += 1
                    continue
                alias_ids = {id(a) for a in aliases}

                class _F(ast.NodeTransformer):
                    def visit_Assign(self, a):
                        if id(a) in alias_ids:
                            return ast.copy_location(ast.Pass(), a)
                        return self.generic_visit(a)

                    def visit_Name(self, n):
                        if n.id == acc:
                            return ast.copy_location(ast.Name(id=R, ctx=n.ctx), n)
                        return n
                new_region = [_F().visit(s_) for s_ in region]
                blk[i:close + 1] = new_region
                total += 1
    if total:
        ast.fix_missing_locations(tree)
    return total


def _blocks_of(fn):
    out = []
    stack = [fn]
    while stack:
        x = stack.pop()
        for f in ('body', 'orelse', 'finalbody'):
            b = getattr(x, f, None)
            if isinstance(b, list) and b and isinstance(b[0], ast.stmt):
                out.append(b)
                stack.extend(b)
        for h in getattr(x, 'handlers', []) or []:
            stack.append(h)
    return out
