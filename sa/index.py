"""Program index: parse boltons/*.py from the current working tree (or an
in-memory overlay) and resolve classes, MROs, aliases and callees.

Nothing from the analysed package is imported or executed.
"""
import ast
import copy
import keyword
import glob
import hashlib
import os

REPO = os.environ.get('VERIF_REPO', '/repo')
PKG = 'boltons'


class AnalysisError(Exception):
    """The analysis itself cannot run (anchor vanished, unknown idiom, ...)."""


# --------------------------------------------------------------------------
# builtin base-class stubs (CPython 3.12) -- DESIGN.md Appendix B
DICT_MUTATORS = ('__setitem__', '__delitem__', '__ior__', 'clear', 'pop',
                 'popitem', 'setdefault', 'update', '__init__')
DICT_SINGLE_READERS = ('__contains__', '__len__', '__getitem__', 'get',
                       '__eq__', '__ne__', '__repr__', '__or__', '__ror__',
                       'copy', '__sizeof__', '__str__', '__format__',
                       '__hash__', '__lt__', '__le__', '__gt__', '__ge__',
                       '__bool__')
DICT_VIEW_PRODUCERS = ('keys', 'values', 'items', '__iter__', '__reversed__')
DICT_CONSTRUCTION = ('__new__', 'fromkeys', '__class_getitem__')
DICT_PROTOCOL = ('__reduce_ex__', '__reduce__', '__getstate__',
                 '__getattribute__', '__setattr__', '__delattr__', '__dir__',
                 '__init_subclass__', '__subclasshook__', '__doc__',
                 '__class__')
DICT_API = (DICT_MUTATORS + DICT_SINGLE_READERS + DICT_VIEW_PRODUCERS
            + DICT_CONSTRUCTION)

LIST_MUTATORS = ('__setitem__', '__delitem__', '__iadd__', '__imul__',
                 'append', 'clear', 'extend', 'insert', 'pop', 'remove',
                 'reverse', 'sort', '__init__')

BUILTIN_BASES = {
    'dict': DICT_API + DICT_PROTOCOL,
    'list': LIST_MUTATORS + ('__getitem__', '__len__', '__iter__',
                             '__contains__', '__eq__', '__repr__', 'index',
                             'count', 'copy', '__add__', '__mul__',
                             '__reversed__', '__new__', '__reduce_ex__'),
    'object': ('__init__', '__new__', '__repr__', '__eq__', '__ne__',
               '__hash__', '__reduce_ex__', '__reduce__', '__getstate__',
               '__str__', '__setattr__', '__getattribute__'),
}


class Builtin:
    """A method that resolves to a builtin base class (C level)."""
    def __init__(self, base, name):
        self.base, self.name = base, name

    def __repr__(self):
        return 'Builtin(%s.%s)' % (self.base, self.name)

    def __eq__(self, other):
        return (isinstance(other, Builtin)
                and (self.base, self.name) == (other.base, other.name))

    def __hash__(self):
        return hash((self.base, self.name))


class BuiltinClass:
    def __init__(self, name):
        self.name = name
        self.qualname = 'builtins.' + name
        self.members = {}

    def has(self, name):
        return name in BUILTIN_BASES.get(self.name, ()) or (
            self.name != 'object' and name in BUILTIN_BASES['object'])

    def __repr__(self):
        return '<builtin %s>' % self.name


class FuncInfo:
    def __init__(self, module, node, cls=None, parent=None):
        self.module = module
        self.node = node
        self.cls = cls
        self.parent = parent
        self.name = node.name
        if cls is not None:
            self.qualname = '%s.%s' % (cls.name, node.name)
        elif parent is not None:
            self.qualname = '%s.<locals>.%s' % (parent.qualname, node.name)
        else:
            self.qualname = node.name
        self.decorators = [ast.unparse(d) for d in node.decorator_list]

    @property
    def fq(self):
        return '%s.%s' % (self.module.name, self.qualname)

    @property
    def params(self):
        a = self.node.args
        return ([x.arg for x in a.posonlyargs] + [x.arg for x in a.args]
                + ([a.vararg.arg] if a.vararg else [])
                + [x.arg for x in a.kwonlyargs]
                + ([a.kwarg.arg] if a.kwarg else []))

    def is_static(self):
        return 'staticmethod' in self.decorators

    def is_classmethod(self):
        return 'classmethod' in self.decorators

    def is_property(self):
        return any(d in ('property', 'cachedproperty', 'abstractproperty')
                   or d.endswith('.setter') or d.endswith('.getter')
                   for d in self.decorators)

    def __repr__(self):
        return '<func %s>' % self.fq

    @property
    def loc(self):
        return '%s:%d' % (self.module.relpath, self.node.lineno)


class ClassInfo:
    def __init__(self, module, node):
        self.module = module
        self.node = node
        self.name = node.name
        self.qualname = node.name
        self.members = {}        # name -> FuncInfo | ('alias', name) | ('value', expr)
        self.deleted = set()
        self.setters = {}        # property name -> FuncInfo of the setter
        self._scan()

    @property
    def fq(self):
        return '%s.%s' % (self.module.name, self.name)

    def _scan(self):
        for st in self.node.body:
            self._scan_stmt(st)

    def _scan_stmt(self, st):
        if isinstance(st, (ast.FunctionDef, ast.AsyncFunctionDef)):
            fi = FuncInfo(self.module, st, cls=self)
            if any(d.endswith('.setter') for d in fi.decorators):
                self.setters[st.name] = fi
                return
            self.members[st.name] = fi
            self.deleted.discard(st.name)
        elif isinstance(st, ast.Assign):
            for tgt in st.targets:
                for nm in _target_names(tgt):
                    if isinstance(st.value, ast.Name) and len(st.targets) >= 1 \
                            and isinstance(tgt, ast.Name):
                        cur = self.members.get(st.value.id)
                        if isinstance(cur, FuncInfo):
                            # bind to the function object as of now (a later
                            # `del name` in the class body does not unbind it)
                            self.members[nm] = cur
                        else:
                            self.members[nm] = ('alias', st.value.id)
                    else:
                        self.members[nm] = ('value', st.value)
                    self.deleted.discard(nm)
        elif isinstance(st, ast.AnnAssign) and isinstance(st.target, ast.Name):
            if st.value is not None:
                self.members[st.target.id] = ('value', st.value)
        elif isinstance(st, ast.Delete):
            for tgt in st.targets:
                if isinstance(tgt, ast.Name):
                    self.members.pop(tgt.id, None)
                    self.deleted.add(tgt.id)
        elif isinstance(st, ast.If):
            # class-body conditionals: take both arms (later wins)
            for s in st.body + st.orelse:
                self._scan_stmt(s)

    def own(self, name):
        """Member defined in this class body, aliases followed."""
        seen = set()
        while True:
            m = self.members.get(name)
            if isinstance(m, tuple) and m[0] == 'alias':
                if name in seen:
                    return None
                seen.add(name)
                tgt = m[1]
                if tgt in self.members:
                    name = tgt
                    continue
                # alias to a module-level function
                f = self.module.functions.get(tgt)
                if f is not None:
                    return f
                return m
            return m

    def __repr__(self):
        return '<class %s>' % self.fq


def _target_names(tgt):
    if isinstance(tgt, ast.Name):
        yield tgt.id
    elif isinstance(tgt, (ast.Tuple, ast.List)):
        for e in tgt.elts:
            yield from _target_names(e)


# platform facts for folding top-level conditionals (POSIX, threads present)
_PLATFORM_TRUE = {"hasattr(os, 'O_NOFOLLOW')"}
_PLATFORM_FALSE = {"os.name == 'nt'", "hasattr(os, 'O_NOINHERIT')",
                   "hasattr(os, 'O_BINARY')", "__name__ == '__main__'",
                   '_IS_PYPY'}


def inline_literal_constants(tree):
    """Normalisation: a module-level name bound exactly once, at top level, to an immutable literal (str / bytes / int /
    float, not bool/None) is replaced by that literal wherever a function *reads* it and does not shadow it.  `X = 'utf8'`
    ... `s.encode(X)` is analysed as `s.encode('utf8')`: moving a literal into a named constant (or back) changes
    nothing for the rules.  The module-level binding itself stays (constant folding still sees it)."""
    counts = {}
    for n in ast.walk(tree):
        if isinstance(n, ast.Name) and isinstance(n.ctx, (ast.Store, ast.Del)):
            counts[n.id] = counts.get(n.id, 0) + 1
        elif isinstance(n, (ast.Global, ast.Nonlocal)):
            for nm in n.names:
                counts[nm] = counts.get(nm, 0) + 2
        elif isinstance(n, ast.arg):
            counts[n.arg] = counts.get(n.arg, 0) + 0      # parameters shadow per function (handled below)
        elif isinstance(n, (ast.Import, ast.ImportFrom)):
            for a in n.names:
                nm = (a.asname or a.name).split('.')[0]
                counts[nm] = counts.get(nm, 0) + 2
        elif isinstance(n, (ast.FunctionDef, ast.AsyncFunctionDef, ast.ClassDef)):
            counts[n.name] = counts.get(n.name, 0) + 2
    consts = {}
    for st in tree.body:
        v = st.value if isinstance(st, ast.Assign) else None
        if isinstance(v, ast.UnaryOp) and isinstance(v.op, ast.USub) and isinstance(v.operand, ast.Constant) and \
                isinstance(v.operand.value, (int, float)) and not isinstance(v.operand.value, bool):
            v = ast.copy_location(ast.Constant(value=-v.operand.value), v)          # a negative numeric literal
        if isinstance(st, ast.Assign) and len(st.targets) == 1 and isinstance(st.targets[0], ast.Name) and \
                isinstance(v, ast.Constant) and isinstance(v.value, (str, bytes, int, float)) and \
                not isinstance(v.value, bool) and counts.get(st.targets[0].id) == 1:
            consts[st.targets[0].id] = v
    if not consts:
        return {}

    class Inl(ast.NodeTransformer):
        def __init__(self):
            self.shadow = [set()]

        def _fn(self, n):
            sh = {a.arg for a in ast.walk(n.args) if isinstance(a, ast.arg)}
            body = n.body if isinstance(n.body, list) else [n.body]
            for st in body:
                for x in ast.walk(st):
                    if isinstance(x, ast.Name) and isinstance(x.ctx, ast.Store):
                        sh.add(x.id)
            self.shadow.append(self.shadow[-1] | sh)
            self.generic_visit(n)
            self.shadow.pop()
            return n
        visit_FunctionDef = visit_AsyncFunctionDef = visit_Lambda = _fn

        def visit_Name(self, n):
            if len(self.shadow) > 1 and isinstance(n.ctx, ast.Load) and n.id in consts and n.id not in self.shadow[-1]:
                c = consts[n.id]
                return ast.copy_location(ast.Constant(value=c.value), n)
            return n
    Inl().visit(tree)
    return {k: v.value for k, v in consts.items()}


def _simple_elem(e):
    """An element of a literal table that can be re-evaluated anywhere: constants, names, dotted names, tuples of those."""
    if isinstance(e, ast.Constant) or isinstance(e, ast.Name):
        return True
    if isinstance(e, ast.Attribute):
        return _simple_elem(e.value)
    if isinstance(e, ast.UnaryOp) and isinstance(e.op, ast.USub) and isinstance(e.operand, ast.Constant):
        return True
    if isinstance(e, (ast.Tuple, ast.List)):
        return all(_simple_elem(x) for x in e.elts)
    return False


def unroll_table_loops(tree):
    """Normalisation: a `for` over a *literal table* -- a tuple/list display of simple elements written in place, or a module-
    / class-level name bound exactly once to such a display -- is replaced by its unrolling, with the loop variables substituted
    in each copy of the body; then `setattr(x, '<ident>', v)` statements become `x.<ident> = v` and `getattr(x, '<ident>')`
    becomes `x.<ident>`.  A table-driven rewrite of a run of sibling statements (or of an if/elif chain) is thereby analysed
    as the run of statements it stands for.  Loops with break/continue/else, large tables or bodies that rebind the loop
    variables or the names the table reads are left alone.  Returns the number of loops unrolled."""
    stores = {}
    attr_stores = set()
    for n in ast.walk(tree):
        if isinstance(n, ast.Name) and isinstance(n.ctx, (ast.Store, ast.Del)):
            stores[n.id] = stores.get(n.id, 0) + 1
        elif isinstance(n, (ast.Global, ast.Nonlocal)):
            for nm in n.names:
                stores[nm] = stores.get(nm, 0) + 2
        elif isinstance(n, ast.Attribute) and isinstance(n.ctx, (ast.Store, ast.Del)):
            attr_stores.add(n.attr)
        elif isinstance(n, (ast.FunctionDef, ast.AsyncFunctionDef, ast.ClassDef)):
            stores[n.name] = stores.get(n.name, 0) + 2
        elif isinstance(n, ast.Call) and isinstance(n.func, ast.Name) and n.func.id == 'setattr' and len(n.args) == 3 and \
                isinstance(n.args[1], ast.Constant) and isinstance(n.args[1].value, str):
            attr_stores.add(n.args[1].value)

    def table_of(v):
        if isinstance(v, (ast.Tuple, ast.List)) and 0 < len(v.elts) <= 12 and all(_simple_elem(x) for x in v.elts):
            return v
        return None
    mod_tables = {}
    for st in tree.body:
        if isinstance(st, ast.Assign) and len(st.targets) == 1 and isinstance(st.targets[0], ast.Name) and \
                stores.get(st.targets[0].id) == 1 and table_of(st.value) is not None:
            mod_tables[st.targets[0].id] = st.value
    count = [0]

    def own_nodes(body):
        """nodes of the statements, not descending into nested function / class definitions"""
        stack = list(body)
        while stack:
            x = stack.pop()
            yield x
            if isinstance(x, (ast.FunctionDef, ast.AsyncFunctionDef, ast.ClassDef, ast.Lambda)) :
                continue
            stack.extend(ast.iter_child_nodes(x))

    def loop_ctl(body):
        """break / continue that belong to this loop"""
        stack = list(body)
        while stack:
            x = stack.pop()
            if isinstance(x, (ast.Break, ast.Continue)):
                return True
            if isinstance(x, (ast.For, ast.While, ast.AsyncFor, ast.FunctionDef, ast.AsyncFunctionDef, ast.ClassDef, ast.Lambda)):
                if isinstance(x, (ast.For, ast.While, ast.AsyncFor)):
                    stack.extend(x.orelse)
                continue
            stack.extend(ast.iter_child_nodes(x))
        return False

    class Subst(ast.NodeTransformer):
        def __init__(self, env):
            self.env = env

        def visit_Name(self, n):
            if isinstance(n.ctx, ast.Load) and n.id in self.env:
                return ast.copy_location(copy.deepcopy(self.env[n.id]), n)
            return n

    class Unroll(ast.NodeTransformer):
        def __init__(self):
            self.cls_tables = [{}]
            self.fn = []

        def visit_ClassDef(self, n):
            tabs = {}
            cnt = {}
            for st in n.body:
                for x in own_nodes([st]):
                    if isinstance(x, ast.Name) and isinstance(x.ctx, ast.Store):
                        cnt[x.id] = cnt.get(x.id, 0) + 1
            for st in n.body:
                if isinstance(st, ast.Assign) and len(st.targets) == 1 and isinstance(st.targets[0], ast.Name) and \
                        cnt.get(st.targets[0].id) == 1 and st.targets[0].id not in attr_stores and table_of(st.value) is not None:
                    tabs[st.targets[0].id] = st.value
            self.cls_tables.append(tabs)
            self.generic_visit(n)
            self.cls_tables.pop()
            return n

        def _fn(self, n):
            self.fn.append(n)
            self.generic_visit(n)
            self.fn.pop()
            return n
        visit_FunctionDef = visit_AsyncFunctionDef = _fn

        def table(self, it, local):
            t = table_of(it)
            if t is not None:
                return t, False
            if isinstance(it, ast.Name) and it.id in mod_tables and it.id not in local:
                return mod_tables[it.id], True
            if isinstance(it, ast.Attribute) and isinstance(it.value, ast.Name) and it.value.id in ('self', 'cls') and \
                    it.attr in self.cls_tables[-1]:
                return self.cls_tables[-1][it.attr], True
            return None, False

        def visit_For(self, n):
            self.generic_visit(n)
            if not self.fn or n.orelse or loop_ctl(n.body) or len(n.body) > 6:
                return n
            fn = self.fn[-1]
            local = {a.arg for a in ast.walk(fn.args) if isinstance(a, ast.arg)}
            local |= {x.id for x in own_nodes(fn.body) if isinstance(x, ast.Name) and isinstance(x.ctx, ast.Store)}
            tab, remote = self.table(n.iter, local)
            if tab is None:
                return n
            tg = n.target
            if isinstance(tg, ast.Name):
                names = [tg.id]
            elif isinstance(tg, (ast.Tuple, ast.List)) and all(isinstance(x, ast.Name) for x in tg.elts):
                names = [x.id for x in tg.elts]
                if not all(isinstance(e, (ast.Tuple, ast.List)) and len(e.elts) == len(names) for e in tab.elts):
                    return n
            else:
                return n
            body_stores = {x.id for x in own_nodes(n.body) if isinstance(x, ast.Name) and isinstance(x.ctx, (ast.Store, ast.Del))}
            if body_stores & set(names):
                return n
            read = {x.id for e in tab.elts for x in ast.walk(e) if isinstance(x, ast.Name)}
            if read & body_stores or (remote and read & local):
                return n
            # nested definitions capture the loop variable late: leave those alone
            if any(isinstance(x, (ast.FunctionDef, ast.AsyncFunctionDef, ast.Lambda, ast.ClassDef)) for st in n.body for x in ast.walk(st)):
                return n
            in_loop = {id(x) for x in ast.walk(n)}
            used_outside = any(isinstance(x, ast.Name) and x.id in names and id(x) not in in_loop for x in own_nodes(fn.body))
            out = []
            for e in tab.elts:
                vals = [e] if isinstance(tg, ast.Name) else list(e.elts)
                env = dict(zip(names, vals))
                if used_outside:
                    for nm, v in env.items():
                        out.append(ast.copy_location(ast.Assign(
                            targets=[ast.copy_location(ast.Name(id=nm, ctx=ast.Store()), tg)], value=copy.deepcopy(v)), n))
                for st in n.body:
                    out.append(Subst(env).visit(copy.deepcopy(st)))
            for st in out:
                ast.fix_missing_locations(st)
            count[0] += 1
            return out

    class Attrs(ast.NodeTransformer):
        @staticmethod
        def ident(a):
            return isinstance(a, ast.Constant) and isinstance(a.value, str) and a.value.isidentifier() and \
                not a.value.startswith('__') and not keyword.iskeyword(a.value)

        def visit_Expr(self, n):
            self.generic_visit(n)
            c = n.value
            if isinstance(c, ast.Call) and isinstance(c.func, ast.Name) and c.func.id == 'setattr' and len(c.args) == 3 and \
                    not c.keywords and isinstance(c.args[0], ast.Name) and self.ident(c.args[1]) and 'setattr' not in stores:
                tgt = ast.copy_location(ast.Attribute(value=c.args[0], attr=c.args[1].value, ctx=ast.Store()), c)
                return ast.copy_location(ast.Assign(targets=[tgt], value=c.args[2]), n)
            return n

        def visit_Call(self, c):
            self.generic_visit(c)
            if isinstance(c.func, ast.Name) and c.func.id == 'getattr' and len(c.args) == 2 and not c.keywords and \
                    isinstance(c.args[0], ast.Name) and self.ident(c.args[1]) and 'getattr' not in stores:
                return ast.copy_location(ast.Attribute(value=c.args[0], attr=c.args[1].value, ctx=ast.Load()), c)
            return c
    Unroll().visit(tree)
    Attrs().visit(tree)
    ast.fix_missing_locations(tree)
    return count[0]


def split_parallel_assignments(tree):
    """Normalisation: `a, b = x, y` (tuple display on both sides, same length, no star) becomes `a = x; b = y` when that is
    the same thing: no later value reads a name an earlier target binds, and an attribute/subscript target is followed only
    by values without calls that do not mention the target's root object.  Swaps and dependent forms stay as they are."""
    count = [0]

    def names(e):
        return {x.id for x in ast.walk(e) if isinstance(x, ast.Name)}

    def root(e):
        while isinstance(e, (ast.Attribute, ast.Subscript)):
            e = e.value
        return e.id if isinstance(e, ast.Name) else None

    def splittable(tg, vv):
        for i, t in enumerate(tg.elts):
            later = vv.elts[i + 1:]
            if isinstance(t, ast.Name):
                if any(t.id in names(v) for v in later):
                    return False
            elif isinstance(t, (ast.Attribute, ast.Subscript)):
                r = root(t)
                if r is None:
                    return False
                for v in later:
                    if any(isinstance(x, (ast.Call, ast.Await, ast.Yield, ast.YieldFrom)) for x in ast.walk(v)):
                        return False
                    if ast.unparse(t) in ast.unparse(v):
                        return False
                if isinstance(t, ast.Subscript) and names(t.slice) & {x.id for tt in tg.elts[:i] for x in ast.walk(tt)
                                                                      if isinstance(x, ast.Name) and isinstance(x.ctx, ast.Store)}:
                    return False
            else:
                return False
        return True

    class T(ast.NodeTransformer):
        def visit_Assign(self, n):
            if len(n.targets) == 1 and isinstance(n.targets[0], ast.Tuple) and isinstance(n.value, ast.Tuple) and \
                    len(n.targets[0].elts) == len(n.value.elts) >= 2 and \
                    not any(isinstance(x, ast.Starred) for x in n.targets[0].elts + n.value.elts) and splittable(n.targets[0], n.value):
                count[0] += 1
                return [ast.copy_location(ast.Assign(targets=[t], value=v), n) for t, v in zip(n.targets[0].elts, n.value.elts)]
            return n
    T().visit(tree)
    ast.fix_missing_locations(tree)
    return count[0]


def splice_star_tuples(tree):
    """Normalisation: `f(*(a, b))` is `f(a, b)`; and a statement `return f(*t)` / `f(*t)` / `x = f(*t)` whose only starred
    argument is (a single-use local bound at the top level of the function to) `A if C else B` with A and B tuple displays is
    the statement `if C: ...f(*A) else: ...f(*B)` with the tuples spliced.  Returns the number of rewrites."""
    count = [0]

    def splice(call):
        new_args = []
        changed = False
        for a in call.args:
            if isinstance(a, ast.Starred) and isinstance(a.value, (ast.Tuple, ast.List)) and \
                    not any(isinstance(x, ast.Starred) for x in a.value.elts):
                new_args.extend(a.value.elts)
                changed = True
            else:
                new_args.append(a)
        if changed:
            call.args = new_args
            count[0] += 1
        return call

    def is_tuple_ifexp(e):
        return isinstance(e, ast.IfExp) and all(isinstance(x, (ast.Tuple, ast.List)) and
                                                 not any(isinstance(y, ast.Starred) for y in x.elts) for x in (e.body, e.orelse))

    def do_fn(fn):
        all_nodes = list(ast.walk(fn))
        singles = {}
        for st in fn.body:
            if isinstance(st, ast.Assign) and len(st.targets) == 1 and isinstance(st.targets[0], ast.Name) and is_tuple_ifexp(st.value):
                nm = st.targets[0].id
                n_store = sum(1 for x in all_nodes if isinstance(x, ast.Name) and x.id == nm and isinstance(x.ctx, (ast.Store, ast.Del)))
                loads = [x for x in all_nodes if isinstance(x, ast.Name) and x.id == nm and isinstance(x.ctx, ast.Load)]
                if n_store == 1 and len(loads) == 1:
                    singles[nm] = st
        new_body = []
        drop = set()
        for st in fn.body:
            call = None
            if isinstance(st, (ast.Return, ast.Expr)) and isinstance(st.value, ast.Call):
                call = st.value
            elif isinstance(st, ast.Assign) and isinstance(st.value, ast.Call):
                call = st.value
            if call is not None:
                stars = [a for a in call.args if isinstance(a, ast.Starred)]
                if len(stars) == 1 and not any(k.arg is None for k in call.keywords):
                    v = stars[0].value
                    src = None
                    if is_tuple_ifexp(v):
                        src = v
                    elif isinstance(v, ast.Name) and v.id in singles and singles[v.id].lineno < st.lineno:
                        src = singles[v.id].value
                        drop.add(v.id)
                    if src is not None:
                        def variant(tup):
                            st2 = copy.deepcopy(st)
                            c2 = st2.value
                            c2.args = [ast.Starred(value=copy.deepcopy(tup), ctx=ast.Load()) if isinstance(a, ast.Starred) else a
                                       for a in c2.args]
                            splice(c2)
                            return st2
                        node = ast.copy_location(ast.If(test=copy.deepcopy(src.test), body=[variant(src.body)],
                                                        orelse=[variant(src.orelse)]), st)
                        new_body.append(node)
                        count[0] += 1
                        continue
            new_body.append(st)
        if drop:
            new_body = [st for st in new_body if not (isinstance(st, ast.Assign) and len(st.targets) == 1 and
                                                      isinstance(st.targets[0], ast.Name) and st.targets[0].id in drop and
                                                      singles.get(st.targets[0].id) is st)]
        fn.body = new_body or fn.body
    for fn in [x for x in ast.walk(tree) if isinstance(x, (ast.FunctionDef, ast.AsyncFunctionDef))]:
        do_fn(fn)
    for c in [x for x in ast.walk(tree) if isinstance(x, ast.Call)]:
        splice(c)

    class Dunder(ast.NodeTransformer):
        # x.__getitem__(k) is x[k] (a bound special method handed around as a callable and then called)
        def visit_Call(self, c):
            self.generic_visit(c)
            if isinstance(c.func, ast.Attribute) and c.func.attr == '__getitem__' and len(c.args) == 1 and not c.keywords and \
                    not isinstance(c.args[0], ast.Starred) and not (isinstance(c.func.value, ast.Call) and
                                                                    ast.unparse(c.func.value.func) == 'super') and \
                    not (isinstance(c.func.value, ast.Name) and c.func.value.id in ('dict', 'list', 'tuple', 'str', 'object')):
                count[0] += 1
                return ast.copy_location(ast.Subscript(value=c.func.value, slice=c.args[0], ctx=ast.Load()), c)
            return c
    Dunder().visit(tree)

    class Disp(ast.NodeTransformer):
        # [*x] is list(x), (*x,) is tuple(x), {*x} is set(x)
        def _one(self, n, name):
            self.generic_visit(n)
            if isinstance(getattr(n, 'ctx', ast.Load()), ast.Load) and len(n.elts) == 1 and isinstance(n.elts[0], ast.Starred):
                count[0] += 1
                return ast.copy_location(ast.Call(func=ast.copy_location(ast.Name(id=name, ctx=ast.Load()), n),
                                                  args=[n.elts[0].value], keywords=[]), n)
            return n

        def visit_List(self, n):
            return self._one(n, 'list')

        def visit_Tuple(self, n):
            return self._one(n, 'tuple')

        def visit_Set(self, n):
            return self._one(n, 'set')
    Disp().visit(tree)
    ast.fix_missing_locations(tree)
    return count[0]


def hoist_walrus_and_split_call_ifexp(tree):
    """Normalisation of two statement forms: `if (x := E): ...` is `x = E` followed by `if x: ...`; an expression statement
    `f(A if C else B)` (single positional argument, f a plain name or dotted name) is `if C: f(A)` / `else: f(B)`."""
    count = [0]

    def dotted(e):
        while isinstance(e, ast.Attribute):
            e = e.value
        return isinstance(e, ast.Name)

    class T(ast.NodeTransformer):
        def visit_If(self, n):
            self.generic_visit(n)
            t = n.test
            if isinstance(t, ast.NamedExpr) and isinstance(t.target, ast.Name):
                count[0] += 1
                asg = ast.copy_location(ast.Assign(targets=[ast.copy_location(ast.Name(id=t.target.id, ctx=ast.Store()), t)],
                                                   value=t.value), n)
                n.test = ast.copy_location(ast.Name(id=t.target.id, ctx=ast.Load()), t)
                return [asg, n]
            return n

        def visit_Expr(self, n):
            self.generic_visit(n)
            c = n.value
            if isinstance(c, ast.Call) and len(c.args) == 1 and not c.keywords and isinstance(c.args[0], ast.IfExp) and dotted(c.func):
                count[0] += 1
                a = ast.copy_location(ast.Expr(value=ast.copy_location(
                    ast.Call(func=copy.deepcopy(c.func), args=[c.args[0].body], keywords=[]), c)), n)
                b = ast.copy_location(ast.Expr(value=ast.copy_location(
                    ast.Call(func=copy.deepcopy(c.func), args=[c.args[0].orelse], keywords=[]), c)), n)
                return ast.copy_location(ast.If(test=c.args[0].test, body=[a], orelse=[b]), n)
            return n
    T().visit(tree)
    ast.fix_missing_locations(tree)
    return count[0]


def expand_closing(tree):
    """Normalisation: `with closing(X): BODY` (contextlib.closing, no `as` or `as` a plain name) is
    `[name = X]; try: BODY finally: X.close()`."""
    imported = any(isinstance(n, ast.ImportFrom) and n.module == 'contextlib' and any(a.name == 'closing' and a.asname in (None, 'closing')
                                                                                      for a in n.names) for n in ast.walk(tree))
    if not imported:
        return 0
    count = [0]

    class T(ast.NodeTransformer):
        def visit_With(self, w):
            self.generic_visit(w)
            if len(w.items) == 1 and isinstance(w.items[0].context_expr, ast.Call) and \
                    isinstance(w.items[0].context_expr.func, ast.Name) and w.items[0].context_expr.func.id == 'closing' and \
                    len(w.items[0].context_expr.args) == 1 and isinstance(w.items[0].context_expr.args[0], (ast.Name, ast.Attribute)) and \
                    (w.items[0].optional_vars is None or isinstance(w.items[0].optional_vars, ast.Name)):
                x = w.items[0].context_expr.args[0]
                count[0] += 1
                pre = []
                if w.items[0].optional_vars is not None:
                    pre.append(ast.copy_location(ast.Assign(targets=[w.items[0].optional_vars], value=copy.deepcopy(x)), w))
                close = ast.copy_location(ast.Expr(value=ast.Call(func=ast.Attribute(value=copy.deepcopy(x), attr='close', ctx=ast.Load()),
                                                                  args=[], keywords=[])), w)
                t = ast.copy_location(ast.Try(body=w.body, handlers=[], orelse=[], finalbody=[close]), w)
                return pre + [t]
            return w
    T().visit(tree)
    ast.fix_missing_locations(tree)
    return count[0]


def split_conditional_returns(tree):
    """Normalisation: `return A if C else B` is the statement `if C: return A` / `else: return B` (nested conditional
    expressions likewise), so that the path rules see the condition as a test and each alternative as the value of its own
    return path.  Returns the number of statements rewritten."""
    count = [0]

    def split(ret):
        v = ret.value
        if isinstance(v, ast.IfExp):
            a = ast.copy_location(ast.Return(value=v.body), ret)
            b = ast.copy_location(ast.Return(value=v.orelse), ret)
            node = ast.copy_location(ast.If(test=v.test, body=split(a), orelse=split(b)), ret)
            return [node]
        return [ret]

    class T(ast.NodeTransformer):
        def visit_Return(self, n):
            if isinstance(n.value, ast.IfExp):
                count[0] += 1
                return split(n)
            return n
    T().visit(tree)
    ast.fix_missing_locations(tree)
    return count[0]


def _stmt_blocks(fn):
    """every statement list of fn (not of nested functions / classes), with, for each statement, the ids of all nodes of the
    statements that follow it in the same list"""
    out = []
    stack = [fn.body]
    while stack:
        blk = stack.pop()
        out.append(blk)
        for st in blk:
            if isinstance(st, (ast.FunctionDef, ast.AsyncFunctionDef, ast.ClassDef)):
                continue
            for field in ('body', 'orelse', 'finalbody'):
                sub = getattr(st, field, None)
                if isinstance(sub, list) and sub and isinstance(sub[0], ast.stmt):
                    stack.append(sub)
            if isinstance(st, ast.Try):
                for h in st.handlers:
                    stack.append(h.body)
            if isinstance(st, ast.Match) if hasattr(ast, 'Match') else False:
                for c in st.cases:
                    stack.append(c.body)
    return out


def inline_super_aliases(tree):
    """Normalisation: inside a method, a local bound exactly once by `NAME = super()` (zero-argument form, statement at the top
    level of the method body), never rebound, not used in nested functions, is replaced at its later loads by `super()` and the
    binding is dropped: `sup = super(); sup.__getitem__(k)` is analysed as `super().__getitem__(k)`.  Returns the number of
    aliases inlined."""
    total = 0
    for cls in [n for n in ast.walk(tree) if isinstance(n, ast.ClassDef)]:
        for fn in [m for m in cls.body if isinstance(m, (ast.FunctionDef, ast.AsyncFunctionDef))]:
            binds = [st for st in fn.body if isinstance(st, ast.Assign) and len(st.targets) == 1 and isinstance(st.targets[0], ast.Name)
                     and isinstance(st.value, ast.Call) and isinstance(st.value.func, ast.Name) and st.value.func.id == 'super'
                     and not st.value.args and not st.value.keywords]
            for st in binds:
                nm = st.targets[0].id
                stores = [x for x in ast.walk(fn) if isinstance(x, ast.Name) and x.id == nm and isinstance(x.ctx, (ast.Store, ast.Del))]
                if len(stores) != 1 or any(isinstance(x, (ast.Global, ast.Nonlocal)) and nm in x.names for x in ast.walk(fn)):
                    continue
                nested = [x for x in ast.walk(fn) if x is not fn and isinstance(x, (ast.FunctionDef, ast.AsyncFunctionDef, ast.Lambda,
                                                                                      ast.ClassDef))]
                if any(isinstance(y, ast.Name) and y.id == nm for x in nested for y in ast.walk(x)):
                    continue
                loads = [x for x in ast.walk(fn) if isinstance(x, ast.Name) and x.id == nm and isinstance(x.ctx, ast.Load)]
                if any((x.lineno, x.col_offset) < (st.end_lineno, st.end_col_offset) for x in loads):
                    continue

                class _R(ast.NodeTransformer):
                    def visit_Name(self, n):
                        if n.id == nm and isinstance(n.ctx, ast.Load):
                            return ast.copy_location(ast.Call(func=ast.copy_location(ast.Name(id='super', ctx=ast.Load()), n),
                                                              args=[], keywords=[]), n)
                        return n
                fn.body = [_R().visit(x) for x in fn.body if x is not st]
                ast.fix_missing_locations(fn)
                total += 1
    return total


def inline_bound_method_aliases(tree):
    """Normalisation: a local bound exactly once, by a statement at the top level of its function, to a bound method
    `r.m` / `r.x.m` of an object that is itself never rebound in the function (a parameter, `self`, or a local with a single
    earlier binding; for `r.x.m` no store to `.x` anywhere in the function), and used only as the callee of calls that come
    later in the same function (not in nested functions), is replaced at those calls by the attribute expression, and the
    binding is dropped.  `add = result.append ... add(c)` is analysed as `result.append(c)`: caching a bound method in a local
    (or undoing that) changes nothing for the rules.  Returns the number of aliases inlined."""
    total = [0]

    def own_nodes(fn):
        stack = list(fn.body)
        while stack:
            x = stack.pop()
            yield x
            if isinstance(x, (ast.FunctionDef, ast.AsyncFunctionDef, ast.Lambda, ast.ClassDef)):
                continue
            stack.extend(ast.iter_child_nodes(x))

    def chain(e):
        parts = []
        while isinstance(e, ast.Attribute):
            parts.append(e.attr)
            e = e.value
        if isinstance(e, ast.Name) and 1 <= len(parts) <= 3:
            return e.id, parts[::-1]
        return None, None

    def do_fn(fn):
        params = {a.arg for a in ast.walk(fn.args) if isinstance(a, ast.arg)}
        all_nodes = list(ast.walk(fn))
        stores = {}
        attr_stores = set()
        escapes = set()
        for x in all_nodes:
            if isinstance(x, ast.Name) and isinstance(x.ctx, (ast.Store, ast.Del)):
                stores.setdefault(x.id, []).append(x)
            elif isinstance(x, (ast.Global, ast.Nonlocal)):
                escapes |= set(x.names)
            elif isinstance(x, ast.Attribute) and isinstance(x.ctx, (ast.Store, ast.Del)):
                attr_stores.add(x.attr)
        own = {id(x) for x in own_nodes(fn)}
        nested_args = {a.arg for x in all_nodes if x is not fn and isinstance(x, (ast.FunctionDef, ast.AsyncFunctionDef, ast.Lambda))
                       for a in ast.walk(x.args) if isinstance(a, ast.arg)}
        cands = {}
        blocks = _stmt_blocks(fn)
        for blk, st in [(b, s_) for b in blocks for s_ in b]:
            if not (isinstance(st, ast.Assign) and len(st.targets) == 1):
                continue
            tg, vv = st.targets[0], st.value
            pairs = [(tg, vv)]
            if isinstance(tg, ast.Tuple) and isinstance(vv, ast.Tuple) and len(tg.elts) == len(vv.elts):
                pairs = list(zip(tg.elts, vv.elts))
            later = {id(x) for s2 in blk[blk.index(st) + 1:] for x in ast.walk(s2)}
            for a, e in pairs:
                if not isinstance(a, ast.Name):
                    continue
                root, parts = chain(e)
                if root is None or a.id in params or a.id in escapes or len(stores.get(a.id, [])) != 1:
                    continue
                if a.id in nested_args or root in nested_args:
                    continue
                if root in escapes:
                    continue
                rs = stores.get(root, [])
                if root in params or root in ('self', 'cls'):
                    if rs:
                        continue
                elif not (len(rs) == 1 and rs[0].lineno < st.lineno and id(rs[0]) in own):
                    continue
                if any(pt in attr_stores for pt in parts[:-1]):
                    continue
                uses = [x for x in all_nodes if isinstance(x, ast.Name) and x.id == a.id and isinstance(x.ctx, ast.Load)]
                callees = {id(c.func) for c in all_nodes if isinstance(c, ast.Call) and isinstance(c.func, ast.Name) and c.func.id == a.id}
                # uses inside nested functions are fine too (neither the alias nor its root is ever rebound), as long as
                # the nested function is defined after the alias
                if not uses or any(id(u) not in callees or id(u) not in later for u in uses):
                    continue
                cands[a.id] = (e, st)
        if not cands:
            return

        class Sub(ast.NodeTransformer):
            def visit_ClassDef(self, n):
                return n

            def visit_Call(self, c):
                self.generic_visit(c)
                if isinstance(c.func, ast.Name) and c.func.id in cands:
                    c.func = ast.copy_location(copy.deepcopy(cands[c.func.id][0]), c.func)
                    for x in ast.walk(c.func):
                        ast.copy_location(x, c)
                return c
        for blk in blocks:
            new_body = []
            for st in blk:
                if isinstance(st, ast.Assign) and any(st is v[1] for v in cands.values()):
                    tg, vv = st.targets[0], st.value
                    if isinstance(tg, ast.Name):
                        total[0] += 1
                        continue
                    keep = [(a, e) for a, e in zip(tg.elts, vv.elts)
                            if not (isinstance(a, ast.Name) and a.id in cands and cands[a.id][1] is st)]
                    total[0] += len(tg.elts) - len(keep)
                    if not keep:
                        continue
                    if len(keep) == 1:
                        st = ast.copy_location(ast.Assign(targets=[keep[0][0]], value=keep[0][1]), st)
                    else:
                        st = ast.copy_location(ast.Assign(
                            targets=[ast.copy_location(ast.Tuple(elts=[a for a, _ in keep], ctx=ast.Store()), tg)],
                            value=ast.copy_location(ast.Tuple(elts=[e for _, e in keep], ctx=ast.Load()), vv)), st)
                new_body.append(st)
            blk[:] = new_body or [ast.copy_location(ast.Pass(), fn)]
        Sub().visit(fn)
    for fn in [x for x in ast.walk(tree) if isinstance(x, (ast.FunctionDef, ast.AsyncFunctionDef))]:
        do_fn(fn)
    ast.fix_missing_locations(tree)
    return total[0]


_CONSTRUCTORS = {'__init__', '__new__'}


def inline_attribute_aliases(tree):
    """Normalisation: a local bound exactly once, by a statement at the top level of its function, to an attribute chain
    `r.a` / `r.a.b` whose attribute names are (module-wide) assigned only inside constructors, with `r` a parameter / self / a
    single-binding earlier local, and only read afterwards, is replaced by the chain at its reads and the binding is dropped:
    `data = self.data ... data[k] = v` is analysed as `self.data[k] = v`.  (An attribute that some method re-assigns is left
    alone: there the local may keep the old object alive.)  Not applied inside constructors.  Returns the number inlined."""
    stored_in = {}
    for fn in [x for x in ast.walk(tree) if isinstance(x, (ast.FunctionDef, ast.AsyncFunctionDef))]:
        for x in ast.walk(fn):
            if isinstance(x, ast.Attribute) and isinstance(x.ctx, (ast.Store, ast.Del)):
                stored_in.setdefault(x.attr, set()).add(fn.name)
            elif isinstance(x, ast.Call) and isinstance(x.func, ast.Name) and x.func.id in ('setattr', 'delattr') and len(x.args) >= 2:
                if isinstance(x.args[1], ast.Constant) and isinstance(x.args[1].value, str):
                    stored_in.setdefault(x.args[1].value, set()).add(fn.name)
                else:
                    stored_in.setdefault('*', set()).add(fn.name)
    for x in ast.walk(tree):
        # stores at module / class level (outside functions) count as "anywhere"
        pass
    dynamic = bool(stored_in.get('*', set()) - _CONSTRUCTORS)
    total = [0]

    def chain(e):
        parts = []
        while isinstance(e, ast.Attribute):
            parts.append(e.attr)
            e = e.value
        if isinstance(e, ast.Name) and 1 <= len(parts) <= 3:
            return e.id, parts[::-1]
        return None, None

    def do_fn(fn):
        if fn.name in _CONSTRUCTORS or dynamic:
            return
        params = {a.arg for a in ast.walk(fn.args) if isinstance(a, ast.arg)}
        all_nodes = list(ast.walk(fn))
        stores = {}
        escapes = set()
        for x in all_nodes:
            if isinstance(x, ast.Name) and isinstance(x.ctx, (ast.Store, ast.Del)):
                stores.setdefault(x.id, []).append(x)
            elif isinstance(x, (ast.Global, ast.Nonlocal)):
                escapes |= set(x.names)
        nested_args = {a.arg for x in all_nodes if x is not fn and isinstance(x, (ast.FunctionDef, ast.AsyncFunctionDef, ast.Lambda))
                       for a in ast.walk(x.args) if isinstance(a, ast.arg)}
        cands = {}
        blocks = _stmt_blocks(fn)
        for blk, st in [(b, s_) for b in blocks for s_ in b]:
            if not (isinstance(st, ast.Assign) and len(st.targets) == 1 and isinstance(st.targets[0], ast.Name)):
                continue
            a, e = st.targets[0], st.value
            later = {id(x) for s2 in blk[blk.index(st) + 1:] for x in ast.walk(s2)}
            root, parts = chain(e)
            if root is None or a.id in params or a.id in escapes or a.id in nested_args or root in nested_args or root in escapes:
                continue
            if len(stores.get(a.id, [])) != 1:
                continue
            rs = stores.get(root, [])
            if root in params or root in ('self', 'cls'):
                if rs:
                    continue
            else:
                continue            # only chains rooted at a parameter (self, other, ...)
            if any(stored_in.get(pt, set()) - _CONSTRUCTORS for pt in parts):
                continue
            uses = [x for x in all_nodes if isinstance(x, ast.Name) and x.id == a.id and isinstance(x.ctx, ast.Load)]
            if not uses or any(id(u) not in later for u in uses):
                continue
            cands[a.id] = (e, st)
        if not cands:
            return

        class Sub(ast.NodeTransformer):
            def visit_ClassDef(self, n):
                return n

            def visit_Name(self, n):
                if isinstance(n.ctx, ast.Load) and n.id in cands:
                    new = copy.deepcopy(cands[n.id][0])
                    for x in ast.walk(new):
                        ast.copy_location(x, n)
                    return new
                return n
        for blk in blocks:
            blk[:] = [st for st in blk if not any(st is v[1] for v in cands.values())] or [ast.copy_location(ast.Pass(), fn)]
        total[0] += len(cands)
        Sub().visit(fn)
    for fn in [x for x in ast.walk(tree) if isinstance(x, (ast.FunctionDef, ast.AsyncFunctionDef))]:
        do_fn(fn)
    ast.fix_missing_locations(tree)
    return total[0]


_KNOWN_SIGNATURES = {'heappush': ('heap', 'item'), 'heappop': ('heap',), 'heapify': ('x',), 'heapreplace': ('heap', 'item'),
                     'heappushpop': ('heap', 'item'), 'insort': ('a', 'x'), 'insort_right': ('a', 'x'), 'insort_left': ('a', 'x')}


def expand_method_wrappers(tree):
    """Normalisation: a class-level `name = staticmethod(f)` / `name = classmethod(f)` where f is a module-level function of the
    same module with plain positional parameters, or a stdlib function whose signature is in the small table above, is replaced
    by the method it denotes: `@staticmethod def name(<params>): return f(<params>)`.  A trivial wrapper method and a direct
    binding of the wrapped function are thereby the same thing for every rule.  Returns the number of bindings expanded."""
    funcs = {}
    for st in tree.body:
        if isinstance(st, ast.FunctionDef) and not st.args.vararg and not st.args.kwarg and not st.args.kwonlyargs and \
                not st.args.posonlyargs and not st.decorator_list:
            funcs[st.name] = ([a.arg for a in st.args.args], len(st.args.defaults))
    n = 0
    for cls in [x for x in ast.walk(tree) if isinstance(x, ast.ClassDef)]:
        for i, st in enumerate(list(cls.body)):
            if not (isinstance(st, ast.Assign) and len(st.targets) == 1 and isinstance(st.targets[0], ast.Name) and
                    isinstance(st.value, ast.Call) and isinstance(st.value.func, ast.Name) and
                    st.value.func.id in ('staticmethod', 'classmethod') and len(st.value.args) == 1 and not st.value.keywords and
                    isinstance(st.value.args[0], ast.Name)):
                continue
            f = st.value.args[0].id
            if f in funcs and funcs[f][1] == 0:
                params = list(funcs[f][0])
            elif f in _KNOWN_SIGNATURES and f not in funcs:
                params = list(_KNOWN_SIGNATURES[f])
            else:
                continue
            kind = st.value.func.id
            if kind == 'classmethod':
                if not params:
                    continue
                call_args = [ast.Name(id=a, ctx=ast.Load()) for a in params]
                params = ['cls'] + params[1:]
                call_args[0] = ast.Name(id='cls', ctx=ast.Load())
            else:
                call_args = [ast.Name(id=a, ctx=ast.Load()) for a in params]
            fn = ast.FunctionDef(
                name=st.targets[0].id,
                args=ast.arguments(posonlyargs=[], args=[ast.arg(arg=a) for a in params], vararg=None, kwonlyargs=[],
                                   kw_defaults=[], kwarg=None, defaults=[]),
                body=[ast.Return(value=ast.Call(func=ast.Name(id=f, ctx=ast.Load()), args=call_args, keywords=[]))],
                decorator_list=[ast.Name(id=kind, ctx=ast.Load())], returns=None, type_comment=None, type_params=[])
            ast.copy_location(fn, st)
            for x in ast.walk(fn):
                if not hasattr(x, 'lineno') and isinstance(x, (ast.expr, ast.stmt, ast.arg)):
                    ast.copy_location(x, st)
            ast.fix_missing_locations(fn)
            fn.end_lineno = getattr(st, 'end_lineno', st.lineno)
            cls.body[cls.body.index(st)] = fn
            n += 1
    return n


class Module:
    def __init__(self, name, path, relpath, source, view=None):
        self.name = name
        self.path = path
        self.relpath = relpath
        self.source = source
        self.tree = ast.parse(source, filename=path)
        self.view = view
        self.inlined_helper_calls = 0
        if view == 'helpers-inlined':
            from sa.inline import inline_private_helpers
            self.inlined_helper_calls = inline_private_helpers(self.tree, name)
        self.inlined_constants = inline_literal_constants(self.tree)
        self.unrolled_table_loops = unroll_table_loops(self.tree)
        self.expanded_method_wrappers = expand_method_wrappers(self.tree)
        self.split_parallel_assignments = split_parallel_assignments(self.tree)
        self.expanded_closing = expand_closing(self.tree)
        self.hoisted_walrus = hoist_walrus_and_split_call_ifexp(self.tree)
        self.inlined_super_aliases = inline_super_aliases(self.tree)
        self.inlined_method_aliases = inline_bound_method_aliases(self.tree)
        self.inlined_attribute_aliases = inline_attribute_aliases(self.tree)
        self.split_conditional_returns = split_conditional_returns(self.tree)
        self.spliced_star_tuples = splice_star_tuples(self.tree)
        self.classes = {}
        self.functions = {}
        self.assigns = {}         # name -> list of value exprs, in order
        self.aliases = {}         # name -> name
        self.imports = {}         # local name -> dotted origin
        self.unarmed = []         # (lineno, why) for branches analysed but not armed
        self.all_funcs = []       # every FuncInfo incl. methods, nested
        self._scan(self.tree.body, armed=True)

    def _scan(self, body, armed):
        for st in body:
            if isinstance(st, (ast.FunctionDef, ast.AsyncFunctionDef)):
                fi = FuncInfo(self, st)
                if armed:
                    self.functions[st.name] = fi
                self.all_funcs.append(fi)
                self._scan_nested(fi)
            elif isinstance(st, ast.ClassDef):
                ci = ClassInfo(self, st)
                if armed:
                    self.classes[st.name] = ci
                for m in list(ci.members.values()) + list(ci.setters.values()):
                    if isinstance(m, FuncInfo):
                        self.all_funcs.append(m)
                        self._scan_nested(m)
            elif isinstance(st, ast.Assign):
                if not armed:
                    continue
                for tgt in st.targets:
                    for nm in _target_names(tgt):
                        self.assigns.setdefault(nm, []).append(
                            (st.value, tgt, st))
                    if isinstance(tgt, ast.Name) and isinstance(st.value, ast.Name):
                        self.aliases[tgt.id] = st.value.id
                    if isinstance(tgt, ast.Subscript) and isinstance(tgt.value, ast.Name):
                        # TABLE[k] = v at module level: part of TABLE's definition
                        self.assigns.setdefault(tgt.value.id, []).append((st, tgt, st))
            elif isinstance(st, ast.AugAssign):
                if armed and isinstance(st.target, ast.Name):
                    self.assigns.setdefault(st.target.id, []).append(
                        (st, st.target, st))
            elif isinstance(st, ast.Import):
                for a in st.names:
                    self.imports[a.asname or a.name.split('.')[0]] = (
                        a.name if a.asname else a.name.split('.')[0])
            elif isinstance(st, ast.ImportFrom):
                for a in st.names:
                    self.imports[a.asname or a.name] = '%s%s.%s' % (
                        '.' * st.level, st.module or '', a.name)
            elif isinstance(st, ast.If):
                t = ast.unparse(st.test)
                if t in _PLATFORM_TRUE:
                    self._scan(st.body, armed)
                    self._scan(st.orelse, False)
                    if st.orelse:
                        self.unarmed.append((st.lineno, 'else of ' + t))
                elif t in _PLATFORM_FALSE:
                    self._scan(st.body, False)
                    self.unarmed.append((st.lineno, 'body of ' + t))
                    self._scan(st.orelse, armed)
                else:
                    self._scan(st.body, armed)
                    self._scan(st.orelse, armed)
            elif isinstance(st, ast.Try):
                # imports assumed to succeed on the platform the suite builds on
                self._scan(st.body, armed)
                self._scan(st.orelse, armed)
                for h in st.handlers:
                    self._scan(h.body, False)
                    self.unarmed.append((h.lineno, 'except handler at module level'))
                self._scan(st.finalbody, armed)
            elif isinstance(st, (ast.For, ast.While, ast.With)):
                if armed and isinstance(st, ast.For):
                    # a module-level loop that fills tables: record it under each table it stores into
                    for n in ast.walk(st):
                        if isinstance(n, ast.Assign):
                            for tgt in n.targets:
                                if isinstance(tgt, ast.Subscript) and isinstance(tgt.value, ast.Name):
                                    lst = self.assigns.setdefault(tgt.value.id, [])
                                    if not any(x[2] is st for x in lst):
                                        lst.append((st, None, st))
                    # names bound inside the loop body are not constants
                    continue
                self._scan(st.body, armed)

    def _scan_nested(self, fi):
        for st in ast.walk(fi.node):
            if st is fi.node:
                continue
            if isinstance(st, (ast.FunctionDef, ast.AsyncFunctionDef)):
                # only direct nesting level is recorded with parent=fi
                self.all_funcs.append(FuncInfo(self, st, parent=fi))

    def resolve_name(self, name):
        seen = set()
        while name in self.aliases and name not in seen \
                and name not in self.classes and name not in self.functions:
            seen.add(name)
            name = self.aliases[name]
        return name

    def const_expr(self, name):
        """Last armed top-level binding of name (value expr) or None."""
        lst = self.assigns.get(name)
        return lst[-1][0] if lst else None


class Program:
    def __init__(self, root=None, overlay=None, view=None):
        self.root = root or REPO
        self.overlay = overlay or {}
        self.view = view
        self.modules = {}
        h = hashlib.sha256()
        paths = sorted(glob.glob(os.path.join(self.root, PKG, '*.py')))
        if not paths:
            raise AnalysisError('no sources under %s/%s' % (self.root, PKG))
        for p in paths:
            rel = os.path.relpath(p, self.root)
            name = os.path.basename(p)[:-3]
            if rel in self.overlay:
                src = self.overlay[rel]
            else:
                with open(p, encoding='utf-8') as f:
                    src = f.read()
            h.update(rel.encode() + b'\0' + src.encode('utf-8') + b'\0')
            try:
                self.modules[name] = Module(name, p, rel, src, view=view)
            except SyntaxError as e:
                raise AnalysisError('cannot parse %s: %s' % (rel, e))
        self.digest = h.hexdigest()
        self._mro_cache = {}

    # -- lookup ---------------------------------------------------------
    def module(self, name):
        try:
            return self.modules[name]
        except KeyError:
            raise AnalysisError('anchor vanished: module %s' % name)

    def cls(self, fq):
        mod, name = fq.split('.', 1)
        m = self.module(mod)
        name = m.resolve_name(name)
        try:
            return m.classes[name]
        except KeyError:
            raise AnalysisError('anchor vanished: class %s' % fq)

    def func(self, fq):
        parts = fq.split('.')
        m = self.module(parts[0])
        if len(parts) == 2:
            name = m.resolve_name(parts[1])
            f = m.functions.get(name)
            if f is None:
                raise AnalysisError('anchor vanished: function %s' % fq)
            return f
        c = self.cls('.'.join(parts[:2]))
        f = self.resolve(c, parts[2])
        if not isinstance(f, FuncInfo):
            raise AnalysisError('anchor vanished: method %s' % fq)
        return f

    def try_func(self, fq):
        try:
            return self.func(fq)
        except AnalysisError:
            return None

    # -- hierarchy ------------------------------------------------------
    def bases(self, ci):
        out = []
        for b in ci.node.bases:
            out.append(self._resolve_base(ci.module, b))
        if not out:
            out.append(BuiltinClass('object'))
        return out

    def _resolve_base(self, module, b):
        if isinstance(b, ast.Name):
            nm = module.resolve_name(b.id)
            if nm in module.classes:
                return module.classes[nm]
            origin = module.imports.get(nm)
            if origin and origin.startswith('.'):
                modname, _, cname = origin.lstrip('.').rpartition('.')
                if modname in self.modules and cname in self.modules[modname].classes:
                    return self.modules[modname].classes[cname]
            return BuiltinClass(origin.split('.')[-1] if origin else nm)
        return BuiltinClass(ast.unparse(b))

    def mro(self, ci):
        if isinstance(ci, BuiltinClass):
            return [ci] + ([] if ci.name == 'object' else [BuiltinClass('object')])
        key = ci.fq
        if key in self._mro_cache:
            return self._mro_cache[key]
        seqs = [self.mro(b) for b in self.bases(ci)] + [list(self.bases(ci))]
        res = [ci]
        seqs = [list(s) for s in seqs]
        def ident(x):
            return x.qualname if isinstance(x, BuiltinClass) else x.fq
        while any(seqs):
            for s in seqs:
                if not s:
                    continue
                cand = s[0]
                if not any(ident(cand) in [ident(y) for y in t[1:]] for t in seqs):
                    break
            else:
                raise AnalysisError('inconsistent MRO for %s' % ci.fq)
            res.append(cand)
            for s in seqs:
                if s and ident(s[0]) == ident(cand):
                    del s[0]
        self._mro_cache[key] = res
        return res

    def is_subclass(self, ci, base_name):
        """base_name: 'dict' for builtins or 'module.Class'."""
        for c in self.mro(ci):
            if isinstance(c, BuiltinClass):
                if c.name == base_name:
                    return True
            elif c.fq == base_name or c.name == base_name:
                return True
        return False

    def resolve(self, ci, name, after=None):
        """The attribute `name` as seen on an instance of ci.

        after: a ClassInfo -- start looking after it in the MRO (super()).
        Returns FuncInfo | ('value', expr) | Builtin | None.
        """
        mro = self.mro(ci)
        if after is not None:
            idx = [i for i, c in enumerate(mro)
                   if not isinstance(c, BuiltinClass) and c.fq == after.fq]
            if not idx:
                raise AnalysisError('super() owner %s not in MRO of %s'
                                    % (after.fq, ci.fq))
            mro = mro[idx[0] + 1:]
        for c in mro:
            if isinstance(c, BuiltinClass):
                if c.has(name):
                    return Builtin(c.name, name)
                continue
            if name in c.deleted:
                # `del name` in a class body removes that class's own binding
                # only; lookup continues up the MRO
                continue
            m = c.own(name)
            if m is not None:
                return m
        return None

    def defining_class(self, ci, name, after=None):
        mro = self.mro(ci)
        for c in mro:
            if isinstance(c, BuiltinClass):
                if c.has(name):
                    return c
                continue
            if c.own(name) is not None and name not in c.deleted:
                return c
        return None

    def public_api(self, ci):
        """Names reachable on an instance: repo-defined + builtin base API."""
        names = {}
        for c in reversed(self.mro(ci)):
            if isinstance(c, BuiltinClass):
                for n in BUILTIN_BASES.get(c.name, ()):
                    names[n] = None
            else:
                for n in c.members:
                    names[n] = None
                for n in c.deleted:
                    pass
        return sorted(names)

    def all_functions(self):
        for m in self.modules.values():
            for f in m.all_funcs:
                yield f


def norm(node):
    """Whitespace-normalised source of a node (finding keys)."""
    if isinstance(node, str):
        return ' '.join(node.split())
    return ' '.join(ast.unparse(node).split())
