"""Path-sensitive walker over a function's control-flow structure.

Enumerates every control-flow path of a function (exception edges included,
loops unrolled 0..LOOP_UNROLL times) and records, per path, the linear
sequence of operations (`Op`) in evaluation order, with local aliases
resolved by copy propagation (trivial along a single path).  Callees can be
inlined (receiver-sensitive) on request of the rule's `Model`.

This is path enumeration over the CFG for typestate / pairing / ordering
rules.  No values are computed, no constraints are solved: a branch is pruned
only when its test is a constant under copy propagation or repeats a test
already taken on the same path with no intervening write.
"""
import ast
import copy

from .index import AnalysisError, FuncInfo, Builtin

LOOP_UNROLL = 2
MAX_PATHS = 20000
MAX_INLINE_DEPTH = 6

# ---------------------------------------------------------------------------
# exception lattice (builtin hierarchy + repository classes); child -> parents
EXC_PARENTS = {
    'BaseException': (),
    'Exception': ('BaseException',),
    'KeyboardInterrupt': ('BaseException',),
    'GeneratorExit': ('BaseException',),
    'SystemExit': ('BaseException',),
    'StopIteration': ('Exception',),
    'ArithmeticError': ('Exception',),
    'ZeroDivisionError': ('ArithmeticError',),
    'OverflowError': ('ArithmeticError',),
    'AssertionError': ('Exception',),
    'AttributeError': ('Exception',),
    'LookupError': ('Exception',),
    'KeyError': ('LookupError',),
    'IndexError': ('LookupError',),
    'ImportError': ('Exception',),
    'NameError': ('Exception',),
    'OSError': ('Exception',),
    'IOError': ('OSError',),
    'EnvironmentError': ('OSError',),
    'FileExistsError': ('OSError',),
    'FileNotFoundError': ('OSError',),
    'PermissionError': ('OSError',),
    'TimeoutError': ('OSError',),
    'ConnectionError': ('OSError',),
    'InterruptedError': ('OSError',),
    'BlockingIOError': ('OSError',),
    'ChildProcessError': ('OSError',),
    'IsADirectoryError': ('OSError',),
    'NotADirectoryError': ('OSError',),
    'ProcessLookupError': ('OSError',),
    'BrokenPipeError': ('ConnectionError',),
    'ConnectionAbortedError': ('ConnectionError',),
    'ConnectionRefusedError': ('ConnectionError',),
    'ConnectionResetError': ('ConnectionError',),
    'socket.timeout': ('TimeoutError',),
    'socket.error': ('OSError',),
    'RuntimeError': ('Exception',),
    'NotImplementedError': ('RuntimeError',),
    'RecursionError': ('RuntimeError',),
    'TypeError': ('Exception',),
    'ValueError': ('Exception',),
    'UnicodeError': ('ValueError',),
    'UnicodeDecodeError': ('UnicodeError',),
    'UnicodeEncodeError': ('UnicodeError',),
    'MemoryError': ('Exception',),
}


class ExcLattice:
    def __init__(self, program=None):
        self.parents = dict(EXC_PARENTS)
        if program is not None:
            for m in program.modules.values():
                for c in m.classes.values():
                    ps = []
                    for b in c.node.bases:
                        nm = ast.unparse(b)
                        nm = m.resolve_name(nm) if isinstance(b, ast.Name) else nm
                        ps.append(nm)
                    # only classes that (transitively) derive from an exception
                    self.parents.setdefault(c.name, tuple(ps))
        self.aliases = {'socket.timeout': 'TimeoutError', 'socket.error': 'OSError',
                        'IOError': 'OSError', 'EnvironmentError': 'OSError',
                        'select.error': 'OSError'}

    def canon(self, t):
        return self.aliases.get(t, t)

    def ancestors(self, t):
        t = self.canon(t)
        out, todo = set(), [t]
        while todo:
            x = self.canon(todo.pop())
            if x in out:
                continue
            out.add(x)
            todo.extend(self.parents.get(x, ()))
        return out

    def le(self, a, b):
        """a is b or a subclass of b."""
        return self.canon(b) in self.ancestors(a)


# ---------------------------------------------------------------------------
class Op:
    __slots__ = ('kind', 'node', 'val', 'info', 'fn', 'depth', 'loop', 'seq',
                 'recv', 'recv_val', 'fenv', 'facts')

    def __init__(self, kind, node, val=None, info=None, fn=None, depth=0, loop=0):
        self.kind = kind
        self.node = node
        self.val = val
        self.info = info
        self.fn = fn
        self.depth = depth
        self.loop = loop
        self.seq = -1
        self.recv = None        # receiver class of a resolved method call
        self.recv_val = None
        self.fenv = None        # field environment when the op executed
        self.facts = None

    @property
    def line(self):
        n = self.node
        if isinstance(n, ast.withitem):
            n = n.context_expr
        return getattr(n, 'lineno', 0)

    def text(self):
        try:
            s = ast.unparse(self.val if isinstance(self.val, ast.AST) else self.node)
        except Exception:
            s = type(self.node).__name__
        s = ' '.join(s.split())
        if len(s) > 90:
            s = s[:87] + '...'
        extra = ''
        if self.kind == 'test':
            extra = ' -> %s' % self.info
        elif self.kind in ('raise_at', 'except', 'iter_next'):
            extra = ' [%s]' % (self.info,)
        return '%s@%d %s%s' % (self.kind, self.line, s, extra)

    def __repr__(self):
        return '<Op %s>' % self.text()


class St:
    """Immutable-ish path state (persistent trace, copy-on-write envs)."""
    __slots__ = ('trace', 'n', 'env', 'fenv', 'facts', 'hexc', 'fn', 'depth',
                 'loop', 'recv')

    def __init__(self, trace=None, n=0, env=None, fenv=None, facts=None,
                 hexc=(), fn=None, depth=0, loop=0, recv=None):
        self.trace, self.n = trace, n
        self.env = env if env is not None else {}
        self.fenv = fenv if fenv is not None else {}
        self.facts = facts if facts is not None else {}
        self.hexc = hexc
        self.fn = fn
        self.depth = depth
        self.loop = loop
        self.recv = recv      # concrete receiver ClassInfo for `self` in this frame

    def clone(self, **kw):
        s = St(self.trace, self.n, self.env, self.fenv, self.facts, self.hexc,
               self.fn, self.depth, self.loop, self.recv)
        for k, v in kw.items():
            setattr(s, k, v)
        return s

    def push(self, op):
        op.fn = op.fn or self.fn
        op.depth = self.depth
        op.loop = self.loop
        op.fenv = self.fenv
        op.facts = self.facts
        return self.clone(trace=(op, self.trace), n=self.n + 1)

    def bind(self, name, val):
        env = dict(self.env)
        env[name] = val
        facts = self.facts
        if facts:
            facts = {k: v for k, v in facts.items() if name not in v[1]}
        return self.clone(env=env, facts=facts)

    def unbind(self, name):
        env = dict(self.env)
        env.pop(name, None)
        return self.clone(env=env)

    def fbind(self, path, val):
        fenv = dict(self.fenv)
        fenv[path] = val
        facts = self.facts
        if facts:
            facts = {k: v for k, v in facts.items() if path not in v[2]}
        return self.clone(fenv=fenv, facts=facts)

    def ops(self):
        out = []
        t = self.trace
        while t is not None:
            out.append(t[0])
            t = t[1]
        out.reverse()
        for i, o in enumerate(out):
            o.seq = i
        return out


class Path:
    def __init__(self, outcome, st, fn):
        self.outcome = outcome          # ('return', val) | ('raise', T) | ('cutoff',)
        self.ops = st.ops()
        self.fn = fn
        self.st = st

    @property
    def kind(self):
        return self.outcome[0]

    def describe(self, limit=40):
        lines = [o.text() for o in self.ops][-limit:]
        return lines + ['=> %s' % (self.outcome[:2] if self.outcome[0] != 'return' else 'return',)]


# ---------------------------------------------------------------------------
NO_RAISE_CALLS = {
    'len', 'isinstance', 'issubclass', 'callable', 'hasattr', 'id', 'type',
    'bool', 'min', 'max', 'abs', 'time.time', 'repr', 'str', 'print',
    'object', 'RLock', 'Lock', 'super', 'range', 'frozenset', 'set', 'dict',
    'list', 'tuple', 'bytearray', 'bytes', 'slice', 'reversed', 'sorted',
    'iter', 'enumerate', 'zip', 'map', 'filter', 'property', 'staticmethod',
    'classmethod', 'float', 'itertools.count', 'count', 'weakref.ref',
    'os.path.join', 'os.path.dirname', 'os.path.basename', 'os.path.abspath',
    'os.path.split', 'os.path.splitext', 'os.path.normpath',
    'os.path.lexists', 'os.path.exists', 'os.path.isfile', 'os.path.isdir',
    'os.path.expanduser', 'stat.S_IMODE', 'os.getpid', 'threading.RLock',
    'getattr3', 'memoryview', 'divmod', 'ord', 'chr', 'round', 'sum',
}
NO_RAISE_METHODS = {
    'append', 'extend', 'add', 'discard', 'clear', 'copy', 'keys', 'values',
    'items', 'get', 'setdefault', 'update', 'join', 'startswith', 'endswith',
    'lower', 'upper', 'strip', 'lstrip', 'rstrip', 'split', 'rsplit',
    'partition', 'rpartition', 'replace', 'format', 'find', 'rfind', 'count',
    'isdigit', 'insert', 'reverse', 'sort', 'acquire', 'release', 'lstrip',
    'splitlines', 'title', 'capitalize', 'isspace', 'isalpha', 'most_common',
    'appendleft', 'popleft_never', 'union', 'intersection', 'difference',
    'issubset', 'issuperset', 'isdisjoint', 'fileno_never',
}


DICT_RAISES = {'pop': ('KeyError',), '__delitem__': ('KeyError',),
               '__getitem__': ('KeyError',), 'popitem': ('KeyError',)}


class Model:
    """Per-rule configuration of the walker: what may raise, what to inline."""
    loop_unroll = LOOP_UNROLL
    max_paths = MAX_PATHS
    assert_may_fail = False
    unknown_call_exc = ('Exception',)

    def __init__(self, program):
        self.program = program
        self.lattice = ExcLattice(program)

    # -- may-raise model --------------------------------------------------
    def call_raises(self, walker, op, st):
        """Exception types the call `op` may raise (when not inlined)."""
        name = call_name(op.node)
        if name in NO_RAISE_CALLS:
            return ()
        if name == 'getattr' and len(op.node.args) == 3:
            return ()
        if isinstance(op.node.func, ast.Attribute) and \
                op.node.func.attr in NO_RAISE_METHODS:
            return ()
        callee = op.info
        if isinstance(callee, FuncInfo):
            return walker.escape_types(callee, op.recv)
        if isinstance(callee, Builtin) and callee.base == 'dict':
            return DICT_RAISES.get(callee.name, ())
        if isinstance(callee, tuple) and callee[0] == 'class':
            init = self.program.resolve(callee[1], '__init__')
            if isinstance(init, FuncInfo):
                return walker.escape_types(init, callee[1])
            return ()
        return self.unknown_call_exc

    def sub_raises(self, walker, op, st):
        """Exception types a subscript load/store/del may raise."""
        return ()

    def attr_raises(self, walker, op, st):
        return ()

    def iter_raises(self, walker, op, st):
        return ()

    # -- inlining ---------------------------------------------------------
    def inline(self, walker, call, callee, st):
        return False

    # -- feasibility ------------------------------------------------------
    def assume(self, walker, test_val, st):
        """Return True/False to force a branch outcome, None otherwise."""
        return None

    def unroll(self, stmt):
        """How many iterations of loop `stmt` to enumerate (0..n)."""
        return self.loop_unroll


def call_name(call):
    f = call.func
    try:
        return ast.unparse(f)
    except Exception:
        return ''


def is_name(node, name):
    return isinstance(node, ast.Name) and node.id == name


def contains_call(node):
    for n in ast.walk(node):
        if isinstance(n, (ast.Call, ast.Yield, ast.YieldFrom, ast.Await)):
            return True
    return False


def names_in(node):
    return {n.id for n in ast.walk(node) if isinstance(n, ast.Name)}


def attr_paths_in(node):
    out = set()
    for n in ast.walk(node):
        if isinstance(n, ast.Attribute):
            try:
                out.add(ast.unparse(n))
            except Exception:
                pass
    return out


def mk_name(s):
    return ast.Name(id=s, ctx=ast.Load())


class Walker:
    def __init__(self, program, model=None):
        self.program = program
        self.model = model or Model(program)
        self.lattice = self.model.lattice
        self.tokens = {}
        self._tok = 0
        self._npaths = 0
        self._escape_cache = {}
        self._escape_stack = []
        self.root_recv = None

    # ------------------------------------------------------------------
    def token(self, prefix, info):
        self._tok += 1
        t = '$%s%d' % (prefix, self._tok)
        self.tokens[t] = info
        return mk_name(t)

    def expand(self, val, depth=8, literals=False):
        """Replace call-result tokens in val by the call expressions (with literals=True also the tokens of
        list / set literals by the literal with its propagated elements)."""
        if depth == 0 or not isinstance(val, ast.AST):
            return val
        w = self

        class X(ast.NodeTransformer):
            def visit_Name(self, n):
                info = w.tokens.get(n.id)
                if info is not None and info[0] == 'call':
                    return w.expand(copy.deepcopy(info[1]), depth - 1, literals)
                if literals and info is not None and info[0] == 'new' and len(info) > 3 and isinstance(info[3].val, ast.Call):
                    return w.expand(copy.deepcopy(info[3].val), depth - 1, literals)
                if literals and info is not None and info[0] == 'fresh' and info[1] in ('list', 'set'):
                    elts = [w.expand(copy.deepcopy(x), depth - 1, literals) for x in info[3]]
                    if info[1] == 'list':
                        return ast.List(elts=elts, ctx=ast.Load())
                    return ast.Set(elts=elts) if elts else n
                return n
        return X().visit(copy.deepcopy(val))

    def text(self, val):
        if val is None:
            return 'None'
        return ' '.join(ast.unparse(self.expand(val)).split())

    # ------------------------------------------------------------------
    def paths(self, fn, recv=None, bind=None):
        """All paths of FuncInfo fn; recv = concrete receiver class."""
        self._npaths = 0
        env = {}
        for p in fn.params:
            env[p] = mk_name(p)
        if bind:
            env.update(bind)
        if recv is None:
            recv = fn.cls
        self.root_recv = recv if (fn.cls is not None and not fn.is_static()) else None
        self.root_is_classmethod = any(d == 'classmethod' for d in getattr(fn, 'decorators', ()))
        st = St(env=env, fn=fn, recv=recv)
        outs = self.run_body(fn.node.body, st)
        res = []
        for out, s in outs:
            if out[0] == 'next':
                out = ('return', ast.Constant(value=None))
            elif out[0] in ('break', 'continue'):
                raise AnalysisError('stray %s in %s' % (out[0], fn.fq))
            res.append(Path(out, s, fn))
        return res

    # ------------------------------------------------------------------
    def default_bind(self, callee, call_val):
        """Constant defaults of parameters the call does not supply (context for summaries)."""
        a = callee.node.args
        pos = [x.arg for x in a.posonlyargs + a.args]
        defaults = dict(zip(pos[len(pos) - len(a.defaults):], a.defaults))
        for x, d in zip(a.kwonlyargs, a.kw_defaults):
            if d is not None:
                defaults[x.arg] = d
        npos = len(call_val.args) + (1 if (callee.cls is not None and not callee.is_static()) else 0)
        supplied = set(pos[:npos]) | {k.arg for k in call_val.keywords if k.arg}
        if any(k.arg is None for k in call_val.keywords) or any(isinstance(x, ast.Starred) for x in call_val.args):
            return None
        out = {}
        for nm, d in defaults.items():
            if nm not in supplied and isinstance(d, ast.Constant):
                out[nm] = d
        return out or None

    def escape_types(self, callee, recv, bind=None):
        """Exception types that may escape a repository function."""
        if callee.cls is None or callee.is_static():
            recv = None
        elif recv is None:
            recv = callee.cls
        key = (callee.fq, recv.fq if recv is not None else None,
               tuple(sorted((k, repr(v.value)) for k, v in bind.items())) if bind else None)
        if key in self._escape_cache:
            return self._escape_cache[key]
        if key in self._escape_stack or len(self._escape_stack) > MAX_INLINE_DEPTH:
            return ('Exception',)
        self._escape_stack.append(key)
        try:
            w = Walker(self.program, self.model)
            w._escape_cache = self._escape_cache
            w._escape_stack = self._escape_stack
            try:
                ps = w.paths(callee, recv=recv, bind=bind)
            except AnalysisError:
                res = ('Exception',)
            else:
                res = tuple(sorted({p.outcome[1] for p in ps if p.kind == 'raise'}))
        finally:
            self._escape_stack.pop()
        self._escape_cache[key] = res
        return res

    # ------------------------------------------------------------------
    # expressions
    def subst_simple(self, e, st):
        """Copy-propagate locals/fields in a call-free expression."""
        w = self

        class S(ast.NodeTransformer):
            def visit_Name(self, n):
                if isinstance(n.ctx, ast.Load) and n.id in st.env:
                    v = st.env[n.id]
                    return copy.deepcopy(v) if v is not None else n
                return n

            def visit_Attribute(self, n):
                n2 = self.generic_visit(n)
                try:
                    p = ast.unparse(n2)
                except Exception:
                    return n2
                if p in st.fenv and isinstance(n.ctx, ast.Load):
                    return copy.deepcopy(st.fenv[p])
                return n2

            def visit_Lambda(self, n):
                return n

            def visit_ListComp(self, n):
                return n
            visit_SetComp = visit_DictComp = visit_GeneratorExp = visit_ListComp
        return S().visit(copy.deepcopy(e))

    def ev(self, e, st, exits):
        """Evaluate expression e: list of (st, val) normal completions."""
        if e is None:
            return [(st, None)]
        m = getattr(self, 'ev_' + type(e).__name__, None)
        if m is None:
            raise AnalysisError('expression kind %s not modelled (line %s)'
                                % (type(e).__name__, getattr(e, 'lineno', '?')))
        return m(e, st, exits)

    def ev_seq(self, exprs, st, exits):
        cur = [(st, [])]
        for e in exprs:
            nxt = []
            for s, vs in cur:
                for s2, v in self.ev(e, s, exits):
                    nxt.append((s2, vs + [v]))
            cur = nxt
        return cur

    def ev_Constant(self, e, st, exits):
        return [(st, e)]

    def ev_Name(self, e, st, exits):
        if e.id in st.env and st.env[e.id] is not None:
            return [(st, st.env[e.id])]
        return [(st, e)]

    def ev_Attribute(self, e, st, exits):
        out = []
        for s, v in self.ev(e.value, st, exits):
            val = ast.Attribute(value=v, attr=e.attr, ctx=ast.Load())
            p = ast.unparse(val)
            op = Op('attr_load', e, val=val)
            s = s.push(op)
            self._maybe_raise(self.model.attr_raises(self, op, s), op, s, exits)
            out.append((s, val))
        return out

    def ev_Subscript(self, e, st, exits):
        out = []
        for s, (v, sl) in self.ev_seq([e.value, e.slice], st, exits):
            val = ast.Subscript(value=v, slice=sl, ctx=ast.Load())
            op = Op('sub_load', e, val=val)
            s = s.push(op)
            self._maybe_raise(self.model.sub_raises(self, op, s), op, s, exits)
            out.append((s, val))
        return out

    def ev_Slice(self, e, st, exits):
        out = []
        for s, vs in self.ev_seq([e.lower, e.upper, e.step], st, exits):
            out.append((s, ast.Slice(lower=vs[0], upper=vs[1], step=vs[2])))
        return out

    def ev_Starred(self, e, st, exits):
        out = []
        for s, v in self.ev(e.value, st, exits):
            s = s.push(Op('star', e, val=v))
            out.append((s, ast.Starred(value=v, ctx=ast.Load())))
        return out

    def _container(self, e, st, exits, elts, build):
        out = []
        for s, vs in self.ev_seq(elts, st, exits):
            out.append((s, build(vs)))
        return out

    def ev_Tuple(self, e, st, exits):
        return self._container(e, st, exits, e.elts,
                               lambda vs: ast.Tuple(elts=vs, ctx=ast.Load()))

    def ev_List(self, e, st, exits):
        out = []
        for s, vs in self.ev_seq(e.elts, st, exits):
            tok = self.token('l', ('fresh', 'list', e, vs))
            out.append((s, tok))
        return out

    def ev_Set(self, e, st, exits):
        out = []
        for s, vs in self.ev_seq(e.elts, st, exits):
            out.append((s, self.token('l', ('fresh', 'set', e, vs))))
        return out

    def ev_Dict(self, e, st, exits):
        elts = []
        for k, v in zip(e.keys, e.values):
            if k is not None:
                elts.append(k)
            elts.append(v)
        out = []
        for s, vs in self.ev_seq(elts, st, exits):
            out.append((s, self.token('l', ('fresh', 'dict', e, vs))))
        return out

    def ev_JoinedStr(self, e, st, exits):
        vals = [v.value for v in e.values if isinstance(v, ast.FormattedValue)]
        out = []
        for s, vs in self.ev_seq(vals, st, exits):
            out.append((s, self.token('s', ('fresh', 'str', e, vs))))
        return out

    def ev_FormattedValue(self, e, st, exits):
        return self.ev(e.value, st, exits)

    def ev_UnaryOp(self, e, st, exits):
        return [(s, ast.UnaryOp(op=e.op, operand=v))
                for s, v in self.ev(e.operand, st, exits)]

    def ev_BinOp(self, e, st, exits):
        out = []
        for s, (l, r) in self.ev_seq([e.left, e.right], st, exits):
            val = ast.BinOp(left=l, op=e.op, right=r)
            s = s.push(Op('binop', e, val=val))
            out.append((s, val))
        return out

    def ev_Compare(self, e, st, exits):
        out = []
        for s, vs in self.ev_seq([e.left] + list(e.comparators), st, exits):
            val = ast.Compare(left=vs[0], ops=e.ops, comparators=vs[1:])
            op = Op('compare', e, val=val)
            s = s.push(op)
            out.append((s, val))
        return out

    def ev_BoolOp(self, e, st, exits):
        if not any(contains_call(v) for v in e.values[1:]):
            # no side effects behind the short-circuit: evaluate flat
            out = []
            for s, vs in self.ev_seq(e.values, st, exits):
                out.append((s, ast.BoolOp(op=e.op, values=vs)))
            return out
        is_or = isinstance(e.op, ast.Or)
        results = []
        cur = [(st, None)]
        for i, operand in enumerate(e.values):
            nxt = []
            last = (i == len(e.values) - 1)
            for s0, _ in cur:
                for s, v in self.ev(operand, s0, exits):
                    if last:
                        results.append((s, v))
                        continue
                    t = self.truth(v, s)
                    for outcome in (True, False):
                        if t is not None and t != outcome:
                            continue
                        s2 = s.push(Op('test', operand, val=v, info=outcome))
                        s2 = self.record_fact(v, outcome, s2)
                        if outcome == is_or:
                            results.append((s2, v))     # short-circuit
                        else:
                            nxt.append((s2, v))
            cur = nxt
        return results

    def ev_IfExp(self, e, st, exits):
        if not (contains_call(e.body) or contains_call(e.orelse)):
            out = []
            for s, vs in self.ev_seq([e.test, e.body, e.orelse], st, exits):
                t = self.truth(vs[0], s)
                if t is True:
                    out.append((s, vs[1]))
                elif t is False:
                    out.append((s, vs[2]))
                else:
                    out.append((s, ast.IfExp(test=vs[0], body=vs[1], orelse=vs[2])))
            return out
        out = []
        for outcome, s2 in self.cond(e.test, st, exits):
            out.extend(self.ev(e.body if outcome else e.orelse, s2, exits))
        return out

    def ev_Lambda(self, e, st, exits):
        return [(st.push(Op('lambda', e)), self.token('f', ('lambda', e)))]

    def ev_NamedExpr(self, e, st, exits):
        out = []
        for s, v in self.ev(e.value, st, exits):
            s = s.push(Op('name_store', e.target, val=v))
            out.append((s.bind(e.target.id, v), v))
        return out

    def ev_Yield(self, e, st, exits):
        out = []
        for s, v in self.ev(e.value, st, exits):
            s = s.push(Op('yield', e, val=v))
            out.append((s, self.token('y', ('sent', e))))
        return out

    def ev_YieldFrom(self, e, st, exits):
        out = []
        for s, v in self.ev(e.value, st, exits):
            s = s.push(Op('yield_from', e, val=v))
            out.append((s, self.token('y', ('sent', e))))
        return out

    def ev_Await(self, e, st, exits):
        return self.ev(e.value, st, exits)

    def _ev_comp(self, e, st, exits):
        gens = e.generators
        out = []
        for s, itv in self.ev(gens[0].iter, st, exits):
            op = Op('iter_start', gens[0].iter, val=itv, info=('comp', e))
            s = s.push(op)
            self._maybe_raise(self.model.iter_raises(self, op, s), op, s, exits)
            # inner operations: evaluated in a scratch environment, marked loop
            inner = s.clone(loop=s.loop + 1)
            elem = self.token('e', ('elem', itv, e))
            inner = self.store(gens[0].target, elem, inner, exits)
            parts = []
            for g in gens:
                if g is not gens[0]:
                    parts.append(g.iter)
                parts.extend(g.ifs)
            if isinstance(e, ast.DictComp):
                parts.extend([e.key, e.value])
            else:
                parts.append(e.elt)
            states = [inner]
            for g in gens[1:]:
                # bind inner targets opaquely
                nxt = []
                for x in states:
                    nxt.append(self.store(g.target, self.token('e', ('elem', None, e)), x, exits))
                states = nxt
            res_states = []
            for x in states:
                for s3, vs in self.ev_seq(parts, x, exits):
                    res_states.append((s3, vs))
            for s3, vs in res_states:
                kind = {'ListComp': 'list', 'SetComp': 'set', 'DictComp': 'dict',
                        'GeneratorExp': 'gen'}[type(e).__name__]
                tok = self.token('l', ('comp', kind, e, itv, vs))
                s4 = s3.clone(loop=st.loop, env=s.env)
                s4 = s4.push(Op('comp', e, val=tok, info=(itv, vs)))
                out.append((s4, tok))
        return out

    ev_ListComp = ev_SetComp = ev_DictComp = ev_GeneratorExp = _ev_comp

    def ev_Call(self, e, st, exits):
        # evaluate callee expression (receiver), then arguments, left to right
        f = e.func
        out = []
        if isinstance(f, ast.Attribute):
            recvs = self.ev(f.value, st, exits)
            heads = [(s, ast.Attribute(value=v, attr=f.attr, ctx=ast.Load()))
                     for s, v in recvs]
        else:
            heads = self.ev(f, st, exits)
        argexprs = list(e.args) + [k.value for k in e.keywords]
        for s, fv in heads:
            for s2, vs in self.ev_seq(argexprs, s, exits):
                args = vs[:len(e.args)]
                kws = [ast.keyword(arg=k.arg, value=v)
                       for k, v in zip(e.keywords, vs[len(e.args):])]
                val = ast.Call(func=fv, args=args, keywords=kws)
                callee, recv_cls, recv_val = self.resolve_call(e, val, s2)
                if callee is None:
                    cc = self.ctor_class(val, s2)
                    if cc is not None:
                        callee, recv_cls = ('class', cc), cc
                op = Op('call', e, val=val, info=callee)
                op.recv, op.recv_val = recv_cls, recv_val
                s3 = s2.push(op)
                if isinstance(callee, tuple) and callee[0] == 'class':
                    new = self.token('new', ('new', callee[1], val, op))
                    init = self.program.resolve(callee[1], '__init__')
                    op.recv_val = new
                    if isinstance(init, FuncInfo) and s3.depth < MAX_INLINE_DEPTH \
                            and self.model.inline(self, op, init, s3):
                        for s4, _ in self.inline_call(op, init, callee[1], new, s3, exits):
                            out.append((s4, new))
                        continue
                    self._maybe_raise(self.model.call_raises(self, op, s3), op, s3, exits)
                    out.append((s3, new))
                    continue
                if isinstance(callee, FuncInfo) and s3.depth < MAX_INLINE_DEPTH \
                        and self.model.inline(self, op, callee, s3):
                    out.extend(self.inline_call(op, callee, recv_cls, recv_val, s3, exits))
                    continue
                self._maybe_raise(self.model.call_raises(self, op, s3), op, s3, exits)
                if not self._pure_call(val):
                    # an opaque call may change any field: forget facts about attribute paths,
                    # and facts about the (mutable) locals it was given
                    s3 = self.invalidate_field_facts(s3)
                    if s3.facts:
                        touched = names_in(e) | names_in(val)
                        facts = {k: v2 for k, v2 in s3.facts.items() if not (v2[1] & touched)}
                        if len(facts) != len(s3.facts):
                            s3 = s3.clone(facts=facts)
                if call_name(val) == 'super':
                    tok = self.token('c', ('call', val, op, s3.recv, s3.env.get('self', mk_name('self'))))
                else:
                    tok = self.token('c', ('call', val, op))
                out.append((s3, tok))
        return out

    # ------------------------------------------------------------------
    def _maybe_raise(self, types, op, st, exits):
        for t in types or ():
            exits.append((('raise', t), st.push(Op('raise_at', op.node, val=op.val, info=t))))
            self._count()

    def _count(self):
        self._npaths += 1
        if self._npaths > self.model.max_paths * 4:
            raise AnalysisError('path budget exceeded')

    # ------------------------------------------------------------------
    def class_of(self, v, st):
        """-> (ClassInfo, after_owner) for a receiver value, or (None, None)."""
        if isinstance(v, ast.Name):
            if v.id == 'self' and self.root_recv is not None:
                return self.root_recv, None
            if v.id == 'cls' and self.root_recv is not None and getattr(self, 'root_is_classmethod', False):
                return self.root_recv, None          # cls.<method>(...) inside a classmethod of the analysed class
            info = self.tokens.get(v.id)
            if info:
                if info[0] == 'new':
                    return info[1], None
                if info[0] == 'call' and call_name(info[1]) == 'super':
                    fn = info[2].fn
                    if fn is not None and fn.cls is not None:
                        # receiver object of the frame in which super() ran
                        rv = info[3] if len(info) > 3 else None
                        return rv, fn.cls
        return None, None

    def resolve_call(self, call, val, st):
        """-> (callee, receiver class, receiver value)."""
        f = val.func
        prog = self.program
        fn = st.fn
        mod = fn.module if fn is not None else None
        if isinstance(f, ast.Attribute):
            base = f.value
            ci, after = self.class_of(base, st)
            if f.attr == '__class__':
                return None, None, base
            if ci is not None:
                rv = base
                if after is not None:
                    info = self.tokens.get(base.id)
                    rv = info[4] if len(info) > 4 else mk_name('self')
                return prog.resolve(ci, f.attr, after=after), ci, rv
            # self.__class__(...) / type(self)(...) handled below via Name path
            if f.attr == '__class__':
                return None, None, base
            if isinstance(base, ast.Name) and mod is not None:
                nm = mod.resolve_name(base.id)
                if nm in mod.classes and base.id not in st.env:
                    ci = mod.classes[nm]
                    recv_val = val.args[0] if val.args else None
                    rci, _ = self.class_of(recv_val, st) if recv_val is not None else (None, None)
                    return prog.resolve(ci, f.attr), (rci or ci), recv_val
                if nm in ('dict', 'list', 'object') and base.id not in st.env:
                    return Builtin(nm, f.attr), None, (val.args[0] if val.args else None)
            # X.__class__(...) : constructor of X's class
            return None, None, base
        if isinstance(f, ast.Attribute) is False and isinstance(f, ast.Name) and mod is not None:
            if f.id.startswith('$d'):
                info = self.tokens.get(f.id)
                if info and info[0] == 'def':
                    return info[1], None, None
            if f.id in st.env or f.id.startswith('$'):
                return None, None, None
            nm = mod.resolve_name(f.id)
            if nm in mod.functions:
                return mod.functions[nm], None, None
            if nm in mod.classes:
                return ('class', mod.classes[nm]), mod.classes[nm], None
            origin = mod.imports.get(nm)
            if origin and origin.startswith('.'):
                modname, _, oname = origin.lstrip('.').rpartition('.')
                om = prog.modules.get(modname)
                if om is not None:
                    oname = om.resolve_name(oname)
                    if oname in om.functions:
                        return om.functions[oname], None, None
                    if oname in om.classes:
                        return ('class', om.classes[oname]), om.classes[oname], None
        return None, None, None

    def ctor_class(self, val, st):
        """Class constructed by a call value, when it is a constructor call."""
        f = val.func
        if isinstance(f, ast.Attribute) and f.attr == '__class__':
            ci, _ = self.class_of(f.value, st)
            return ci
        if isinstance(f, ast.Name) and f.id.startswith('$c'):
            info = self.tokens.get(f.id)
            if info and info[0] == 'call' and call_name(info[1]) == 'type' \
                    and len(info[1].args) == 1:
                ci, _ = self.class_of(info[1].args[0], st)
                return ci
        if isinstance(f, ast.Name) and f.id == 'cls' and st.fn is not None and \
                st.fn.is_classmethod() and st.recv is not None:
            return st.recv
        return None

    def _resolve_on(self, ci, name, after):
        m = self.program.resolve(ci, name, after=after)
        return m

    # ------------------------------------------------------------------
    def inline_call(self, op, callee, recv_cls, recv_val, st, exits):
        """Splice callee's paths into the current path."""
        node = callee.node
        val = op.val
        env = {}
        params = node.args
        pos = [a.arg for a in params.posonlyargs + params.args]
        args = list(val.args)
        if callee.cls is not None and not callee.is_static():
            if recv_val is not None and not (
                    isinstance(val.func, ast.Attribute) and
                    isinstance(val.func.value, ast.Name) and
                    st.fn is not None and st.fn.module.resolve_name(val.func.value.id)
                    in st.fn.module.classes):
                args = [recv_val] + args
        if any(isinstance(a, ast.Starred) for a in args) or \
                any(k.arg is None for k in val.keywords):
            raise AnalysisError('cannot bind star-args when inlining %s' % callee.fq)
        defaults = [None] * (len(pos) - len(params.defaults)) + list(params.defaults)
        for i, p in enumerate(pos):
            if i < len(args):
                env[p] = args[i]
            else:
                env[p] = defaults[i]
        if len(args) > len(pos):
            if params.vararg is None:
                raise AnalysisError('too many args inlining %s' % callee.fq)
            env[params.vararg.arg] = ast.Tuple(elts=args[len(pos):], ctx=ast.Load())
        elif params.vararg is not None:
            env[params.vararg.arg] = ast.Tuple(elts=[], ctx=ast.Load())
        kwonly = {a.arg: d for a, d in zip(params.kwonlyargs, params.kw_defaults)}
        for k, d in kwonly.items():
            env[k] = d
        extra = []
        for k in val.keywords:
            if k.arg in pos or k.arg in kwonly:
                env[k.arg] = k.value
            elif params.kwarg is not None:
                extra.append(k)
            else:
                raise AnalysisError('unexpected keyword %s inlining %s' % (k.arg, callee.fq))
        if params.kwarg is not None:
            env[params.kwarg.arg] = self.token('k', ('kwargs', extra))
        for p, v in list(env.items()):
            if v is None:
                env[p] = self.token('u', ('unbound-param', p))
        s = st.push(Op('inline_enter', op.node, val=val, info=callee))
        caller_env, caller_fn, caller_recv, caller_hexc = st.env, st.fn, st.recv, st.hexc
        new_recv = recv_cls if callee.cls is not None else None
        s = s.clone(env=env, fn=callee, recv=new_recv, depth=st.depth + 1, hexc=())
        outs = self.run_body(node.body, s)
        res = []
        for out, s2 in outs:
            s2 = s2.clone(env=caller_env, fn=caller_fn, recv=caller_recv,
                          depth=st.depth, hexc=caller_hexc)
            if out[0] == 'next':
                s2 = s2.push(Op('inline_exit', op.node, info=callee))
                res.append((s2, ast.Constant(value=None)))
            elif out[0] == 'return':
                s2 = s2.push(Op('inline_exit', op.node, info=callee))
                res.append((s2, out[1] if out[1] is not None else ast.Constant(value=None)))
            elif out[0] == 'raise':
                s2 = s2.push(Op('inline_exit', op.node, info=callee))
                exits.append((out, s2))
            elif out[0] == 'cutoff':
                exits.append((out, s2))
            else:
                raise AnalysisError('stray %s in %s' % (out[0], callee.fq))
        return res

    # ------------------------------------------------------------------
    # truth / feasibility
    def truth(self, v, st):
        forced = self.model.assume(self, v, st)
        if forced is not None:
            return forced
        if isinstance(v, ast.Constant):
            return bool(v.value)
        if isinstance(v, ast.Name):
            if v.id in ('True',):
                return True
            info = self.tokens.get(v.id)
            if info is not None and info[0] in ('new', 'lambda', 'def', 'bound'):
                return True
            if info is not None and info[0] == 'call' and call_name(info[1]) == 'callable' \
                    and len(info[1].args) == 1 and isinstance(info[1].args[0], ast.Name):
                # callable(getattr(obj, 'name', default)) on an object of known class
                inner = self.tokens.get(info[1].args[0].id)
                if inner and inner[0] == 'call' and call_name(inner[1]) == 'getattr' \
                        and len(inner[1].args) >= 2 and isinstance(inner[1].args[1], ast.Constant):
                    ci, _ = self.class_of(inner[1].args[0], st)
                    if ci is not None:
                        m = self.program.resolve(ci, inner[1].args[1].value)
                        if isinstance(m, (FuncInfo, Builtin)):
                            return True
        if isinstance(v, ast.UnaryOp) and isinstance(v.op, ast.Not):
            t = self.truth(v.operand, st)
            return None if t is None else (not t)
        if isinstance(v, ast.Compare) and len(v.ops) == 1 and \
                isinstance(v.ops[0], (ast.Is, ast.IsNot)):
            l, r = v.left, v.comparators[0]
            res = None
            if isinstance(l, ast.Constant) and isinstance(r, ast.Constant):
                res = (l.value is r.value) if not isinstance(l.value, (int, str)) \
                    else (l.value == r.value and type(l.value) is type(r.value))
            elif isinstance(r, ast.Constant) and r.value is None and isinstance(l, ast.Name) \
                    and self.tokens.get(l.id, ('',))[0] in ('new', 'fresh', 'lambda', 'def', 'comp'):
                res = False
            if res is not None:
                return res if isinstance(v.ops[0], ast.Is) else (not res)
        if isinstance(v, (ast.Tuple,)):
            return bool(v.elts)
        try:
            key = ast.unparse(v)
        except Exception:
            return None
        f = st.facts.get(key)
        if f is not None:
            return f[0]
        if isinstance(v, ast.UnaryOp) and isinstance(v.op, ast.Not):
            pass
        # negated form recorded?
        f = st.facts.get('not ' + key)
        if f is not None:
            return not f[0]
        return None

    def record_fact(self, v, outcome, st):
        if v is None or contains_call(v):
            return st
        for n in ast.walk(v):
            if isinstance(n, ast.Name) and n.id.startswith('$'):
                # tokens are path-unique values: facts about them are stable
                continue
        try:
            key = ast.unparse(v)
        except Exception:
            return st
        if isinstance(v, ast.UnaryOp) and isinstance(v.op, ast.Not):
            try:
                key = ast.unparse(v.operand)
            except Exception:
                return st
            outcome = not outcome
            v = v.operand
        facts = dict(st.facts)
        facts[key] = (outcome, frozenset(names_in(v)), frozenset(attr_paths_in(v)))
        return st.clone(facts=facts)

    def branch(self, test_node, tv, st):
        """Fork on the truth of tv: list of (outcome, st)."""
        t = self.truth(tv, st)
        out = []
        for outcome in (True, False):
            if t is not None and t != outcome:
                continue
            s = st.push(Op('test', test_node, val=tv, info=outcome))
            s = self.record_fact(tv, outcome, s)
            out.append((outcome, s))
            self._count()
        return out

    PURE_METHODS = {'get', 'keys', 'values', 'items', 'startswith', 'endswith', 'lower', 'upper', 'strip', 'lstrip',
                    'rstrip', 'split', 'rsplit', 'partition', 'rpartition', 'replace', 'format', 'find', 'rfind', 'count',
                    'isdigit', 'join', 'encode', 'decode', 'copy', 'index', 'tell', 'fileno', 'match', 'search',
                    'groupdict', 'group', 'splitlines', '__contains__', '__len__', '__getitem__'}

    def _pure_call(self, val):
        name = call_name(val)
        if name in NO_RAISE_CALLS or name in ('getattr', 'next', 'hash', 'repr', 'int', 'float', 'super'):
            return name != 'next'
        if isinstance(val.func, ast.Attribute) and val.func.attr in self.PURE_METHODS:
            return True
        return False

    def cond(self, e, st, exits):
        """Evaluate e in test position: list of (truth, st). and/or/not are decomposed with
        short-circuit, so every recorded `test` op is an atomic condition."""
        if isinstance(e, ast.BoolOp):
            is_and = isinstance(e.op, ast.And)
            results = []
            cur = [st]
            for operand in e.values:
                nxt = []
                for s in cur:
                    for o, s2 in self.cond(operand, s, exits):
                        if o == is_and:
                            nxt.append(s2)          # keep evaluating
                        else:
                            results.append((o, s2))  # short-circuit
                cur = nxt
            results.extend((is_and, s) for s in cur)
            return results
        if isinstance(e, ast.UnaryOp) and isinstance(e.op, ast.Not):
            return [(not o, s) for o, s in self.cond(e.operand, st, exits)]
        out = []
        for s, tv in self.ev(e, st, exits):
            out.extend(self.branch(e, tv, s))
        return out

    def invalidate_field_facts(self, st):
        if not st.facts:
            return st
        facts = {k: v for k, v in st.facts.items() if not v[2]}
        if len(facts) == len(st.facts):
            return st
        return st.clone(facts=facts)

    # ------------------------------------------------------------------
    # stores
    def store(self, tgt, val, st, exits):
        if isinstance(tgt, ast.Name):
            st = st.push(Op('name_store', tgt, val=val))
            return st.bind(tgt.id, val)
        if isinstance(tgt, ast.Attribute):
            res = self.ev(tgt.value, st, exits)
            if len(res) != 1:
                raise AnalysisError('forking store target at line %d' % tgt.lineno)
            s, bv = res[0]
            tv = ast.Attribute(value=bv, attr=tgt.attr, ctx=ast.Store())
            op = Op('attr_store', tgt, val=tv, info=val)
            s = s.push(op)
            p = ast.unparse(tv)
            # locals bound to the *path* p denote its value at binding time: give the
            # old value a name of its own before the path is re-pointed
            stale = [nm for nm, v in s.env.items() if v is not None and self._mentions(v, p)]
            if stale:
                old = self.token('o', ('old', p, op))
                env = dict(s.env)
                for nm in stale:
                    env[nm] = self._replace_path(env[nm], p, old)
                s = s.clone(env=env)
            if val is not None:
                s = s.fbind(p, val)
            return s
        if isinstance(tgt, ast.Subscript):
            res = self.ev_seq([tgt.value, tgt.slice], st, exits)
            if len(res) != 1:
                raise AnalysisError('forking store target at line %d' % tgt.lineno)
            s, (bv, sl) = res[0]
            tv = ast.Subscript(value=bv, slice=sl, ctx=ast.Store())
            op = Op('sub_store', tgt, val=tv, info=val)
            s = s.push(op)
            s = self.invalidate_field_facts(s)
            self._maybe_raise(self.model.sub_raises(self, op, s), op, s, exits)
            return s
        if isinstance(tgt, (ast.Tuple, ast.List)):
            if isinstance(val, ast.Tuple) and len(val.elts) == len(tgt.elts) and \
                    not any(isinstance(x, ast.Starred) for x in tgt.elts):
                for t, v in zip(tgt.elts, val.elts):
                    st = self.store(t, v, st, exits)
                return st
            st = st.push(Op('unpack', tgt, val=val))
            for i, t in enumerate(tgt.elts):
                if isinstance(t, ast.Starred):
                    st = self.store(t.value, self.token('e', ('rest', val, i)), st, exits)
                else:
                    ev = ast.Subscript(value=val if val is not None else mk_name('$none'),
                                       slice=ast.Constant(value=i), ctx=ast.Load())
                    st = self.store(t, ev, st, exits)
            return st
        if isinstance(tgt, ast.Starred):
            return self.store(tgt.value, val, st, exits)
        raise AnalysisError('store target %s not modelled' % type(tgt).__name__)

    @staticmethod
    def _mentions(v, path):
        for n in ast.walk(v):
            if isinstance(n, ast.Attribute):
                try:
                    if ast.unparse(n) == path:
                        return True
                except Exception:
                    pass
        return False

    @staticmethod
    def _replace_path(v, path, tok):
        class R(ast.NodeTransformer):
            def visit_Attribute(self, n):
                try:
                    if ast.unparse(n) == path:
                        return copy.deepcopy(tok)
                except Exception:
                    pass
                return self.generic_visit(n)
        return R().visit(copy.deepcopy(v))

    # ------------------------------------------------------------------
    # statements
    def run_body(self, stmts, st):
        """-> list of (outcome, st); outcome[0] in next/return/raise/break/continue/cutoff."""
        cur = [st]
        done = []
        for stmt in stmts:
            nxt = []
            for s in cur:
                for out, s2 in self.ex(stmt, s):
                    if out[0] == 'next':
                        nxt.append(s2)
                    else:
                        done.append((out, s2))
            cur = nxt
            if not cur:
                break
            if len(cur) + len(done) > self.model.max_paths:
                raise AnalysisError('more than %d paths in %s' % (
                    self.model.max_paths, st.fn.fq if st.fn else '?'))
        return done + [(('next',), s) for s in cur]

    def ex(self, stmt, st):
        m = getattr(self, 'ex_' + type(stmt).__name__, None)
        if m is None:
            raise AnalysisError('statement kind %s not modelled (line %s)'
                                % (type(stmt).__name__, getattr(stmt, 'lineno', '?')))
        return m(stmt, st)

    def _wrap(self, normal, exits):
        return [(('next',), s) for s in normal] + exits

    def ex_Expr(self, stmt, st):
        exits = []
        normal = [s for s, _ in self.ev(stmt.value, st, exits)]
        return self._wrap(normal, exits)

    def ex_Pass(self, stmt, st):
        return [(('next',), st)]

    ex_Global = ex_Nonlocal = ex_Import = ex_ImportFrom = ex_Pass

    def ex_Assign(self, stmt, st):
        exits = []
        normal = []
        for s, v in self.ev(stmt.value, st, exits):
            for tgt in stmt.targets:
                s = self.store(tgt, v, s, exits)
            normal.append(s)
        return self._wrap(normal, exits)

    def ex_AnnAssign(self, stmt, st):
        if stmt.value is None:
            return [(('next',), st)]
        exits = []
        normal = []
        for s, v in self.ev(stmt.value, st, exits):
            normal.append(self.store(stmt.target, v, s, exits))
        return self._wrap(normal, exits)

    def ex_AugAssign(self, stmt, st):
        exits = []
        normal = []
        tgt = stmt.target
        load = copy.copy(tgt)
        load.ctx = ast.Load()
        for s, (tv, v) in self.ev_seq([load, stmt.value], st, exits):
            val = ast.BinOp(left=tv, op=stmt.op, right=v)
            s = s.push(Op('aug', stmt, val=val, info=(tv, v)))
            s = self.store(tgt, val, s, exits)
            normal.append(s)
        return self._wrap(normal, exits)

    def ex_Delete(self, stmt, st):
        exits = []
        cur = [st]
        for tgt in stmt.targets:
            nxt = []
            for s in cur:
                if isinstance(tgt, ast.Name):
                    nxt.append(s.push(Op('del_name', tgt)).unbind(tgt.id))
                elif isinstance(tgt, ast.Attribute):
                    for s2, bv in self.ev(tgt.value, s, exits):
                        tv = ast.Attribute(value=bv, attr=tgt.attr, ctx=ast.Del())
                        nxt.append(s2.push(Op('attr_del', tgt, val=tv)))
                elif isinstance(tgt, ast.Subscript):
                    for s2, (bv, sl) in self.ev_seq([tgt.value, tgt.slice], s, exits):
                        tv = ast.Subscript(value=bv, slice=sl, ctx=ast.Del())
                        op = Op('sub_del', tgt, val=tv)
                        s3 = s2.push(op)
                        self._maybe_raise(self.model.sub_raises(self, op, s3), op, s3, exits)
                        nxt.append(s3)
                else:
                    raise AnalysisError('del target not modelled')
            cur = nxt
        return self._wrap(cur, exits)

    def ex_Return(self, stmt, st):
        exits = []
        out = []
        for s, v in self.ev(stmt.value, st, exits):
            s = s.push(Op('return', stmt, val=v))
            out.append((('return', v), s))
            self._count()
        return out + exits

    def ex_Raise(self, stmt, st):
        exits = []
        out = []
        if stmt.exc is None:
            t = st.hexc[-1] if st.hexc else 'Exception'
            s = st.push(Op('raise', stmt, info=t))
            return [(('raise', t), s)]
        exc = stmt.exc
        # evaluate constructor args but do not treat the constructor as raising
        target = exc.func if isinstance(exc, ast.Call) else exc
        tname = None
        if isinstance(target, (ast.Name, ast.Attribute)):
            tname = ast.unparse(target)
            if isinstance(target, ast.Name) and target.id in st.env:
                bound = st.env[target.id]
                info = self.tokens.get(getattr(bound, 'id', ''), None)
                if info and info[0] == 'exc':
                    tname = info[1]
                else:
                    tname = 'Exception'
        if tname is None:
            tname = 'Exception'
        args = (list(exc.args) + [k.value for k in exc.keywords]) if isinstance(exc, ast.Call) else []
        for s, vs in self.ev_seq(args + ([stmt.cause] if stmt.cause else []), st, exits):
            s = s.push(Op('raise', stmt, info=tname))
            out.append((('raise', tname), s))
            self._count()
        return out + exits

    def ex_Assert(self, stmt, st):
        exits = []
        normal = []
        if self.model.assert_may_fail:
            for outcome, s2 in self.cond(stmt.test, st, exits):
                if outcome:
                    normal.append(s2)
                else:
                    exits.append((('raise', 'AssertionError'), s2))
        else:
            for s, v in self.ev(stmt.test, st, exits):
                normal.append(self.record_fact(v, True, s))
        return self._wrap(normal, exits)

    def ex_If(self, stmt, st):
        exits = []
        out = []
        for outcome, s2 in self.cond(stmt.test, st, exits):
            out.extend(self.run_body(stmt.body if outcome else stmt.orelse, s2)
                       if (stmt.body if outcome else stmt.orelse) else [(('next',), s2)])
        return out + exits

    def ex_While(self, stmt, st):
        results = []
        always = isinstance(stmt.test, ast.Constant) and bool(stmt.test.value)
        cur = [st]
        unroll = self.model.unroll(stmt)
        for it in range(unroll + 1):
            nxt = []
            for s in cur:
                exits = []
                for outcome, s2 in ([(True, s)] if always else self.cond(stmt.test, s, exits)):
                    if True:
                        if not outcome:
                            if stmt.orelse:
                                results.extend(self.run_body(stmt.orelse, s2))
                            else:
                                results.append((('next',), s2))
                            continue
                        if it == unroll:
                            results.append((('cutoff',), s2))
                            continue
                        s2 = s2.push(Op('loop_iter', stmt, info=it)).clone(loop=st.loop + 1)
                        for out, s3 in self.run_body(stmt.body, s2):
                            s3 = s3.clone(loop=st.loop)
                            if out[0] in ('next', 'continue'):
                                nxt.append(s3)
                            elif out[0] == 'break':
                                results.append((('next',), s3))
                            else:
                                results.append((out, s3))
                results.extend(exits)
            cur = nxt
            if not cur:
                break
        return results

    def ex_For(self, stmt, st):
        results = []
        exits0 = []
        starts = []
        for s, itv in self.ev(stmt.iter, st, exits0):
            op = Op('iter_start', stmt.iter, val=itv, info=('for', stmt))
            s = s.push(op)
            self._maybe_raise(self.model.iter_raises(self, op, s), op, s, exits0)
            starts.append((s, itv))
        results.extend(exits0)
        # iteration over a literal tuple/list: the elements are known, unroll exactly
        exact = []
        rest = []
        for s, itv in starts:
            elts = None
            if isinstance(itv, ast.Tuple):
                elts = itv.elts
            elif isinstance(itv, ast.Name):
                info = self.tokens.get(itv.id)
                if info and info[0] == 'fresh' and info[1] == 'list':
                    elts = info[3]
            if elts is not None and len(elts) <= 4 and not any(isinstance(x, ast.Starred) for x in elts):
                exact.append((s, itv, elts))
            else:
                rest.append((s, itv))
        for s, itv, elts in exact:
            cur_states = [s]
            for elem in elts:
                nxt_states = []
                for s1 in cur_states:
                    s2 = s1.push(Op('iter_next', stmt, val=itv, info=True))
                    exits = []
                    s2 = self.store(stmt.target, elem, s2, exits)
                    results.extend(exits)
                    s2 = s2.clone(loop=st.loop + 1)
                    for out, s3 in self.run_body(stmt.body, s2):
                        s3 = s3.clone(loop=st.loop)
                        if out[0] in ('next', 'continue'):
                            nxt_states.append(s3)
                        elif out[0] == 'break':
                            results.append((('next',), s3))
                        else:
                            results.append((out, s3))
                cur_states = nxt_states
            for s1 in cur_states:
                s_done = s1.push(Op('iter_next', stmt, val=itv, info=False))
                if stmt.orelse:
                    results.extend(self.run_body(stmt.orelse, s_done))
                else:
                    results.append((('next',), s_done))
        starts = rest
        cur = starts
        unroll = self.model.unroll(stmt)
        for it in range(unroll + 1):
            nxt = []
            for s, itv in cur:
                # exhausted
                s_done = s.push(Op('iter_next', stmt, val=itv, info=False))
                if stmt.orelse:
                    results.extend(self.run_body(stmt.orelse, s_done))
                else:
                    results.append((('next',), s_done))
                if it == unroll:
                    results.append((('cutoff',), s))
                    continue
                s2 = s.push(Op('iter_next', stmt, val=itv, info=True))
                exits = []
                elem = self.token('e', ('elem', itv, stmt))
                s2 = self.store(stmt.target, elem, s2, exits)
                results.extend(exits)
                s2 = s2.clone(loop=st.loop + 1)
                for out, s3 in self.run_body(stmt.body, s2):
                    s3 = s3.clone(loop=st.loop)
                    if out[0] in ('next', 'continue'):
                        nxt.append((s3, itv))
                    elif out[0] == 'break':
                        results.append((('next',), s3))
                    else:
                        results.append((out, s3))
            cur = nxt
            if not cur:
                break
        return results

    ex_AsyncFor = ex_For

    def ex_Break(self, stmt, st):
        return [(('break',), st)]

    def ex_Continue(self, stmt, st):
        return [(('continue',), st)]

    def ex_With(self, stmt, st):
        return self._with_items(stmt, list(stmt.items), st)

    ex_AsyncWith = ex_With

    def _with_items(self, stmt, items, st):
        if not items:
            return self.run_body(stmt.body, st)
        item = items[0]
        exits = []
        results = []
        for s, cv in self.ev(item.context_expr, st, exits):
            op = Op('with_enter', item, val=cv)
            s = s.push(op)
            if item.optional_vars is not None:
                tok = self.token('w', ('with', cv, item))
                s = self.store(item.optional_vars, tok, s, exits)
            for out, s2 in self._with_items(stmt, items[1:], s):
                s2 = s2.push(Op('with_exit', item, val=cv, info=out[0]))
                results.append((out, s2))
        return results + exits

    def ex_Try(self, stmt, st):
        results = []
        after_handlers = []      # (outcome, st) to be passed through finally
        for out, s in self.run_body(stmt.body, st):
            if out[0] == 'next':
                if stmt.orelse:
                    after_handlers.extend(self.run_body(stmt.orelse, s))
                else:
                    after_handlers.append((out, s))
            elif out[0] == 'raise' and stmt.handlers:
                after_handlers.extend(self._dispatch(stmt, out, s))
            else:
                after_handlers.append((out, s))
        if not stmt.finalbody:
            return after_handlers
        for out, s in after_handlers:
            if out[0] == 'cutoff':
                results.append((out, s))
                continue
            s = s.push(Op('finally', stmt, info=out[0]))
            for fout, s2 in self.run_body(stmt.finalbody, s):
                if fout[0] == 'next':
                    results.append((out, s2))
                else:
                    results.append((fout, s2))
        return results

    ex_TryStar = None

    def _dispatch(self, stmt, out, s):
        """Route a raised exception type through the except clauses."""
        t = out[1]
        lat = self.lattice
        res = []
        remaining = True
        for h in stmt.handlers:
            if h.type is None:
                hts = ['BaseException']
            elif isinstance(h.type, ast.Tuple):
                hts = [ast.unparse(x) for x in h.type.elts]
            else:
                hts = [ast.unparse(h.type)]
            definite = any(lat.le(t, ht) for ht in hts)
            possible = [ht for ht in hts if lat.le(ht, t) and not lat.le(t, ht)]
            if definite:
                res.extend(self._handler(h, t, s))
                remaining = False
                break
            for ht in possible:
                res.extend(self._handler(h, ht, s))
        if remaining:
            res.append((out, s))
        return res

    def _handler(self, h, t, s):
        s = s.push(Op('except', h, info=t))
        if h.name:
            tok = self.token('x', ('exc', t, h))
            s = s.bind(h.name, tok)
        s = s.clone(hexc=s.hexc + (t,))
        outs = []
        for out, s2 in self.run_body(h.body, s):
            s2 = s2.clone(hexc=s2.hexc[:-1] if s2.hexc else ())
            outs.append((out, s2))
        return outs

    def ex_FunctionDef(self, stmt, st):
        fi = None
        for f in st.fn.module.all_funcs if st.fn else ():
            if f.node is stmt:
                fi = f
                break
        if fi is None:
            fi = FuncInfo(st.fn.module, stmt, parent=st.fn)
        tok = self.token('d', ('def', fi))
        s = st.push(Op('def', stmt, info=fi))
        return [(('next',), s.bind(stmt.name, tok))]

    ex_AsyncFunctionDef = ex_FunctionDef

    def ex_ClassDef(self, stmt, st):
        return [(('next',), st.push(Op('classdef', stmt)))]
