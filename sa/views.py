"""Two views of the same program.

View 1 ("source") is the parsed working tree with the exact normalisations of sa/index.py.  View 2 ("helpers-inlined") is
the same tree after sa/inline.py replaced every statement-level call of a simple private helper by the helper's body: an
equivalent program in which statements that a refactoring moved into new private helpers are back in place.

A property is decided on view 1.  Only if view 1 does not discharge everything (a failed obligation, a rule that lost its
subject, or an analysis error) the rules are asked again on view 2; the property holds if *either* equivalent program
discharges every obligation.  A violation is reported only when both views fail, and then view 1's report is the one shown
(its locations are the source's own).  On the unchanged tree view 2 is never consulted.
"""
import importlib

from sa.index import Program, AnalysisError
from sa.report import Ctx


def _clean(ctx):
    return not ctx.failures() and not ctx.deficits


def evaluate(prop, tier='quick', seed=0, root=None, overlay=None, quiet=False, mod=None):
    """-> (ctx, error, view): ctx of the deciding view (None if that view could not be analysed), the AnalysisError / Exception
    of view 1 when neither view decides, and the name of the view."""
    mod = mod or importlib.import_module('props.' + prop)
    err1 = None
    ctx1 = None
    try:
        ctx1 = Ctx(prop, Program(root=root, overlay=overlay), tier=tier, seed=seed, quiet=quiet)
        mod.run(ctx1)
        if _clean(ctx1):
            return ctx1, None, 'source'
    except AnalysisError as e:
        err1 = e
    except Exception as e:          # internal error of a rule on an unforeseen shape: still try the second view
        err1 = e
    try:
        ctx2 = Ctx(prop, Program(root=root, overlay=overlay, view='helpers-inlined'), tier=tier, seed=seed, quiet=quiet)
        if any(m.inlined_helper_calls for m in ctx2.program.modules.values()):
            mod.run(ctx2)
            if _clean(ctx2):
                ctx2.notes.append('decided on the helpers-inlined view (sa/inline.py): view 1 did not discharge everything')
                return ctx2, None, 'helpers-inlined'
    except Exception:
        pass
    return ctx1 if err1 is None else None, err1, 'source'
