"""Folding of module-level constant expressions without importing the module.

Values: int, str, bytes, frozenset (of chars or of symbolic flag names),
tuple/list (as tuple), dict, None, bool.  `os.O_*` flags fold to symbolic
flag sets (`Flags`).  Anything outside the fragment raises Unknown.
"""
import ast
import string
import zlib


class Unknown(Exception):
    pass


class Flags(frozenset):
    """Symbolic bit-flag set, e.g. Flags({'O_RDWR', 'O_CREAT'})."""
    def __or__(self, other):
        if not isinstance(other, Flags):
            raise Unknown('flags | non-flags')
        return Flags(frozenset.__or__(self, other))

    def __repr__(self):
        return 'Flags(%s)' % '|'.join(sorted(self))


STDLIB = {
    'string.hexdigits': string.hexdigits,
    'string.ascii_letters': string.ascii_letters,
    'string.ascii_lowercase': string.ascii_lowercase,
    'string.ascii_uppercase': string.ascii_uppercase,
    'string.digits': string.digits,
    'string.printable': string.printable,
    'string.punctuation': string.punctuation,
    'string.whitespace': string.whitespace,
    'zlib.MAX_WBITS': zlib.MAX_WBITS,
    'True': True, 'False': False, 'None': None,
}


PURE_STR_METHODS = {'encode', 'decode', 'lower', 'upper', 'split', 'rsplit', 'strip', 'lstrip', 'rstrip', 'isspace', 'isdigit',
                    'isalpha', 'isalnum', 'startswith', 'endswith', 'find', 'rfind', 'count', 'replace', 'partition',
                    'rpartition', 'splitlines', 'title', 'capitalize', 'index', 'rindex'}


PLATFORM_ABSENT_FLAGS = {'O_NOINHERIT', 'O_BINARY', 'O_TEMPORARY', 'O_SHORT_LIVED', 'O_SEQUENTIAL', 'O_RANDOM', 'O_TEXT'}


class Folder:
    def __init__(self, module, platform_has=('O_NOFOLLOW',)):
        self.module = module
        self.cache = {}
        self.stack = []

    def name(self, nm, upto=None):
        """Value of module-level name nm after all armed top-level bindings
        (or only those textually before line `upto`)."""
        key = (nm, upto)
        if key in self.cache:
            return self.cache[key]
        if key in self.stack:
            raise Unknown('cyclic constant %s' % nm)
        self.stack.append(key)
        try:
            binds = self.module.assigns.get(nm)
            if not binds:
                origin = self.module.imports.get(nm)
                if origin and origin in STDLIB:
                    return STDLIB[origin]
                raise Unknown('no top-level binding for %s' % nm)
            val = None
            have = False
            for value, tgt, stmt in binds:
                if upto is not None and stmt.lineno >= upto:
                    break
                if isinstance(value, ast.For):
                    if not have or not isinstance(val, dict):
                        raise Unknown('module-level loop fills %s before it is a dict' % nm)
                    val = dict(val)
                    self._run_fill_loop(value, nm, val, upto=stmt.lineno)
                    continue
                if isinstance(value, ast.Assign):
                    if not have or not isinstance(val, dict):
                        raise Unknown('item assignment to %s before it is a dict' % nm)
                    val = dict(val)
                    v = self.fold(value.value, upto=stmt.lineno)
                    for t in value.targets:
                        if isinstance(t, ast.Subscript) and isinstance(t.value, ast.Name) and t.value.id == nm:
                            val[self.fold(t.slice, upto=stmt.lineno)] = v
                    continue
                if isinstance(value, ast.AugAssign):
                    if not have:
                        raise Unknown('augmented assignment before binding of %s' % nm)
                    rhs = self.fold(value.value, upto=stmt.lineno)
                    val = self.binop(val, value.op, rhs)
                else:
                    if not isinstance(tgt, ast.Name):
                        # tuple target: PREV, NEXT, KEY, VALUE = range(4)
                        whole = self.fold(value, upto=stmt.lineno)
                        names = [e.id for e in tgt.elts if isinstance(e, ast.Name)]
                        if nm not in names or len(whole) != len(tgt.elts):
                            raise Unknown('tuple binding of %s' % nm)
                        val = whole[names.index(nm)]
                    else:
                        val = self.fold(value, upto=stmt.lineno)
                    have = True
            if not have:
                raise Unknown('no binding of %s before line %s' % (nm, upto))
            self.cache[key] = val
            return val
        finally:
            self.stack.pop()

    def _run_fill_loop(self, loop, nm, table, upto, env=None):
        """Interpret `for x in <const iterable>: TABLE[k] = ... = v` (constant table construction)."""
        it = self.fold(loop.iter, upto=upto, env=env)
        for item in it:
            env2 = dict(env or {})
            self.bind(loop.target, item, env2)
            for st in loop.body:
                if isinstance(st, ast.Assign):
                    v = self.fold(st.value, upto=upto, env=env2)
                    for t in st.targets:
                        if isinstance(t, ast.Subscript) and isinstance(t.value, ast.Name):
                            if t.value.id == nm:
                                table[self.fold(t.slice, upto=upto, env=env2)] = v
                        elif isinstance(t, ast.Name):
                            env2[t.id] = v
                        else:
                            raise Unknown('statement in table-filling loop not modelled')
                elif isinstance(st, ast.For):
                    self._run_fill_loop(st, nm, table, upto, env=env2)
                elif isinstance(st, (ast.Pass,)):
                    pass
                else:
                    raise Unknown('statement kind %s in table-filling loop' % type(st).__name__)

    def binop(self, l, op, r):
        try:
            if isinstance(op, ast.BitOr):
                return l | r
            if isinstance(op, ast.BitAnd):
                return l & r
            if isinstance(op, ast.Sub):
                return l - r
            if isinstance(op, ast.Add):
                return l + r
            if isinstance(op, ast.Mult):
                return l * r
            if isinstance(op, ast.Mod) and isinstance(l, (str, bytes)):
                return l % r
            if isinstance(op, ast.Mod):
                return l % r
            if isinstance(op, ast.BitXor):
                return l ^ r
        except Unknown:
            raise
        except Exception as e:
            raise Unknown('cannot fold binary op: %s' % e)
        raise Unknown('operator %s' % type(op).__name__)

    def fold(self, e, upto=None, env=None):
        if isinstance(e, ast.Constant):
            return e.value
        if isinstance(e, ast.Name):
            if env and e.id in env:
                return env[e.id]
            if e.id in STDLIB:
                return STDLIB[e.id]
            return self.name(e.id, upto)
        if isinstance(e, ast.Attribute):
            txt = ast.unparse(e)
            if txt in STDLIB:
                return STDLIB[txt]
            if isinstance(e.value, ast.Name):
                origin = self.module.imports.get(e.value.id, e.value.id)
                if origin == 'os' and e.attr.startswith('O_'):
                    return Flags({e.attr})
                full = '%s.%s' % (origin, e.attr)
                if full in STDLIB:
                    return STDLIB[full]
            raise Unknown('attribute %s' % txt)
        if isinstance(e, ast.BinOp):
            return self.binop(self.fold(e.left, upto, env), e.op, self.fold(e.right, upto, env))
        if isinstance(e, (ast.Tuple, ast.List)):
            return tuple(self.fold(x, upto, env) for x in e.elts)
        if isinstance(e, ast.Set):
            return frozenset(self.fold(x, upto, env) for x in e.elts)
        if isinstance(e, ast.Dict):
            return {self.fold(k, upto, env): self.fold(v, upto, env) for k, v in zip(e.keys, e.values)}
        if isinstance(e, ast.JoinedStr):
            out = ''
            for v in e.values:
                if isinstance(v, ast.Constant):
                    out += v.value
                else:
                    raise Unknown('f-string with holes')
            return out
        if isinstance(e, ast.Call) and isinstance(e.func, ast.Name) and e.func.id == 'getattr' and len(e.args) == 3 and \
                isinstance(e.args[0], ast.Name) and self.module.imports.get(e.args[0].id, e.args[0].id) == 'os' and \
                isinstance(e.args[1], ast.Constant) and isinstance(e.args[1].value, str) and e.args[1].value.startswith('O_'):
            # getattr(os, 'O_X', default): the platform model of sa/index.py (POSIX: O_NOFOLLOW present, O_NOINHERIT / O_BINARY absent)
            flag = e.args[1].value
            if flag in PLATFORM_ABSENT_FLAGS:
                d = self.fold(e.args[2], upto, env)
                return Flags() if d == 0 else d
            return Flags({flag})
        if isinstance(e, ast.Call) and isinstance(e.func, ast.Name) and e.func.id == 'map' and len(e.args) == 2 and not e.keywords:
            # map(<pure stdlib function>, <constant iterable>)
            f = ast.unparse(e.args[0])
            origin = f
            if isinstance(e.args[0], ast.Attribute) and isinstance(e.args[0].value, ast.Name):
                origin = '%s.%s' % (self.module.imports.get(e.args[0].value.id, e.args[0].value.id), e.args[0].attr)
            elif isinstance(e.args[0], ast.Name):
                origin = self.module.imports.get(f, f)
            PURE = {'re.escape': __import__('re').escape, 'str': str, 'int': int, 'chr': chr, 'ord': ord, 'len': len,
                    'str.lower': str.lower, 'str.upper': str.upper}
            if origin not in PURE:
                raise Unknown('map over %s' % f)
            return tuple(PURE[origin](x) for x in self.fold(e.args[1], upto, env))
        if isinstance(e, ast.Call):
            fn = ast.unparse(e.func)
            args = [self.fold(a, upto, env) for a in e.args]
            if e.keywords:
                raise Unknown('keywords in constant call %s' % fn)
            if fn in ('frozenset', 'set'):
                if not args:
                    return frozenset()
                return frozenset(args[0])
            if fn == 'range':
                return tuple(range(*args))
            if fn in ('tuple', 'list'):
                return tuple(args[0]) if args else ()
            if fn == 'sorted':
                return tuple(sorted(args[0]))
            if fn == 'len':
                return len(args[0])
            if fn in ('any', 'all', 'min', 'max', 'sum', 'abs') and args:
                try:
                    return {'any': any, 'all': all, 'min': min, 'max': max, 'sum': sum, 'abs': abs}[fn](*args)
                except Exception as ex:
                    raise Unknown('constant call %s: %s' % (fn, ex))
            if fn == 'chr':
                return chr(args[0])
            if fn == 'ord':
                return ord(args[0])
            if fn in ('str', 'int', 'bytes', 'hex', 'bool'):
                return {'str': str, 'int': int, 'bytes': bytes, 'hex': hex, 'bool': bool}[fn](*args)
            if isinstance(e.func, ast.Attribute) and isinstance(e.func.value, ast.Name) and e.func.attr == 'escape' and \
                    self.module.imports.get(e.func.value.id, e.func.value.id) == 're' and len(args) == 1:
                import re as _re
                return _re.escape(args[0])
            if fn.endswith('.join') and isinstance(e.func, ast.Attribute):
                sep = self.fold(e.func.value, upto, env)
                return sep.join(args[0])
            if isinstance(e.func, ast.Attribute) and e.func.attr in PURE_STR_METHODS:
                base = self.fold(e.func.value, upto, env)
                if not isinstance(base, (str, bytes)):
                    raise Unknown('method %s of a non-string constant' % e.func.attr)
                try:
                    r = getattr(base, e.func.attr)(*args)
                except Exception as ex:
                    raise Unknown('constant call %s: %s' % (fn, ex))
                return tuple(r) if isinstance(r, list) else r
            raise Unknown('call %s' % fn)
        if isinstance(e, ast.IfExp):
            raise Unknown('conditional expression')
        if isinstance(e, ast.UnaryOp) and isinstance(e.op, ast.USub):
            return -self.fold(e.operand, upto, env)
        if isinstance(e, (ast.ListComp, ast.SetComp, ast.GeneratorExp, ast.DictComp)):
            return self.comp(e, upto, env)
        if isinstance(e, ast.Subscript):
            base = self.fold(e.value, upto, env)
            idx = self.fold(e.slice, upto, env) if not isinstance(e.slice, ast.Slice) else slice(
                self.fold(e.slice.lower, upto, env) if e.slice.lower else None,
                self.fold(e.slice.upper, upto, env) if e.slice.upper else None,
                self.fold(e.slice.step, upto, env) if e.slice.step else None)
            try:
                return base[idx]
            except Exception as ex:
                raise Unknown('subscript: %s' % ex)
        if isinstance(e, ast.Compare) and len(e.ops) == 1:
            l = self.fold(e.left, upto, env)
            r = self.fold(e.comparators[0], upto, env)
            op = e.ops[0]
            import operator
            table = {ast.In: lambda a, b: a in b, ast.NotIn: lambda a, b: a not in b, ast.Eq: operator.eq,
                     ast.NotEq: operator.ne, ast.Lt: operator.lt, ast.LtE: operator.le, ast.Gt: operator.gt,
                     ast.GtE: operator.ge, ast.Is: operator.is_, ast.IsNot: operator.is_not}
            fn = table.get(type(op))
            if fn is None:
                raise Unknown('comparison operator %s' % type(op).__name__)
            try:
                return fn(l, r)
            except Exception as ex:
                raise Unknown(str(ex))
        if isinstance(e, ast.BoolOp):
            # short-circuit, like the interpreter
            if isinstance(e.op, ast.And):
                r = True
                for v in e.values:
                    r = self.fold(v, upto, env)
                    if not r:
                        return r
                return r
            r = False
            for v in e.values:
                r = self.fold(v, upto, env)
                if r:
                    return r
            return r
        if isinstance(e, ast.UnaryOp) and isinstance(e.op, ast.Not):
            return not self.fold(e.operand, upto, env)
        raise Unknown('expression kind %s' % type(e).__name__)

    def comp(self, e, upto, env):
        env = dict(env or {})
        results = []

        def rec(gi, env):
            if gi == len(e.generators):
                if isinstance(e, ast.DictComp):
                    results.append((self.fold(e.key, upto, env), self.fold(e.value, upto, env)))
                else:
                    results.append(self.fold(e.elt, upto, env))
                return
            g = e.generators[gi]
            it = self.fold(g.iter, upto, env)
            for item in it:
                env2 = dict(env)
                self.bind(g.target, item, env2)
                if all(self.fold(c, upto, env2) for c in g.ifs):
                    rec(gi + 1, env2)
        rec(0, env)
        if isinstance(e, ast.DictComp):
            return dict(results)
        if isinstance(e, ast.SetComp):
            return frozenset(results)
        return tuple(results)

    def bind(self, tgt, val, env):
        if isinstance(tgt, ast.Name):
            env[tgt.id] = val
        elif isinstance(tgt, (ast.Tuple, ast.List)):
            vals = tuple(val)
            if len(vals) != len(tgt.elts):
                raise Unknown('unpack arity')
            for t, v in zip(tgt.elts, vals):
                self.bind(t, v, env)
        else:
            raise Unknown('comprehension target')
