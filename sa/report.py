"""Obligations, findings, evidence, replay files, known-findings matching."""
import json
import os
import time

from .index import AnalysisError, norm

VERIF = os.path.dirname(os.path.dirname(os.path.abspath(__file__)))
EVIDENCE_DIR = os.path.join(VERIF, 'evidence')
REPLAY_DIR = os.path.join(EVIDENCE_DIR, 'replay')
KNOWN_FILE = os.path.join(VERIF, 'known_findings.json')


class Obligation:
    __slots__ = ('rule', 'construct', 'what', 'ok', 'loc', 'path', 'detail',
                 'nontrivial', 'info', 'count')

    def __init__(self, rule, construct, what, ok, loc='', path=None, detail='',
                 nontrivial=True, info=False):
        self.rule = rule
        self.construct = construct
        self.what = norm(what)
        self.ok = ok
        self.loc = loc
        self.path = path or []
        self.detail = detail
        self.nontrivial = nontrivial
        self.info = info
        self.count = 1          # paths / sites on which this same obligation was evaluated

    @property
    def key(self):
        return '%s|%s|%s' % (self.rule, self.construct, self.what)

    def as_dict(self):
        d = {'rule': self.rule, 'construct': self.construct, 'what': self.what,
             'verdict': 'discharged' if self.ok else 'FAILED', 'loc': self.loc}
        if self.count > 1:
            d['evaluated_on'] = '%d paths/sites' % self.count
        if self.detail:
            d['detail'] = self.detail
        if self.path:
            d['path'] = self.path[-25:]
        return d


class Ctx:
    """One run of one property's rules on one program."""

    def __init__(self, prop, program, tier='quick', seed=0, quiet=False):
        self.prop = prop
        self.program = program
        self.tier = tier
        self.seed = seed
        self.quiet = quiet
        self.obs = []
        self._bykey = {}
        self.infos = []
        self.notes = []
        self.analysed = {}          # category -> set of names
        self.t0 = time.time()
        self.extra = {}
        self.deficits = []

    def ob(self, rule, construct, what, ok, loc='', path=None, detail='',
           nontrivial=True):
        o = Obligation(rule, construct, what, bool(ok), loc, path, detail, nontrivial)
        prev = self._bykey.get((o.key, o.ok))
        if prev is not None:
            prev.count += 1
            return prev
        self._bykey[(o.key, o.ok)] = o
        self.obs.append(o)
        return o

    def info(self, msg):
        self.infos.append(msg)

    def saw(self, category, name):
        self.analysed.setdefault(category, set()).add(name)

    def need(self, rule, minimum):
        n = sum(o.count for o in self.obs if o.rule == rule or o.rule.startswith(rule + '.'))
        if n < minimum:
            # deferred: a violation found elsewhere is still reported as such
            self.deficits.append('rule %s matched %d instances, fewer than the %d '
                                 'confirmed by hand: the rule no longer sees its '
                                 'subjects' % (rule, n, minimum))

    def unknown(self, rule, construct, what, loc=''):
        """The rule cannot recognise its subject (idiom absent rather than wrong): reported as
        ANALYSIS-ERROR unless a violation is found elsewhere -- never as a violation."""
        self.deficits.append('rule %s cannot tell for %s (%s): %s' % (rule, construct, loc, what))

    def failures(self):
        return [o for o in self.obs if not o.ok]


def load_known():
    if not os.path.exists(KNOWN_FILE):
        return {'known': [], 'fixed': []}
    with open(KNOWN_FILE) as f:
        return json.load(f)


def _normalisation_counts(ctx):
    """per analysed module: how many sites each exact source-to-source normalisation of sa/index.py (and, in the second view,
    the helper inliner) rewrote -- what the rules were actually shown"""
    try:
        from sa.inline import _PROP_MODULES
        mods = _PROP_MODULES.get(ctx.prop, set())
    except Exception:
        mods = set()
    out = {}
    fields = ('inlined_constants', 'unrolled_table_loops', 'expanded_method_wrappers', 'split_parallel_assignments', 'expanded_closing',
              'hoisted_walrus', 'inlined_super_aliases', 'inlined_method_aliases', 'inlined_attribute_aliases', 'split_conditional_returns',
              'spliced_star_tuples', 'inlined_helper_calls')
    for name, m in sorted(getattr(ctx.program, 'modules', {}).items()):
        if mods and name not in mods:
            continue
        d = {}
        for f in fields:
            v = getattr(m, f, 0)
            v = len(v) if isinstance(v, (dict, list, set)) else v
            if v:
                d[f] = v
        if d:
            out[name] = d
    return out


def finish(ctx, spec, out=print):
    """Print the verdict, write evidence and replay files; return exit code."""
    prop = ctx.prop
    known = [k for k in load_known().get('known', []) if k['property'] == prop]
    known_keys = {k['key']: k for k in known}
    fails = ctx.failures()
    new = [o for o in fails if o.key not in known_keys]
    old = [o for o in fails if o.key in known_keys]
    os.makedirs(REPLAY_DIR, exist_ok=True)
    for fn in os.listdir(REPLAY_DIR):
        if fn.startswith(prop + '.'):
            os.unlink(os.path.join(REPLAY_DIR, fn))
    for o in old:
        out('KNOWN-FINDING: property=%s %s :: %s (%s) [%s]' % (
            prop, o.construct, o.what, o.loc, known_keys[o.key].get('fails_on', '')))
    code = 0
    for i, o in enumerate(new, 1):
        rp = os.path.join(REPLAY_DIR, '%s.%d.json' % (prop, i))
        with open(rp, 'w') as f:
            json.dump({'property': prop, 'rule': o.rule, 'construct': o.construct,
                       'what': o.what, 'loc': o.loc, 'detail': o.detail,
                       'path': o.path, 'key': o.key,
                       'modules_digest': ctx.program.digest}, f, indent=1)
        out('VIOLATION property=%s replay=%s' % (prop, rp))
        out('  rule %s at %s in %s' % (o.rule, o.loc, o.construct))
        out('  %s' % o.what)
        if o.detail:
            out('  %s' % o.detail)
        for line in o.path[-12:]:
            out('    | %s' % line)
        code = 1
    n = len(ctx.obs)
    nd = sum(1 for o in ctx.obs if o.ok)
    distinct = len({o.key for o in ctx.obs if o.nontrivial})
    samples = []
    seen_rules = set()
    for o in ctx.obs:                      # one sample per rule, failures first
        if not o.ok:
            samples.append(o.as_dict())
    for o in ctx.obs:
        if o.rule not in seen_rules and o.ok:
            seen_rules.add(o.rule)
            samples.append(o.as_dict())
    per_rule = {}
    for o in ctx.obs:
        r = per_rule.setdefault(o.rule, [0, 0])
        r[0] += 1
        r[1] += 1 if o.ok else 0
    ev = {
        'property_id': prop,
        'tier': ctx.tier,
        'seed': ctx.seed,
        'level': 'other',
        'coverage': {
            'explanation': spec['explanation'],
            'obligations': n,
            'discharged': nd,
            'evaluations': sum(o.count for o in ctx.obs),
            'distinct_nontrivial': distinct,
            'rule': ('each obligation is one (rule, construct, clause) instance '
                     'evaluated on the parsed source of the current working tree; '
                     'distinct = distinct (rule|construct|clause) keys; an obligation '
                     'is non-trivial when its rule inspected at least one relevant '
                     'operation / path / table entry for that construct'),
            'samples': samples[:40],
            'exhaustive': bool(spec.get('exhaustive', False)),
            'per_rule': {k: {'instances': v[0], 'discharged': v[1]} for k, v in sorted(per_rule.items())},
            'analysed': {k: sorted(v) for k, v in sorted(ctx.analysed.items())},
            'clauses_decided': spec.get('decided', []),
            'clauses_declined': spec.get('declined', []),
            'checker_cmd': '/venv/bin/python /verif/check %s --tier %s' % (prop, ctx.tier),
            'trusted_base': spec.get('trusted_base', []),
            'modules_digest': ctx.program.digest,
            'loop_unroll': __import__('sa.paths').paths.Model.loop_unroll,
            'max_paths_per_function': __import__('sa.paths').paths.Model.max_paths,
            'inline_depth': 6,
            'known_findings_matched': [o.key for o in old],
            'info': ctx.infos[:60],
            'view_notes': ctx.notes[:10],
            'normalisations': _normalisation_counts(ctx),
            **ctx.extra,
        },
        'assumptions': spec.get('assumptions', []),
        'wall_s': round(time.time() - ctx.t0, 3),
        'violations': len(new),
    }
    os.makedirs(EVIDENCE_DIR, exist_ok=True)
    with open(os.path.join(EVIDENCE_DIR, prop + '.json'), 'w') as f:
        json.dump(ev, f, indent=1, default=str)
    if code == 0 and ctx.deficits:
        raise AnalysisError('; '.join(ctx.deficits))
    if not ctx.quiet:
        for m in ctx.infos[:30]:
            out('INFO: ' + m)
        out('%s [%s]: %d obligations, %d discharged, %d known finding(s), %d violation(s); '
            '%.2fs' % (prop, ctx.tier, n, nd, len(old), len(new), time.time() - ctx.t0))
    return code
