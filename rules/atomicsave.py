"""Rules for fileutils.AtomicSaver (C04 publication protocol, C05 failure protocol).

Events are recognised semantically on the inlined composite paths
  __enter__ -> setup -> _open_part_file -> set_cloexec
  __exit__  -> atomic_rename -> replace
with aliases resolved along each path (T9 order/typestate, T10 cleanup on all
exits, T11 who-may-write, T12 flag tables, T14 never-silent)."""
import ast

from sa.index import AnalysisError, FuncInfo
from sa.paths import Walker, Model, call_name
from sa.consteval import Folder, Unknown, Flags

MOD = 'fileutils'
CLS = 'fileutils.AtomicSaver'

PURE_PATH_FUNCS = {'os.path.abspath', 'os.path.dirname', 'os.path.basename', 'os.path.join',
                   'os.path.lexists', 'os.path.exists', 'os.path.isfile', 'os.path.normpath',
                   'os.path.realpath', 'os.path.split', 'os.path.expanduser', 'path_to_unicode',
                   'os.fspath', 'str', 'repr', 'isinstance', 'len'}
DEST_READERS = {'os.stat', 'os.lstat', 'os.path.getmtime', 'os.path.getsize', 'os.access'}
FILE_METHODS_RAISE = {'flush', 'close', 'fileno', 'write', 'truncate', 'seek', 'tell'}


class FileModel(Model):
    """OS and file-object calls may fail with OSError; helpers are inlined."""

    def __init__(self, program, assume_part_file=None):
        super().__init__(program)
        self.assume_part_file = assume_part_file

    def call_raises(self, walker, op, st):
        name = call_name(op.node)
        v = op.val
        fname = call_name(v)
        if fname in PURE_PATH_FUNCS or name in PURE_PATH_FUNCS:
            return ()
        if name == 'os.fdopen':
            # also a ValueError for an impossible mode/buffering combination (e.g. unbuffered text I/O)
            return ('OSError', 'ValueError')
        if name.startswith('os.') or name.startswith('fcntl.') or name.startswith('shutil.'):
            return ('OSError',)
        if name in ('open', 'io.open'):
            return ('OSError',)
        if isinstance(v.func, ast.Attribute) and v.func.attr in FILE_METHODS_RAISE:
            return ('OSError',)
        if name.startswith('stat.') or name.startswith('errno.'):
            return ()
        if name.endswith('.pop') or name.endswith('.keys'):
            return ()
        return super().call_raises(walker, op, st)

    def inline(self, walker, op, callee, st):
        return callee.module.name == MOD

    def assume(self, walker, tv, st):
        if self.assume_part_file is not None:
            try:
                txt = ast.unparse(tv)
            except Exception:
                return None
            if txt == 'self.part_file':
                return self.assume_part_file
        return None


def txt(v):
    if v is None:
        return ''
    try:
        return ' '.join(ast.unparse(v).split())
    except Exception:
        return ''


class Ev:
    __slots__ = ('kind', 'op', 'idx', 'raised', 'extra')

    def __init__(self, kind, op, idx, raised=False, extra=None):
        self.kind, self.op, self.idx, self.raised, self.extra = kind, op, idx, raised, extra

    def __repr__(self):
        return '%s%s@%d' % (self.kind, '!' if self.raised else '', self.op.line)


def part_file_value(w, v, op):
    """Is value v the part file object (self.part_file, or the fdopen result stored there)?"""
    t = txt(v)
    if t == 'self.part_file':
        return True
    pf = (op.fenv or {}).get('self.part_file')
    if pf is not None and txt(pf) == t and t.startswith('$c'):
        return True
    # a local alias of the fdopen result that is (or will be) stored in self.part_file
    if isinstance(v, ast.Name) and v.id.startswith('$c'):
        info = w.tokens.get(v.id)
        if info and info[0] == 'call' and call_name(info[1]) == 'os.fdopen':
            return True
    return False


def is_fd_of_create(w, v):
    if isinstance(v, ast.Name):
        info = w.tokens.get(v.id)
        if info and info[0] == 'call' and call_name(info[1]) == 'os.open' and info[1].args \
                and txt(info[1].args[0]) == 'self.part_path':
            return True
    return False


def events(w, path):
    """Semantic event list of one composite path."""
    evs = []
    ops = path.ops
    for i, op in enumerate(ops):
        raised = (i + 1 < len(ops) and ops[i + 1].kind == 'raise_at' and ops[i + 1].node is op.node)
        if op.kind == 'test':
            evs.append(Ev('TEST', op, i, extra=(txt(w.expand(op.val)), op.info)))
            continue
        if op.kind == 'return':
            evs.append(Ev('RETURN', op, i, extra=op.val))
            continue
        if op.kind == 'raise':
            evs.append(Ev('RAISE', op, i, extra=op.info))
            continue
        if op.kind == 'except':
            evs.append(Ev('EXCEPT', op, i, extra=op.info))
            continue
        if op.kind == 'attr_store' and txt(op.val) == 'self.part_file':
            evs.append(Ev('SET_PART_FILE', op, i, extra=op.info))
            continue
        if op.kind != 'call':
            continue
        if isinstance(op.info, FuncInfo) and i + 1 < len(ops) and ops[i + 1].kind == 'inline_enter':
            continue       # inlined: its body follows
        v = op.val
        name = call_name(v)
        args = [txt(a) for a in v.args]
        kw = {k.arg: txt(k.value) for k in v.keywords}
        if name == 'os.open':
            if args and args[0] == 'self.part_path':
                evs.append(Ev('CREATE', op, i, raised, extra=v))
            else:
                evs.append(Ev('OPEN_OTHER', op, i, raised, extra=v))
        elif name in ('open', 'io.open', 'codecs.open'):
            evs.append(Ev('OPEN_OTHER', op, i, raised, extra=v))
        elif name == 'os.fdopen':
            evs.append(Ev('FDOPEN', op, i, raised, extra=v))
        elif name == 'os.fsync' and v.args:
            a = w.expand(v.args[0])
            ok = isinstance(a, ast.Call) and isinstance(a.func, ast.Attribute) and a.func.attr == 'fileno' \
                and txt(a.func.value) == 'self.part_file'
            evs.append(Ev('FSYNC' if ok else 'FSYNC_OTHER', op, i, raised))
        elif name in ('os.rename', 'os.replace', 'os.link', 'os.symlink', 'shutil.move',
                      'shutil.copy', 'shutil.copyfile', 'shutil.copy2') and len(args) >= 2:
            evs.append(Ev('MOVE', op, i, raised, extra=(name, args[0], args[1])))
        elif name in ('os.unlink', 'os.remove') and args:
            evs.append(Ev('UNLINK', op, i, raised, extra=args[0]))
        elif name == 'os.close' and v.args:
            evs.append(Ev('CLOSE_FD' if is_fd_of_create(w, v.args[0]) else 'CLOSE_OTHER', op, i, raised))
        elif name == 'os.chmod' and args:
            evs.append(Ev('CHMOD', op, i, raised, extra=(args[0], w.text(v.args[1]) if len(v.args) > 1 else '')))
        elif name in ('os.truncate', 'os.ftruncate', 'os.chown', 'os.utime', 'os.mkdir', 'os.makedirs',
                      'os.rmdir', 'shutil.rmtree', 'os.write') and args:
            evs.append(Ev('OS_OTHER', op, i, raised, extra=(name, args)))
        elif isinstance(v.func, ast.Attribute) and v.func.attr in ('flush', 'close', 'write', 'truncate',
                                                                    'writelines', 'seek') \
                and part_file_value(w, v.func.value, op):
            evs.append(Ev({'flush': 'FLUSH', 'close': 'CLOSE', 'write': 'WRITE', 'truncate': 'WRITE',
                           'writelines': 'WRITE', 'seek': 'SEEK'}[v.func.attr], op, i, raised))
        else:
            if any(a in ('self.dest_path', 'self.part_path') for a in args + list(kw.values())):
                evs.append(Ev('USES_PATH', op, i, raised, extra=(name, args, kw)))
    return evs


def ev_line(e):
    return '%s%s %s:%d %s' % (e.kind, ' (raises)' if e.raised else '', e.op.fn.qualname if e.op.fn else '',
                              e.op.line, e.extra if e.kind in ('TEST', 'MOVE', 'UNLINK', 'EXCEPT', 'RAISE') else '')


def trace(evs):
    return [ev_line(e) for e in evs if e.kind not in ('RETURN',)]


def test_says(evs, upto, subject, want):
    """Some TEST event before index `upto` establishes truthiness `want` for subject text."""
    for e in evs:
        if e.idx >= upto:
            break
        if e.kind != 'TEST':
            continue
        t, outcome = e.extra
        pos = None
        if t == subject:
            pos = outcome
        elif t == 'not ' + subject or t == 'not (%s)' % subject:
            pos = not outcome
        elif t == subject + ' is None':
            pos = not outcome
        elif t == subject + ' is not None':
            pos = outcome
        if pos is not None and pos == want:
            return True
    return False


class Composite:
    """Inlined paths of __enter__ and __exit__ with their event lists."""

    def __init__(self, ctx):
        prog = ctx.program
        self.ctx = ctx
        self.prog = prog
        self.ci = prog.cls(CLS)
        self.enter = prog.func(CLS + '.__enter__')
        self.exit = prog.func(CLS + '.__exit__')
        for nm in ('setup', '_open_part_file', '__init__'):
            prog.func(CLS + '.' + nm)
        prog.func(MOD + '.atomic_rename')
        self.w_enter = Walker(prog, FileModel(prog))
        self.enter_paths = [p for p in self.w_enter.paths(self.enter, recv=self.ci) if p.kind != 'cutoff']
        self.enter_evs = [events(self.w_enter, p) for p in self.enter_paths]
        self.w_exit = Walker(prog, FileModel(prog, assume_part_file=True))
        self.exit_paths = [p for p in self.w_exit.paths(self.exit, recv=self.ci) if p.kind != 'cutoff']
        self.exit_evs = [events(self.w_exit, p) for p in self.exit_paths]
        # paths of __exit__ without the entry fact (used to show the fact is needed / harmless)
        for f in (self.enter, self.exit):
            ctx.saw('functions', f.fq)
        for nm in ('setup', '_open_part_file'):
            ctx.saw('functions', CLS + '.' + nm)
        ctx.saw('functions', MOD + '.atomic_rename')
        ctx.saw('functions', MOD + '.set_cloexec')
        ctx.extra['paths_enumerated'] = len(self.enter_paths) + len(self.exit_paths)
        ctx.extra['fault_points'] = sorted({'%s:%d %s' % (e.op.fn.qualname, e.op.line, e.kind)
                                            for evs in self.enter_evs + self.exit_evs
                                            for e in evs if e.raised})

    def loc(self, op):
        return '%s:%d' % (op.fn.module.relpath if op.fn else 'boltons/fileutils.py', op.line)


# ---------------------------------------------------------------------------
# C04
def check_c04(ctx):
    prog = ctx.program
    C = Composite(ctx)
    mod = prog.module(MOD)
    ci = C.ci
    folder = Folder(mod)

    # O1 exclusive creation ---------------------------------------------------
    creates = {}
    for p, evs in zip(C.enter_paths, C.enter_evs):
        for e in evs:
            if e.kind == 'CREATE':
                creates[id(e.op.node)] = e
            if e.kind == 'OPEN_OTHER':
                a0 = txt(e.extra.args[0]) if e.extra.args else ''
                if 'part_path' in a0 or 'dest_path' in a0:
                    ctx.ob('C04.O1', CLS + '.__enter__', 'part/destination path opened by something other '
                           'than the exclusive os.open: %s' % txt(e.extra), False, loc=C.loc(e.op), path=trace(evs))
    if not creates:
        ctx.ob('C04.O1', CLS + '._open_part_file',
               'the part file is created by os.open(self.part_path, flags, mode)', False,
               loc=C.enter.loc, detail='no os.open(self.part_path, ...) found on any path of __enter__')
    check_exclusive_flags(ctx, C, 'C04.O1')
    # O2 co-location: every value stored into self.part_path, on every path of every method that stores it,
    # derives from the destination (locals copy-propagated, fields read through the path's field environment)
    n_pp = 0
    for m in ci.members.values():
        if not isinstance(m, FuncInfo):
            continue
        if not any(isinstance(n, ast.Attribute) and n.attr == 'part_path' and isinstance(n.ctx, ast.Store) for n in ast.walk(m.node)):
            continue
        wq = Walker(prog, Model(prog))
        seen = set()
        for p in wq.paths(m, recv=ci):
            if p.kind == 'cutoff':
                continue
            for o in p.ops:
                if o.kind == 'attr_store' and txt(o.val) == 'self.part_path' and o.info is not None:
                    e = wq.expand(o.info)
                    key = (o.line, txt(e))
                    if key in seen:
                        continue
                    seen.add(key)
                    n_pp += 1
                    ok, why = derives_from_dest(wq, o, e, folder)
                    ctx.ob('C04.O2', m.fq, 'part path `%s` is derived from the destination path '
                           '(same directory => same file system => rename is atomic)' % txt(e)[:90],
                           ok, loc='%s:%d' % (mod.relpath, o.line), detail=why)
    if n_pp == 0:
        raise AnalysisError('anchor vanished: no assignment to self.part_path')
    # O3 handle identity --------------------------------------------------------
    n_ret = 0
    for p, evs in zip(C.enter_paths, C.enter_evs):
        if p.kind != 'return':
            continue
        n_ret += 1
        rv = p.outcome[1]
        ok = False
        why = 'returns %s' % C.w_enter.text(rv)
        if txt(rv) == 'self.part_file':
            pf = p.st.fenv.get('self.part_file')
            exp = C.w_enter.expand(pf) if pf is not None else None
            if isinstance(exp, ast.Call) and call_name(exp) == 'os.fdopen' and exp.args:
                fd = exp.args[0]
                ok = isinstance(fd, ast.Call) and call_name(fd) == 'os.open' and fd.args and \
                    txt(fd.args[0]) == 'self.part_path'
                why = 'self.part_file = %s' % txt(exp)
            else:
                why = 'self.part_file holds %s' % (txt(exp) if exp is not None else 'nothing assigned on this path')
        ctx.ob('C04.O3', CLS + '.__enter__', 'the handle given to the body is the file object opened on the '
               'exclusively created part file descriptor', ok, loc=C.enter.loc, detail=why,
               path=trace(evs) if not ok else None)
    if n_ret == 0:
        raise AnalysisError('__enter__ has no normal return path')
    # O4 order on every publishing path + O5 + O6 --------------------------------
    n_pub = 0
    for p, evs in zip(C.exit_paths, C.exit_evs):
        pubs = [e for e in evs if e.kind == 'MOVE' and e.extra[2] == 'self.dest_path']
        for e in evs:
            if e.kind == 'MOVE' and e.extra[2] != 'self.dest_path' and 'dest_path' in e.extra[1]:
                ctx.ob('C04.O5', CLS + '.__exit__', 'destination used as the *source* of %s' % e.extra[0],
                       False, loc=C.loc(e.op), path=trace(evs))
        if not pubs:
            continue
        n_pub += 1
        pub = pubs[0]
        first = {k: None for k in ('FLUSH', 'FSYNC', 'CLOSE')}
        for e in evs:
            if e.kind in first and first[e.kind] is None and not e.raised:
                first[e.kind] = e
        order_ok = all(first[k] is not None for k in first) and \
            first['FLUSH'].idx < first['FSYNC'].idx < first['CLOSE'].idx < pub.idx
        late_writes = [e for e in evs if e.kind in ('WRITE', 'FLUSH') and first['FSYNC'] is not None
                       and first['FSYNC'].idx < e.idx < pub.idx and e.kind == 'WRITE']
        detail = 'events: ' + ' < '.join('%s@%d' % (e.kind, e.op.line) for e in evs
                                         if e.kind in ('FLUSH', 'FSYNC', 'CLOSE', 'MOVE', 'WRITE'))
        ctx.ob('C04.O4', CLS + '.__exit__', 'on a path that publishes: flush(part) < fsync(part.fileno()) '
               '< close(part) < publish, nothing written after the sync', order_ok and not late_writes,
               loc=C.loc(pub.op), detail=detail, path=trace(evs) if not (order_ok and not late_writes) else None)
        if len(pubs) > 1:
            ctx.ob('C04.O5', CLS + '.__exit__', 'destination is written by more than one step on a path',
                   False, loc=C.loc(pubs[1].op), path=trace(evs))
        src_ok = pub.extra[1] == 'self.part_path' and pub.extra[0] in ('os.rename', 'os.replace', 'os.link')
        ctx.ob('C04.O5', CLS + '.__exit__', 'publication is one atomic step %s(part, destination)' % pub.extra[0],
               src_ok, loc=C.loc(pub.op), detail='%s(%s, %s)' % pub.extra,
               path=trace(evs) if not src_ok else None)
        guarded = test_says(evs, pub.idx, 'exc_type', False)
        ctx.ob('C04.O4g', CLS + '.__exit__', 'publication happens only when the body raised nothing '
               '(control-dependent on `not exc_type`)', guarded, loc=C.loc(pub.op),
               path=trace(evs) if not guarded else None)
        # O6: success leaves no part file
        if p.kind == 'return' and not pub.raised:
            if pub.extra[0] in ('os.rename', 'os.replace'):
                ok6 = True
            else:
                ok6 = any(e.kind == 'UNLINK' and e.extra == 'self.part_path' and e.idx > pub.idx and not e.raised
                          for e in evs)
            ctx.ob('C04.O6', CLS + '.__exit__', 'a successful exit leaves no part file (rename consumes it, '
                   'link is followed by unlink of the part file)', ok6, loc=C.loc(pub.op),
                   path=trace(evs) if not ok6 else None)
    if n_pub == 0:
        ctx.ob('C04.O5', CLS + '.__exit__', 'some path of __exit__ publishes the part file at the destination',
               False, loc=C.exit.loc, detail='no rename/link onto self.dest_path on any path')
    # O5 ownership of the destination: nothing else writes it, on any path
    for which, paths, evss in (('__enter__', C.enter_paths, C.enter_evs), ('__exit__', C.exit_paths, C.exit_evs)):
        seen = set()
        for p, evs in zip(paths, evss):
            for e in evs:
                bad = None
                if e.kind == 'UNLINK' and 'dest_path' in e.extra:
                    bad = 'unlink of the destination'
                elif e.kind == 'CHMOD' and 'dest_path' in e.extra[0]:
                    bad = 'chmod of the destination'
                elif e.kind == 'OS_OTHER' and any('dest_path' in a for a in e.extra[1]):
                    bad = '%s on the destination' % e.extra[0]
                elif e.kind == 'OPEN_OTHER' and e.extra.args and 'dest_path' in txt(e.extra.args[0]):
                    bad = 'open() of the destination'
                elif e.kind == 'USES_PATH':
                    name, args, kw = e.extra
                    if ('self.dest_path' in args or 'self.dest_path' in kw.values()) and \
                            name not in DEST_READERS and name not in PURE_PATH_FUNCS and \
                            not name.startswith('$'):
                        callee = e.op.info
                        if not isinstance(callee, FuncInfo):
                            bad = 'destination passed to %s (not a known reader)' % name
                key = (id(e.op.node), bad)
                if bad and key not in seen:
                    seen.add(key)
                    ctx.ob('C04.O5', CLS + '.' + which, 'destination is touched only by the single publish step: '
                           + bad, False, loc=C.loc(e.op), path=trace(evs))
        ctx.ob('C04.O5', CLS + '.' + which, 'no step other than the publish writes, removes, truncates or '
               'chmods the destination on any of %d paths' % len(paths), not seen, loc=C.enter.loc if which == '__enter__' else C.exit.loc)
    check_foreign_part(ctx, C, 'C04.O1x')
    # T17 atomic_save delegates
    f = prog.func(MOD + '.atomic_save')
    from rules.common import returned_values
    rvs = [e for e, _, _ in returned_values(prog, f)]
    ok = bool(rvs) and all(isinstance(e, ast.Call) and mod.resolve_name(call_name(e)) == 'AtomicSaver' and
                           [txt(a) for a in e.args] == ['dest_path'] and
                           [(k.arg, txt(k.value)) for k in e.keywords] == [(None, 'kwargs')] for e in rvs)
    # ... with the caller's options untouched (no option is defaulted or rewritten on the way)
    kwname = f.node.args.kwarg.arg if f.node.args.kwarg else None
    touched = [n for n in ast.walk(f.node) if kwname and (
        (isinstance(n, ast.Call) and isinstance(n.func, ast.Attribute) and txt(n.func.value) == kwname and
         n.func.attr in ('setdefault', 'update', 'pop', 'popitem', 'clear', '__setitem__')) or
        (isinstance(n, ast.Subscript) and isinstance(n.ctx, (ast.Store, ast.Del)) and txt(n.value) == kwname) or
        (isinstance(n, ast.Name) and n.id == kwname and isinstance(n.ctx, ast.Store)))]
    ctx.ob('C04.T17', MOD + '.atomic_save', 'atomic_save(dest_path, **kwargs) is AtomicSaver(dest_path, **kwargs) with the options untouched',
           ok and not touched, loc=loc_of(f, touched[0]) if touched else f.loc, detail=txt(touched[0]) if touched else '')
    # the safe defaults: an existing part file is never reused or removed unless asked for
    init = prog.func(CLS + '.__init__')
    folder = Folder(mod)
    for opt, want in (('overwrite_part', False),):
        pops = [n for n in ast.walk(init.node) if isinstance(n, ast.Call) and isinstance(n.func, ast.Attribute) and
                n.func.attr in ('pop', 'get') and n.args and isinstance(n.args[0], ast.Constant) and n.args[0].value == opt]
        if not pops:
            ctx.unknown('C04.T17', CLS + '.__init__', 'option %s is not read with pop/get' % opt, init.loc)
            continue
        for c in pops:
            try:
                d = folder.fold(c.args[1]) if len(c.args) > 1 else None
            except Unknown:
                d = '?'
            ctx.ob('C04.T17', CLS + '.__init__', 'option %s defaults to %r' % (opt, want), d is want or d == want and type(d) is type(want),
                   loc=loc_of(init, c), detail='default %r' % (d,))
    return C


def check_exclusive_flags(ctx, C, rule):
    """Every flags value reaching os.open(part_path, ...) on any path of __enter__ folds to a set with O_CREAT|O_EXCL and write
    access and without O_TRUNC, whatever was stored into self.open_flags (values stored relative to the field itself, e.g.
    `self.open_flags = self.open_flags & ~X`, are evaluated on every earlier value)."""
    ci = C.ci
    mod = ctx.program.module(MOD)
    folder = Folder(mod)
    # flags: every flags value reaching os.open on any path folds to a set with O_CREAT|O_EXCL
    # and write access; self.open_flags is replaced by each value stored into it
    stored = []          # (expr, node, method) stored into self.open_flags
    for m in ci.members.values():
        if isinstance(m, FuncInfo):
            for n in ast.walk(m.node):
                if isinstance(n, ast.Assign):
                    for t in n.targets:
                        if isinstance(t, ast.Attribute) and t.attr == 'open_flags':
                            stored.append((n.value, n, m))
                elif isinstance(n, ast.AugAssign) and isinstance(n.target, ast.Attribute) \
                        and n.target.attr == 'open_flags':
                    stored.append((None, n, m))

    def alternatives(expr):
        if isinstance(expr, ast.IfExp):
            return alternatives(expr.body) + alternatives(expr.orelse)
        if isinstance(expr, ast.BoolOp):
            out = []
            for x in expr.values:
                out += alternatives(x)
            return out
        return [expr]
    base_vals = []
    relative = []
    for expr, node, m in stored:
        if expr is None:
            ctx.ob(rule, m.fq, 'open flags are modified in place (cannot be folded)', False,
                   loc='%s:%d' % (mod.relpath, node.lineno))
            continue
        for alt in alternatives(expr):
            if any(isinstance(x, ast.Attribute) and x.attr == 'open_flags' for x in ast.walk(alt)):
                relative.append((alt, node, m))
                continue
            try:
                base_vals.append((folder.fold(alt), txt(alt), node, m))
            except Unknown as ex:
                raise AnalysisError('cannot fold open flags %s: %s' % (txt(alt), ex))

    def feval(e, base):
        """Flag-set value of expression e with self.open_flags = base."""
        if txt(e) == 'self.open_flags':
            return base
        if isinstance(e, ast.BinOp) and isinstance(e.op, ast.BitOr):
            return Flags(feval(e.left, base) | feval(e.right, base))
        if isinstance(e, ast.BinOp) and isinstance(e.op, ast.BitAnd) and isinstance(e.right, ast.UnaryOp) \
                and isinstance(e.right.op, ast.Invert):
            return Flags(feval(e.left, base) - feval(e.right.operand, base))
        if isinstance(e, ast.BinOp) and isinstance(e.op, ast.BitXor):
            return Flags(feval(e.left, base) ^ feval(e.right, base))
        try:
            v = folder.fold(e)
        except Unknown as ex:
            raise AnalysisError('cannot fold open flags %s: %s' % (txt(e), ex))
        if not isinstance(v, Flags):
            raise AnalysisError('open flags %s do not fold to a flag set' % txt(e))
        return v
    # a value stored relative to the field (`self.open_flags = f(self.open_flags)`) may follow any absolutely stored value
    for alt, node, m in relative:
        for bval, btxt, _, _ in list(base_vals):
            if '<-' not in btxt:
                base_vals.append((feval(alt, bval), '%s <- %s' % (txt(alt), btxt), node, m))
    seen_flag_vals = {}
    for p, evs in zip(C.enter_paths, C.enter_evs):
        for e in evs:
            if e.kind == 'CREATE':
                v = e.extra
                fl = C.w_enter.expand(v.args[1]) if len(v.args) > 1 else None
                if fl is None:
                    for kw in v.keywords:
                        if kw.arg == 'flags':
                            fl = C.w_enter.expand(kw.value)
                seen_flag_vals.setdefault(txt(fl), (fl, e))
    for ft, (fl, e) in sorted(seen_flag_vals.items()):
        if fl is None:
            ctx.ob(rule, CLS + '._open_part_file', 'os.open is given explicit flags', False, loc=C.loc(e.op))
            continue
        uses_base = 'self.open_flags' in ft
        for bval, btxt, bnode, bm in (base_vals if uses_base else [(None, '-', e.op.node, e.op.fn)]):
            val = feval(fl, bval)
            ok = {'O_CREAT', 'O_EXCL'} <= val and ('O_RDWR' in val or 'O_WRONLY' in val) and 'O_TRUNC' not in val
            ctx.ob(rule, CLS + '._open_part_file',
                   'part file is created exclusively: flags `%s` (with self.open_flags = %s) include '
                   'O_CREAT|O_EXCL and write access, no O_TRUNC' % (ft, btxt), ok, loc=C.loc(e.op),
                   detail='folded to %r' % (val,))


def loc_of(fn, node):
    return '%s:%d' % (fn.module.relpath, getattr(node, 'lineno', fn.node.lineno))


def derives_from_dest(w, op, expr, folder):
    """part path value is <dest> + const-suffix  or  join(dirname(<dest>), name)."""
    fenv = op.fenv or {}

    def field(e):
        t = txt(e)
        if t in fenv and fenv[t] is not None:
            return w.expand(fenv[t])
        return e

    def is_dest(e, depth=0):
        if depth > 6:
            return False
        t = txt(e)
        if t == 'dest_path':
            return True
        if t == 'self.dest_path':
            return True          # the destination attribute itself (its own stores are checked separately)
        if isinstance(e, ast.Call) and call_name(e) in ('os.path.abspath', 'os.path.normpath', 'os.fspath', 'str',
                                                          'os.path.realpath', 'os.path.expanduser') and e.args:
            return is_dest(e.args[0], depth + 1)
        return False

    def is_dir(e, depth=0):
        if depth > 6:
            return False
        if txt(e) == 'self.dest_dir':
            f = field(e)
            return False if f is e else is_dir(f, depth + 1)
        if isinstance(e, ast.Call) and call_name(e) == 'os.path.dirname' and e.args:
            return is_dest(e.args[0])
        return False

    def const_str(e):
        if isinstance(e, ast.Constant):
            return e.value if isinstance(e.value, str) else None
        try:
            v = folder.fold(e)
            return v if isinstance(v, str) else None
        except Unknown:
            return None
    if isinstance(expr, ast.BinOp) and isinstance(expr.op, ast.Add) and is_dest(expr.left):
        suf = const_str(expr.right)
        if suf is not None and '/' not in suf and suf:
            return True, 'destination + %r' % suf
        return False, 'suffix is not a constant file-name suffix: %s' % txt(expr.right)
    if isinstance(expr, ast.Name):
        info = w.tokens.get(expr.id)
        if info and info[0] == 'fresh' and info[1] == 'str':
            expr = info[2]
    if isinstance(expr, ast.JoinedStr):
        vals = expr.values
        if vals and isinstance(vals[0], ast.FormattedValue) and is_dest(vals[0].value) and \
                all(isinstance(v, ast.Constant) and '/' not in v.value for v in vals[1:]):
            return True, 'f-string destination + suffix'
    if isinstance(expr, ast.Call) and call_name(expr) == 'os.path.join' and len(expr.args) >= 2 and is_dir(expr.args[0]):
        for r in expr.args[1:]:
            c = const_str(r)
            if c is not None and c.startswith('/'):
                return False, 'absolute constant component'
            if isinstance(r, ast.Call) and 'temp' in call_name(r):
                return False, 'temporary-directory component'
        return True, 'join(dirname(destination), name)'
    if is_dest(expr):
        return False, 'part path equals the destination itself'
    return False, 'not derived from the destination: %s' % txt(expr)


def check_foreign_part(ctx, C, rule):
    """A part file whose exclusive creation failed belongs to another writer: never removed by the cleanup."""
    for p, evs in zip(C.enter_paths, C.enter_evs):
        failed = [e for e in evs if e.kind == 'CREATE' and e.raised]
        if failed:
            later = [e for e in evs if e.kind == 'UNLINK' and e.extra == 'self.part_path' and e.idx > failed[0].idx]
            ctx.ob(rule, CLS + '._open_part_file', 'when os.open(part_path, O_EXCL) itself fails (the part file belongs to another '
                   'writer, possibly mid-write) the cleanup does not unlink it', not later, loc=C.loc(failed[0].op),
                   path=trace(evs) if later else None)


# ---------------------------------------------------------------------------
# C05
def check_c05(ctx):
    prog = ctx.program
    C = Composite(ctx)
    W = C.w_enter
    # R1 cleanup on all exceptional exits -------------------------------------
    n = 0
    for which, paths, evss in (('__enter__', C.enter_paths, C.enter_evs), ('__exit__', C.exit_paths, C.exit_evs)):
        for p, evs in zip(paths, evss):
            if which == '__enter__':
                created = [e for e in evs if e.kind == 'CREATE' and not e.raised]
                if not created or p.kind != 'raise':
                    continue
                start = created[0].idx
            else:
                body_failed = test_says(evs, 10 ** 9, 'exc_type', True)
                if p.kind != 'raise' and not body_failed:
                    continue
                start = -1
                # a completed rename already consumed the part file
                if any(e.kind == 'MOVE' and e.extra[0] in ('os.rename', 'os.replace') and not e.raised
                       and e.extra[1] == 'self.part_path' for e in evs):
                    continue
            n += 1
            unl = [e for e in evs if e.kind == 'UNLINK' and e.extra == 'self.part_path' and e.idx > start]
            opted_out = test_says(evs, 10 ** 9, 'self.rm_part_on_exc', False)
            ok = bool(unl) or opted_out
            fault = [e for e in evs if e.raised]
            fdesc = ', '.join('%s fails' % ' '.join(ast.unparse(o.node).split())[:60]
                              for o in p.ops if o.kind == 'raise_at') or 'body raised'
            ctx.ob('C05.R1', CLS + '.' + which,
                   'failed save (%s) removes the part file before the exception leaves %s'
                   % (fdesc, which),
                   ok, loc=C.loc(fault[0].op) if fault else C.exit.loc,
                   detail='exit: %s; unlink(part) attempted: %s; rm_part_on_exc tested false: %s'
                   % (p.outcome[:2] if p.kind == 'raise' else 'return', bool(unl), opted_out),
                   path=trace(evs) if not ok else None)
            if which == '__enter__':
                closed = any(e.kind in ('CLOSE', 'CLOSE_FD') and e.idx > start for e in evs)
                ctx.ob('C05.R1c', CLS + '.' + which,
                       'failed setup (%s) closes the descriptor/file it opened' % fdesc, closed,
                       loc=C.loc(fault[0].op) if fault else C.enter.loc, path=trace(evs) if not closed else None)
    # R2 never silent ------------------------------------------------------------
    for p, evs in zip(C.exit_paths, C.exit_evs):
        if p.kind != 'return':
            continue
        rv = p.outcome[1]
        falsy = rv is None or (isinstance(rv, ast.Constant) and not rv.value)
        ctx.ob('C05.R2', CLS + '.__exit__', '__exit__ returns a falsy constant (never suppresses the body\'s exception)',
               falsy, loc=C.exit.loc, detail='returns %s' % C.w_exit.text(rv),
               path=trace(evs) if not falsy else None)
        body_failed = test_says(evs, 10 ** 9, 'exc_type', True)
        if not body_failed:
            swallowed = [e for e in evs if e.raised and not (e.kind == 'UNLINK' and e.extra == 'self.part_path'
                                                             and any(x.kind == 'MOVE' and not x.raised for x in evs) is False)]
            # an error in a cleanup unlink after a failure is re-raised via the outer `raise`; on a
            # normal-return path with no body exception nothing may have failed except a cleanup unlink
            swallowed = [e for e in evs if e.raised and e.kind != 'UNLINK']
            unl_fail = [e for e in evs if e.raised and e.kind == 'UNLINK']
            # unlink(src) after link is part of publication: its failure must not be swallowed either
            bad_unl = [e for e in unl_fail if any(x.kind == 'MOVE' and x.extra[0] == 'os.link' and not x.raised
                                                  and x.idx < e.idx for x in evs)
                       and not any(x.kind == 'EXCEPT' and x.idx < e.idx for x in evs)]
            ok = not swallowed and not bad_unl
            ctx.ob('C05.R2s', CLS + '.__exit__', 'a save whose body succeeded returns normally only if no '
                   'flush/fsync/close/publish step failed (errors are never swallowed)', ok,
                   loc=C.loc((swallowed + bad_unl)[0].op) if not ok else C.exit.loc,
                   path=trace(evs) if not ok else None)
    # R3 early refusal / R4 part-file protection ---------------------------------
    for p, evs in zip(C.enter_paths, C.enter_evs):
        cr = [e for e in evs if e.kind == 'CREATE']
        if cr:
            c = cr[0]
            ok = test_says(evs, c.idx, 'self.overwrite', True) or \
                any(e.kind == 'TEST' and e.idx < c.idx and e.extra[1] is False and
                    ('lexists(self.dest_path)' in e.extra[0] or 'exists(self.dest_path)' in e.extra[0])
                    for e in evs)
            ctx.ob('C05.R3', CLS + '.setup', 'the part file is created only if the destination is absent or '
                   'overwrite is set (refusal happens before anything is created)', ok, loc=C.loc(c.op),
                   path=trace(evs) if not ok else None)
            for e in evs:
                if e.kind == 'UNLINK' and e.extra == 'self.part_path' and e.idx < c.idx:
                    ok4 = test_says(evs, e.idx, 'self.overwrite_part', True)
                    ctx.ob('C05.R4', CLS + '.setup', 'a pre-existing part file is removed only under overwrite_part',
                           ok4, loc=C.loc(e.op), path=trace(evs) if not ok4 else None)
        refus = [e for e in evs if e.kind == 'RAISE' and not cr]
        for e in refus:
            ctx.ob('C05.R3r', CLS + '.setup', 'refusal raises OSError before creating anything',
                   e.extra in ('OSError', 'FileExistsError', 'IOError'), loc=C.loc(e.op), detail='raises %s' % e.extra)
    if not any(o.rule == 'C05.R4' for o in ctx.obs):
        ctx.ob('C05.R4', CLS + '.setup', 'no pre-existing part file is ever removed before the exclusive create (a stale one makes the '
               'create fail)', True, loc=C.enter.loc)
    # a part file is never a reused inode (a stale one may be a hard link of the destination: truncating it destroys the
    # destination before the body ran)
    check_exclusive_flags(ctx, C, 'C05.R4x')
    check_foreign_part(ctx, C, 'C05.R4b')
    # R5 no-clobber publication ---------------------------------------------------
    for p, evs in zip(C.exit_paths, C.exit_evs):
        for e in evs:
            if e.kind == 'MOVE' and e.extra[2] == 'self.dest_path' and e.extra[0] in ('os.rename', 'os.replace',
                                                                                       'shutil.move'):
                ok = test_says(evs, e.idx, 'self.overwrite', True)
                ctx.ob('C05.R5', MOD + '.atomic_rename', 'a clobbering rename onto the destination happens only '
                       'when overwrite is set (otherwise link, which fails if the destination exists)', ok,
                       loc=C.loc(e.op), path=trace(evs) if not ok else None)
            if e.kind == 'MOVE' and e.extra[2] == 'self.dest_path' and e.extra[0] == 'os.link':
                ok = test_says(evs, e.idx, 'self.overwrite', False)
                ctx.ob('C05.R5', MOD + '.atomic_rename', 'the no-overwrite branch publishes with os.link', ok,
                       loc=C.loc(e.op), nontrivial=True)
    # R6 permission provenance ------------------------------------------------------
    for p, evs in zip(C.enter_paths, C.enter_evs):
        cr = [e for e in evs if e.kind == 'CREATE' and not e.raised]
        if not cr:
            continue
        v = cr[0].extra
        mode = W.text(v.args[2]) if len(v.args) > 2 else ''
        explicit = test_says(evs, cr[0].idx, 'self.file_perms', True)
        stat_failed = any(e.kind == 'EXCEPT' and e.idx < cr[0].idx for e in evs)
        chm = [e for e in evs if e.kind == 'CHMOD' and e.idx > cr[0].idx]
        completed = p.kind == 'return'
        if explicit:
            ok = mode == 'self.file_perms' and (not completed or any(c.extra == ('self.part_path', 'self.file_perms') for c in chm))
            what = 'explicit file_perms are used for creation and re-applied with chmod (umask undone)'
        elif stat_failed:
            ok = mode == 'self._default_file_perms' and not chm
            what = 'no destination to copy from: default perms, umask respected (no chmod)'
        else:
            want = 'stat.S_IMODE(os.stat(self.dest_path).st_mode)'
            ok = mode == want and (not completed or any(c.extra == ('self.part_path', want) for c in chm))
            what = 'permissions of the file being replaced are copied (creation mode and chmod)'
        ctx.ob('C05.R6', CLS + '._open_part_file', what, ok, loc=C.loc(cr[0].op),
               detail='mode=%s chmod=%s' % (mode, [c.extra for c in chm]), path=trace(evs) if not ok else None)
    ctx.extra['exceptional_exits_checked'] = n
    return C
