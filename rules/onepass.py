"""T3 ONE-PASS: a parameter that may be a one-shot iterator is traversed at most
once on every path.   T23 FIRST-SEEN: a membership-guarded `seen` set is updated
whenever its guard passes."""
import ast

from sa.index import FuncInfo, AnalysisError
from sa.paths import Walker, Model, call_name

CONSUMING_FUNCS = {'list', 'tuple', 'set', 'frozenset', 'sorted', 'dict', 'sum', 'max', 'min', 'any', 'all',
                   'bytes', 'bytearray', 'OrderedDict', 'deque', 'Counter'}
TRANSFER_FUNCS = {'iter', 'zip', 'map', 'filter', 'enumerate', 'chain', 'itertools.chain', 'islice',
                  'itertools.islice', 'tee', 'itertools.tee', 'zip_longest', 'itertools.zip_longest',
                  'chain.from_iterable', 'itertools.chain.from_iterable', 'izip', 'izip_longest'}
CONSUMING_METHODS = {'extend', 'update', 'join', 'writelines', 'union', 'intersection', 'difference',
                     'symmetric_difference', 'issubset', 'issuperset', 'isdisjoint', 'intersection_update',
                     'difference_update', 'symmetric_difference_update', 'fromkeys', 'extendleft'}
REITERABLE_TYPES = {'dict', 'list', 'tuple', 'str', 'bytes', 'set', 'frozenset', 'Mapping', 'Sequence',
                    'OrderedMultiDict', 'OMD', 'ManyToMany', 'OneToOne', 'basestring', 'range'}
PROBES = {'isinstance', 'hasattr', 'getattr', 'callable', 'len', 'bool', 'id', 'type', 'is_iterable',
          'is_scalar', 'is_collection', 'repr', 'str'}


def txt(v):
    try:
        return ' '.join(ast.unparse(v).split())
    except Exception:
        return ''


class PassModel(Model):
    def call_raises(self, walker, op, st):
        return ()


def _is_param(v, p):
    return isinstance(v, ast.Name) and v.id == p


_summary_cache = {}
_summary_stack = []


def consumes(prog, fn, param, recv=None):
    """Does fn start a pass over its parameter `param` on some path?"""
    key = (fn.fq, param, recv.fq if recv else None, prog.digest)
    if key in _summary_cache:
        return _summary_cache[key]
    if key in _summary_stack or len(_summary_stack) > 4:
        return False
    _summary_stack.append(key)
    try:
        res = False
        try:
            w = Walker(prog, PassModel(prog))
            for p in w.paths(fn, recv=recv):
                if starts(prog, w, p, param, fn):
                    res = True
                    break
        except AnalysisError:
            res = True
    finally:
        _summary_stack.pop()
    _summary_cache[key] = res
    return res


def starts(prog, w, path, p, fn):
    """Pass starts on parameter p along a path: list of (op, description, in_loop)."""
    out = []
    for op in path.ops:
        v = op.val
        if op.kind == 'iter_start' and _is_param(v, p):
            out.append((op, 'iteration over %s' % p, op.loop > 0))
        elif op.kind == 'star' and _is_param(v, p):
            out.append((op, 'unpacking *%s' % p, op.loop > 0))
        elif op.kind == 'yield_from' and _is_param(v, p):
            out.append((op, 'yield from %s' % p, op.loop > 0))
        elif op.kind == 'call':
            name = call_name(op.node)
            args = list(v.args) + [k.value for k in v.keywords]
            pos = [i for i, a in enumerate(args) if _is_param(a, p)]
            if not pos:
                continue
            base = name.split('.')[-1] if name.startswith('itertools.') else name
            if name in PROBES:
                continue
            if name in CONSUMING_FUNCS:
                out.append((op, '%s(%s)' % (name, p), op.loop > 0))
            elif name in TRANSFER_FUNCS or base in TRANSFER_FUNCS:
                if name in ('map', 'filter') and pos == [0]:
                    continue
                out.append((op, 'lazy transfer %s(%s)' % (name, p), op.loop > 0))
            elif isinstance(v.func, ast.Attribute) and v.func.attr in CONSUMING_METHODS and \
                    not isinstance(op.info, FuncInfo):
                out.append((op, '.%s(%s)' % (v.func.attr, p), op.loop > 0))
            else:
                callee = op.info
                target = None
                recv = None
                if isinstance(callee, FuncInfo):
                    target, recv = callee, op.recv
                elif isinstance(callee, tuple) and callee[0] == 'class':
                    init = prog.resolve(callee[1], '__init__')
                    if isinstance(init, FuncInfo):
                        target, recv = init, callee[1]
                if target is not None:
                    params = [a.arg for a in target.node.args.posonlyargs + target.node.args.args]
                    if target.cls is not None and not target.is_static():
                        params = params[1:]
                    for i in pos:
                        pname = None
                        if i < len(v.args):
                            pname = params[i] if i < len(params) else (target.node.args.vararg.arg if target.node.args.vararg else None)
                            if i >= len(params) and target.node.args.vararg is not None:
                                # lands in *args: see whether the callee traverses args[0] etc. -> conservative: its vararg
                                pname = None
                                va = target.node.args.vararg.arg
                                if _consumes_vararg_elem(prog, target, va, i - len(params), recv):
                                    out.append((op, 'passed to %s which traverses it' % target.qualname, op.loop > 0))
                                continue
                        else:
                            kw = v.keywords[i - len(v.args)]
                            pname = kw.arg
                        if pname and consumes(prog, target, pname, recv):
                            out.append((op, 'passed to %s which traverses it' % target.qualname, op.loop > 0))
    return out


def _consumes_vararg_elem(prog, fn, va, idx, recv):
    """Callee does something consuming with va[idx] (e.g. self.update_extend(args[0]))."""
    for n in ast.walk(fn.node):
        if isinstance(n, ast.Subscript) and isinstance(n.value, ast.Name) and n.value.id == va:
            return True
    return False


def reiterable_path(w, path, p):
    """The path established that p can be traversed repeatedly (mapping / sequence / the receiver)."""
    for op in path.ops:
        if op.kind != 'test':
            continue
        e = w.expand(op.val)
        neg = False
        while isinstance(e, ast.UnaryOp) and isinstance(e.op, ast.Not):
            neg = not neg
            e = e.operand
        truth = (op.info != neg)
        if isinstance(e, ast.Call) and call_name(e) == 'isinstance' and len(e.args) == 2 and _is_param(e.args[0], p):
            types = e.args[1].elts if isinstance(e.args[1], ast.Tuple) else [e.args[1]]
            names = {txt(t).split('.')[-1] for t in types}
            if truth and names <= REITERABLE_TYPES:
                return True
        if isinstance(e, ast.Call) and call_name(e) == 'hasattr' and len(e.args) == 2 and _is_param(e.args[0], p) \
                and isinstance(e.args[1], ast.Constant) and e.args[1].value in ('keys', 'items', '__getitem__', '__len__'):
            if truth:
                return True
        if isinstance(e, ast.Call) and call_name(e) == 'callable' and e.args and isinstance(e.args[0], ast.Call) \
                and call_name(e.args[0]) == 'getattr' and len(e.args[0].args) >= 2 and _is_param(e.args[0].args[0], p) \
                and isinstance(e.args[0].args[1], ast.Constant) and e.args[0].args[1].value in ('keys', 'items'):
            if truth:
                return True
        if isinstance(e, ast.Compare) and len(e.ops) == 1 and isinstance(e.ops[0], ast.Is) and \
                _is_param(e.left, p) and txt(e.comparators[0]) == 'self' and truth:
            return True
        if isinstance(e, ast.Compare) and len(e.ops) == 1 and isinstance(e.ops[0], ast.Is) and \
                txt(e.left) == 'type(%s)' % p and truth:
            return True
    return False


def check(ctx, fn, param, recv=None, rule='T3'):
    prog = ctx.program
    if param not in fn.params:
        raise AnalysisError('anchor vanished: parameter %s of %s' % (param, fn.fq))
    ctx.saw('functions', fn.fq)
    w = Walker(prog, PassModel(prog))
    paths = [p for p in w.paths(fn, recv=recv) if p.kind != 'cutoff']
    worst = None
    n_starts = 0
    for p in paths:
        if reiterable_path(w, p, param):
            continue
        ss = starts(prog, w, p, param, fn)
        n_starts = max(n_starts, len(ss))
        count = sum(2 if in_loop else 1 for _, _, in_loop in ss)
        if count > 1 and worst is None:
            second = ss[1] if len(ss) > 1 else ss[0]
            worst = (p, ss, second)
    construct = '%s(%s)' % (fn.fq, param)
    if worst:
        p, ss, second = worst
        ctx.ob(rule, construct, 'argument `%s` (may be a one-shot iterator) is traversed more than once on a path: %s'
               % (param, '; then '.join('%s@%d%s' % (d, o.line, ' inside a loop' if il else '') for o, d, il in ss)),
               False, loc='%s:%d' % (fn.module.relpath, second[0].line), path=p.describe())
    else:
        ctx.ob(rule, construct, 'argument `%s` is traversed at most once on each of %d paths' % (param, len(paths)),
               True, loc=fn.loc, detail='max pass starts on a path: %d' % n_starts, nontrivial=n_starts > 0)


# ---------------------------------------------------------------------------
def first_seen(ctx, fn, rule='T23'):
    """In loops of fn: `if x not in S [and ...]: ...; S.add(x)` -- the add must run whenever
    the membership guard passes, else S is not "the keys seen so far"."""
    sets = {}
    aliases = {}
    for n in ast.walk(fn.node):
        if isinstance(n, ast.Assign) and len(n.targets) == 1 and isinstance(n.targets[0], ast.Name):
            v = n.value
            if isinstance(v, ast.Call) and call_name(v) == 'set' and not v.args:
                sets[n.targets[0].id] = n
            elif isinstance(v, ast.Set) or (isinstance(v, ast.Call) and call_name(v) == 'set'):
                sets.setdefault(n.targets[0].id, n)
            elif isinstance(v, ast.Attribute) and v.attr == 'add' and isinstance(v.value, ast.Name):
                aliases[n.targets[0].id] = v.value.id
    found = 0

    def adds_in(nodes, s, x):
        for st in nodes:
            for n in ast.walk(st):
                if isinstance(n, ast.Call) and n.args and txt(n.args[0]) == x:
                    f = n.func
                    if isinstance(f, ast.Attribute) and f.attr == 'add' and txt(f.value) == s:
                        return n
                    if isinstance(f, ast.Name) and aliases.get(f.id) == s:
                        return n
        return None

    def conjuncts(t):
        if isinstance(t, ast.BoolOp) and isinstance(t.op, ast.And):
            out = []
            for v in t.values:
                out += conjuncts(v)
            return out
        return [t]
    for loop in ast.walk(fn.node):
        if not isinstance(loop, (ast.For, ast.While)):
            continue
        for n in ast.walk(loop):
            if not isinstance(n, ast.If):
                continue
            cs = conjuncts(n.test)
            # contradiction: `if x in S: S.add(x)` -- recording as seen what the guard just found to be seen already
            for c in cs:
                if isinstance(c, ast.Compare) and len(c.ops) == 1 and isinstance(c.ops[0], ast.In) and \
                        isinstance(c.comparators[0], ast.Name) and c.comparators[0].id in sets:
                    s2, x2 = c.comparators[0].id, txt(c.left)
                    top_add = any(adds_in([st], s2, x2) is not None and not isinstance(st, (ast.If, ast.For, ast.While, ast.Try))
                                  for st in n.body)
                    if top_add and adds_in(n.orelse, s2, x2) is None:
                        found += 1
                        ctx.ob(rule, fn.fq, '`%s` is added to the seen-set `%s` only under `%s` (where it already is a member): items are '
                               'never recorded on first sight' % (x2, s2, txt(c)), False, loc='%s:%d' % (fn.module.relpath, n.lineno))
            for c in cs:
                if isinstance(c, ast.Compare) and len(c.ops) == 1 and isinstance(c.ops[0], ast.NotIn) and \
                        isinstance(c.comparators[0], ast.Name) and c.comparators[0].id in sets:
                    s, x = c.comparators[0].id, txt(c.left)
                    add_in_body = adds_in(n.body, s, x)
                    if add_in_body is None and adds_in(loop.body, s, x) is None:
                        # not the idiom -- unless nothing ever fills the set: then the membership test is vacuous
                        filled = any(isinstance(m, ast.Call) and (
                            (isinstance(m.func, ast.Attribute) and m.func.attr in ('add', 'update') and txt(m.func.value) == s) or
                            (isinstance(m.func, ast.Name) and aliases.get(m.func.id) == s) or
                            any(isinstance(a, ast.Name) and a.id == s for a in list(m.args) + [k.value for k in m.keywords]))
                            for m in ast.walk(fn.node)) or \
                            any(isinstance(m, (ast.Return, ast.Yield)) and m.value is not None and
                                any(isinstance(a, ast.Name) and a.id == s for a in ast.walk(m.value)) for m in ast.walk(fn.node)) or \
                            any(isinstance(m, ast.AugAssign) and txt(m.target) == s for m in ast.walk(fn.node))
                        if not filled and isinstance(sets[s].value, ast.Call) and not sets[s].value.args:
                            found += 1
                            ctx.ob(rule, fn.fq, 'membership guard `%s` is tested in a loop but nothing ever adds to `%s`: every item '
                                   'looks unseen' % (txt(c), s), False, loc='%s:%d' % (fn.module.relpath, n.lineno))
                        continue
                    found += 1
                    others = [o for o in cs if o is not c]
                    # the add must be unconditional inside the guarded body when other conjuncts exist -> impossible
                    if others and add_in_body is not None and adds_in([st for st in loop.body if st is not n and n not in list(ast.walk(st))], s, x) is None:
                        ctx.ob(rule, fn.fq, 'first-seen set `%s` is only updated when `%s` also holds: an item whose guard '
                               '`%s` passed may not be recorded as seen' % (s, ' and '.join(txt(o) for o in others), txt(c)),
                               False, loc='%s:%d' % (fn.module.relpath, n.lineno))
                    elif add_in_body is None and not others:
                        ctx.ob(rule, fn.fq, 'membership guard `%s` passes but `%s` is not added in the guarded branch'
                               % (txt(c), x), False, loc='%s:%d' % (fn.module.relpath, n.lineno))
                    else:
                        # add must be at the top level of the guarded body (not under a further condition)
                        top = any(adds_in([st], s, x) is not None and not isinstance(st, (ast.If, ast.For, ast.While, ast.Try))
                                  for st in n.body)
                        ctx.ob(rule, fn.fq, 'first-seen set `%s` is updated whenever its guard `%s` passes' % (s, txt(c)),
                               top, loc='%s:%d' % (fn.module.relpath, n.lineno))
    if found == 0:
        ctx.ob(rule, fn.fq, 'no first-seen idiom present (nothing to check)', True, loc=fn.loc, nontrivial=False)


# ---------------------------------------------------------------------------
# T27 PAIR-VIEW: code whose result depends on the order of *all* pairs reads the pair view
KEY_VIEWS = {'keys', 'iterkeys', 'items', 'iteritems', 'values', 'itervalues'}
ENUMERATORS = {'iter', 'reversed', 'list', 'tuple', 'sorted', 'set', 'frozenset', 'dict', 'enumerate', 'len_hint'}


def _is_true(e):
    return isinstance(e, ast.Constant) and e.value is True


def pair_view(ctx, fn, region, subjects, what, rule='T27', prog=None, ci=None, _depth=0):
    """Inside `region` (a list of statements of fn) every enumeration of a subject's content goes through the all-pairs
    view (X.items/keys/values(multi=True), the ring `X.root`, or a private helper of X) and never through the per-key
    view (iteration over X, X.keys()/items()/values() without multi=True, dict.*(X, ...), reversed(X), ...)."""
    nodes = [n for st in region for n in ast.walk(st)]
    # the region only delegates to a private method of self: judge that method's body (subjects renamed to its parameters)
    if prog is not None and ci is not None and _depth < 2:
        calls = [n for n in nodes if isinstance(n, ast.Call) and isinstance(n.func, ast.Attribute) and txt(n.func.value) == 'self'
                 and n.func.attr.startswith('_') and not n.func.attr.startswith('__') and
                 isinstance(prog.resolve(ci, n.func.attr), FuncInfo)]
        if calls and len(region) == 1 and isinstance(region[0], (ast.Return, ast.Expr)) and region[0].value is calls[0]:
            h = prog.resolve(ci, calls[0].func.attr)
            ren = []
            for S in subjects:
                if S == 'self':
                    ren.append('self')
                    continue
                pos = [i for i, a in enumerate(calls[0].args) if isinstance(a, ast.Name) and a.id == S]
                kw = [k.arg for k in calls[0].keywords if isinstance(k.value, ast.Name) and k.value.id == S]
                if pos and pos[0] + 1 < len(h.params):
                    ren.append(h.params[pos[0] + 1])
                elif kw:
                    ren.append(kw[0])
            if len(ren) == len(subjects):
                return pair_view(ctx, h, h.node.body, ren, what, rule=rule, prog=prog, ci=ci, _depth=_depth + 1)
    for S in subjects:
        bad = []
        good = []
        for n in nodes:
            if isinstance(n, (ast.For, ast.comprehension)) and isinstance(n.iter, ast.Name) and n.iter.id == S:
                bad.append((n.iter, 'iteration over `%s` (one step per key)' % S))
            if isinstance(n, ast.Call):
                f = n.func
                if isinstance(f, ast.Name) and f.id in ENUMERATORS and n.args and isinstance(n.args[0], ast.Name) and n.args[0].id == S:
                    bad.append((n, '%s(%s) enumerates keys, not pairs' % (f.id, S)))
                if isinstance(f, ast.Attribute) and isinstance(f.value, ast.Name) and f.value.id == S:
                    if f.attr in KEY_VIEWS:
                        multi = any(k.arg == 'multi' and _is_true(k.value) for k in n.keywords) or \
                            (n.args and _is_true(n.args[0]))
                        (good if multi else bad).append((n, '%s.%s() without multi=True is the per-key view' % (S, f.attr)))
                    elif f.attr.startswith('_') and not f.attr.startswith('__'):
                        good.append((n, 'private helper'))
                if isinstance(f, ast.Attribute) and isinstance(f.value, ast.Name) and f.value.id == 'dict' and n.args and \
                        isinstance(n.args[0], ast.Name) and n.args[0].id == S and f.attr in (
                            KEY_VIEWS | {'__eq__', '__ne__', '__iter__', '__reversed__', 'copy'}):
                    bad.append((n, 'dict.%s(%s, ...) sees one entry per key' % (f.attr, S)))
                if isinstance(f, ast.Attribute) and isinstance(f.value, ast.Call) and txt(f.value.func) == 'super' and S == 'self' and \
                        f.attr in (KEY_VIEWS | {'__eq__', '__ne__', '__iter__', '__reversed__', 'copy'}):
                    bad.append((n, 'super().%s(...) sees one entry per key' % f.attr))
            if isinstance(n, ast.Attribute) and isinstance(n.value, ast.Name) and n.value.id == S and n.attr == 'root':
                good.append((n, 'ring'))
        for n, why in bad:
            ctx.ob(rule, fn.fq, '%s: the content of `%s` is read through the all-pairs view' % (what, S), False,
                   loc='%s:%d' % (fn.module.relpath, n.lineno), detail=why)
        if not bad:
            if good:
                ctx.ob(rule, fn.fq, '%s: the content of `%s` is read through the all-pairs view' % (what, S), True,
                       loc='%s:%d' % (fn.module.relpath, good[0][0].lineno))
            else:
                ctx.unknown(rule, fn.fq, '%s: no read of the content of `%s` recognised' % (what, S), fn.loc)


def splice_shape(ctx, fn, prev='PREV', nxt='NEXT', rule='T28'):
    """Doubly-linked unlink statements are well-formed: in `X[a][b] = X[c]` with {a, b} = {PREV, NEXT}, c is b
    (the neighbour on side a gets X's b-neighbour as its b-link); anything else makes a cell point at itself."""
    n_seen = 0
    for n in ast.walk(fn.node):
        pairs = []
        if isinstance(n, ast.Assign):
            for t in n.targets:
                if isinstance(t, ast.Tuple) and isinstance(n.value, ast.Tuple) and len(t.elts) == len(n.value.elts):
                    pairs += list(zip(t.elts, n.value.elts))
                else:
                    pairs.append((t, n.value))
        for t, v in pairs:
            if not (isinstance(t, ast.Subscript) and isinstance(t.value, ast.Subscript) and isinstance(v, ast.Subscript)):
                continue
            a, b, c = txt(t.value.slice), txt(t.slice), txt(v.slice)
            X, Y = txt(t.value.value), txt(v.value)
            if {a, b} == {prev, nxt} and X == Y and c in (prev, nxt):
                n_seen += 1
                ctx.ob(rule, fn.fq, 'unlink statement `%s = %s` is well-formed (the %s-neighbour\'s %s link becomes the cell\'s '
                       '%s-neighbour)' % (txt(t), txt(v), a, b, b), c == b, loc='%s:%d' % (fn.module.relpath, n.lineno))
    # completeness: an unlink rewires both neighbours -- the forms (PREV, NEXT) and (NEXT, PREV) for the same cell
    forms = {}
    for n in ast.walk(fn.node):
        pairs = []
        if isinstance(n, ast.Assign):
            for t in n.targets:
                if isinstance(t, ast.Tuple) and isinstance(n.value, ast.Tuple) and len(t.elts) == len(n.value.elts):
                    pairs += list(zip(t.elts, n.value.elts))
                else:
                    pairs.append((t, n.value))
        for t, v in pairs:
            if isinstance(t, ast.Subscript) and isinstance(t.value, ast.Subscript) and isinstance(v, ast.Subscript):
                a, b, X, Y = txt(t.value.slice), txt(t.slice), txt(t.value.value), txt(v.value)
                if {a, b} == {prev, nxt} and X == Y:
                    forms.setdefault(X, {})[(a, b)] = n
    for X, fs in forms.items():
        both = (prev, nxt) in fs and (nxt, prev) in fs
        any_n = list(fs.values())[0]
        ctx.ob(rule, fn.fq, 'unlinking `%s` rewires both neighbours (its %s-neighbour\'s %s link and its %s-neighbour\'s %s link)'
               % (X, prev, nxt, nxt, prev), both, loc='%s:%d' % (fn.module.relpath, any_n.lineno))
    return n_seen


def sources_consumed(ctx, fn, sources, rule='T9.consume'):
    """A bulk mutator feeds every element of every source it accepts into self: for each source parameter there is a loop
    over it (or over a local derived from it) whose body stores into / adds to self.  (A loop that only deletes does not
    count; a source that is handed whole to another bulk method of self counts.)"""
    derived = {s_: {s_} for s_ in sources}
    changed = True
    while changed:
        changed = False
        for n in ast.walk(fn.node):
            if isinstance(n, ast.Assign) and len(n.targets) == 1 and isinstance(n.targets[0], ast.Name):
                names = {x.id for x in ast.walk(n.value) if isinstance(x, ast.Name)}
                for s_ in sources:
                    if names & derived[s_] and n.targets[0].id not in derived[s_]:
                        derived[s_].add(n.targets[0].id)
                        changed = True
    aliases = {n.targets[0].id for n in ast.walk(fn.node) if isinstance(n, ast.Assign) and len(n.targets) == 1 and
               isinstance(n.targets[0], ast.Name) and isinstance(n.value, ast.Attribute) and txt(n.value.value) in ('self', 'super()')
               and n.value.attr in ('add', '__setitem__', 'addlist', 'update', 'update_extend')}

    def writes_self(body):
        for st in body:
            for x in ast.walk(st):
                if isinstance(x, ast.Subscript) and isinstance(x.ctx, ast.Store) and txt(x.value) == 'self':
                    return True
                if isinstance(x, ast.Call):
                    f = x.func
                    if isinstance(f, ast.Attribute) and txt(f.value) == 'self' and f.attr in ('add', 'addlist', '__setitem__', 'update', 'update_extend',
                                                                                             'setdefault'):
                        return True
                    if isinstance(f, ast.Name) and f.id in aliases:
                        return True
        return False
    for s_ in sources:
        loops = [n for n in ast.walk(fn.node) if isinstance(n, (ast.For, ast.comprehension)) and
                 {x.id for x in ast.walk(n.iter) if isinstance(x, ast.Name)} & derived[s_]]
        fed = any(isinstance(n, ast.For) and writes_self(n.body) for n in loops)
        whole = any(isinstance(c, ast.Call) and isinstance(c.func, ast.Attribute) and txt(c.func.value) in ('self', 'super()') and
                    c.func.attr in ('update', 'update_extend', 'addlist', '__init__') and
                    any(isinstance(a, ast.Name) and a.id in derived[s_] for a in list(c.args) + [k.value for k in c.keywords])
                    for c in ast.walk(fn.node))
        ctx.ob(rule, fn.fq, 'every element of the source `%s` is fed into self (a loop over it stores/adds, or it is handed to another '
               'bulk method)' % s_, fed or whole, loc=fn.loc, detail='loops over it: %d' % len(loops))

        def deletes_self(body):
            return any(isinstance(x, ast.Delete) and any(isinstance(t, ast.Subscript) and txt(t.value) == 'self' for t in x.targets)
                       or (isinstance(x, ast.Call) and isinstance(x.func, ast.Attribute) and txt(x.func.value) == 'self' and
                           x.func.attr in ('discard', 'remove', 'pop', 'popall', '_discard')) for st in body for x in ast.walk(st))
        self_aliases = {a.targets[0].id for a in ast.walk(fn.node) if isinstance(a, ast.Assign) and len(a.targets) == 1 and
                        isinstance(a.targets[0], ast.Name) and isinstance(a.value, ast.Attribute) and txt(a.value.value) in ('self', 'super()')}

        def calls_self(body):
            return any(isinstance(x, ast.Call) and ((isinstance(x.func, ast.Attribute) and txt(x.func.value) in ('self', 'super()')) or
                                                    (isinstance(x.func, ast.Name) and x.func.id in self_aliases))
                       for st in body for x in ast.walk(st))
        for n in loops:
            if isinstance(n, ast.For) and not writes_self(n.body) and not deletes_self(n.body) and not calls_self(n.body) and \
                    not any(isinstance(x, (ast.Yield, ast.Return, ast.Raise)) for st in n.body for x in ast.walk(st)) and \
                    not any(isinstance(x, ast.Call) and call_name(x) == 'hash' for st in n.body for x in ast.walk(st)):
                ctx.ob(rule, fn.fq, 'a loop over the source `%s` neither stores into self nor removes from it (its elements are dropped)' % s_,
                       False, loc='%s:%d' % (fn.module.relpath, n.lineno))
