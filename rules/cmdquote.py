"""T30 -- args2cmd as a transducer over character classes (abstract interpretation of the quoting loop).

The Microsoft C runtime splits a command line with these rules (the ones subprocess.list2cmdline implements):
backslashes are literal unless they precede a double quote; 2n backslashes + quote = n backslashes and a quote that
toggles quoting; 2n+1 backslashes + quote = n backslashes and a literal quote; blanks/tabs split unless quoted.
An encoder therefore must, per argument,

  start      emit a blank between arguments, and an opening quote iff the argument needs quoting
  '\\'       buffer it (nothing is emitted yet): pending k -> k + 1
  '"'        emit 2k + 1 backslashes and the quote; pending -> 0
  other c    emit the k pending backslashes and c; pending -> 0
  end        emit k backslashes, or -- when the argument is quoted -- 2k backslashes and the closing quote

This module runs the statements of args2cmd's loops over the abstract state  pending = a*k + b  (k: the symbolic number of
pending backslashes on entry) and an emission list, forking on the tests it understands (character class, emptiness of
the buffer, the quoting flag, "is this the first argument") and refusing (ANALYSIS-ERROR) anything it does not.  Every
resulting path must equal the table above; emptiness forks are checked under k = 0.  Nothing is executed.
"""
import ast

from sa.index import AnalysisError
from sa.consteval import Folder, Unknown
from rules.common import txt, strip_not

BS, QT = '\\', '"'


class Lin:
    """a*k + b"""
    __slots__ = ('a', 'b')

    def __init__(self, a, b):
        self.a, self.b = a, b

    def __add__(self, o):
        return Lin(self.a + o.a, self.b + o.b)

    def times(self, n):
        return Lin(self.a * n, self.b * n)

    def at0(self):
        return Lin(0, self.b)

    def key(self):
        return (self.a, self.b)

    def __repr__(self):
        if self.a == 0:
            return str(self.b)
        s = 'k' if self.a == 1 else '%dk' % self.a
        return s if self.b == 0 else '%s+%d' % (s, self.b)


class State:
    def __init__(self, pend, emits=None, conds=None):
        self.pend = pend
        self.emits = list(emits or [])
        self.conds = dict(conds or {})

    def clone(self):
        return State(Lin(self.pend.a, self.pend.b), self.emits, self.conds)

    def emit_bs(self, lin):
        if self.emits and self.emits[-1][0] == 'bs':
            self.emits[-1] = ('bs', self.emits[-1][1] + lin)
        else:
            self.emits.append(('bs', lin))

    def emit_text(self, s):
        for ch in s:
            if ch == BS:
                self.emit_bs(Lin(0, 1))
            elif ch == QT:
                self.emits.append(('q',))
            else:
                self.emits.append(('lit', ch))

    def normal(self, k0=False):
        out = []
        for e in self.emits:
            if e[0] == 'bs':
                lin = e[1].at0() if k0 else e[1]
                if lin.key() == (0, 0):
                    continue
                if out and out[-1][0] == 'bs':
                    out[-1] = ('bs', out[-1][1] + lin)
                else:
                    out.append(('bs', lin))
            else:
                out.append(e)
        return [(e[0], e[1].key()) if e[0] == 'bs' else e for e in out]


class Interp:
    def __init__(self, module, fn, BUF, OUT, CH, NQ, ARG):
        self.folder = Folder(module)
        self.fn, self.BUF, self.OUT, self.CH, self.NQ, self.ARG = fn, BUF, OUT, CH, NQ, ARG
        self.rep = None        # representative character of the class being analysed

    def cval(self, e, env=None):
        try:
            return self.folder.fold(e, env=env)
        except Unknown:
            return None
        except Exception:
            return None

    # ---- expressions -------------------------------------------------------------------------
    def emission(self, e, st):
        """classify an emitted expression"""
        if isinstance(e, ast.Name) and e.id == self.CH:
            if self.rep is None:
                raise AnalysisError('T30: the character variable is emitted outside the character loop')
            st.emit_text(self.rep)
            return
        v = self.cval(e, env={self.CH: self.rep} if self.rep is not None else None)
        if isinstance(v, str):
            st.emit_text(v)
            return
        if self.ARG is not None and any(isinstance(x, ast.Name) and x.id == self.ARG for x in ast.walk(e)):
            # the argument emitted as a whole: <literal> + arg + <literal>.  Sound only where the argument is known to hold no
            # double quote (then every backslash in it is literal -- except a trailing run before a closing quote)
            parts = self.whole_argument(e)
            if parts is None:
                raise AnalysisError('T30: emitted expression `%s` (uses the whole argument) is not understood' % txt(e))
            if st.conds.get('has:' + QT) is not False:
                st.conds['raw_with_quote'] = True
            for kind, val in parts:
                if kind == 'lit':
                    st.emit_text(val)
                else:
                    st.emits.append(('raw',))
            return
        cnt = self.bs_count(e, st)
        if cnt is not None:
            st.emit_bs(cnt)
            return
        raise AnalysisError('T30: emitted expression `%s` is not understood' % txt(e))

    def whole_argument(self, e):
        """[('lit', text) | ('raw', None)] for <literals around the argument>, or None"""
        if isinstance(e, ast.Name) and e.id == self.ARG:
            return [('raw', None)]
        if isinstance(e, ast.BinOp) and isinstance(e.op, ast.Add):
            a, b = self.whole_argument(e.left), self.whole_argument(e.right)
            if a is None:
                va = self.cval(e.left)
                a = [('lit', va)] if isinstance(va, str) else None
            if b is None:
                vb = self.cval(e.right)
                b = [('lit', vb)] if isinstance(vb, str) else None
            return a + b if a is not None and b is not None else None
        if isinstance(e, ast.BinOp) and isinstance(e.op, ast.Mod) and isinstance(e.left, ast.Constant) and isinstance(e.left.value, str):
            r = e.right.elts[0] if isinstance(e.right, ast.Tuple) and len(e.right.elts) == 1 else e.right
            fmt = e.left.value
            if isinstance(r, ast.Name) and r.id == self.ARG and fmt.count('%s') == 1 and fmt.count('%') == 1:
                pre, post = fmt.split('%s')
                return [('lit', pre), ('raw', None), ('lit', post)]
            return None
        if isinstance(e, ast.JoinedStr):
            out = []
            for v in e.values:
                if isinstance(v, ast.Constant) and isinstance(v.value, str):
                    out.append(('lit', v.value))
                elif isinstance(v, ast.FormattedValue) and isinstance(v.value, ast.Name) and v.value.id == self.ARG and \
                        v.conversion == -1 and v.format_spec is None:
                    out.append(('raw', None))
                else:
                    return None
            return out
        return None

    def count_value(self, e, st):
        """Lin value of an integer expression made of int constants, len(BUF), count-valued locals and products with ints"""
        c = self.cval(e)
        if isinstance(c, int) and not isinstance(c, bool):
            return Lin(0, c)
        if isinstance(e, ast.Call) and txt(e.func) == 'len' and len(e.args) == 1 and txt(e.args[0]) == self.BUF:
            return st.pend
        if isinstance(e, ast.Name) and e.id in st.conds.get('locals', {}):
            return st.conds['locals'][e.id]
        if isinstance(e, ast.BinOp) and isinstance(e.op, ast.Mult):
            l, r = self.count_value(e.left, st), self.count_value(e.right, st)
            if l is not None and r is not None:
                if l.a == 0:
                    return r.times(l.b)
                if r.a == 0:
                    return l.times(r.b)
        if isinstance(e, ast.BinOp) and isinstance(e.op, ast.Add):
            l, r = self.count_value(e.left, st), self.count_value(e.right, st)
            if l is not None and r is not None:
                return l + r
        return None

    def bs_count(self, e, st):
        """number of backslashes (Lin) when e is  '\\' * <count>  (either order)  or  ''.join(BUF) [* n]"""
        n = self.bs_multiple(e)
        if n is not None:
            return st.pend.times(n)
        if isinstance(e, ast.BinOp) and isinstance(e.op, ast.Mult):
            for a, b in ((e.left, e.right), (e.right, e.left)):
                if self.cval(a) == BS:
                    cnt = self.count_value(b, st)
                    if cnt is not None:
                        return cnt
        return None

    def bs_multiple(self, e):
        """n when e is  '\\' * len(BUF) [* n]  /  ''.join(BUF) [* n] (n backslashes per pending one), else None"""
        factors = []

        def flat(x):
            if isinstance(x, ast.BinOp) and isinstance(x.op, ast.Mult):
                flat(x.left)
                flat(x.right)
            else:
                factors.append(x)
        flat(e)
        n = 1
        seen_len = seen_bs = joined = False
        for f in factors:
            c = self.cval(f)
            if c == BS and not seen_bs:
                seen_bs = True
            elif isinstance(c, int) and not isinstance(c, bool):
                n *= c
            elif isinstance(f, ast.Call) and txt(f.func) == 'len' and len(f.args) == 1 and txt(f.args[0]) == self.BUF and not seen_len:
                seen_len = True
            elif isinstance(f, ast.Call) and isinstance(f.func, ast.Attribute) and f.func.attr == 'join' and self.cval(f.func.value) == '' \
                    and len(f.args) == 1 and txt(f.args[0]) == self.BUF and not joined:
                joined = True
            else:
                return None
        if (seen_len and seen_bs and not joined) or (joined and not seen_len and not seen_bs):
            return n
        return None

    def buf_multiple(self, e):
        """n when e is BUF / BUF * n / BUF + BUF (a list of n backslashes per pending one)"""
        if isinstance(e, ast.Name) and e.id == self.BUF:
            return 1
        if isinstance(e, ast.BinOp) and isinstance(e.op, ast.Mult):
            for a, b in ((e.left, e.right), (e.right, e.left)):
                n = self.cval(b)
                if isinstance(a, ast.Name) and a.id == self.BUF and isinstance(n, int) and not isinstance(n, bool):
                    return n
        if isinstance(e, ast.BinOp) and isinstance(e.op, ast.Add):
            l, r = self.buf_multiple(e.left), self.buf_multiple(e.right)
            if l is not None and r is not None:
                return l + r
        return None

    # ---- tests ---------------------------------------------------------------------------------
    def branches(self, test, st):
        """[(truth, state)] for the outcomes of `test` that are possible in st"""
        e, neg = strip_not(test)
        if isinstance(e, ast.BoolOp):
            # evaluate left to right with short-circuit
            outs = []
            pending = [(st, None)]
            is_and = isinstance(e.op, ast.And)
            for v in e.values:
                nxt = []
                for s, decided in pending:
                    if decided is not None:
                        nxt.append((s, decided))
                        continue
                    for t, s2 in self.branches(v, s):
                        if is_and and not t:
                            nxt.append((s2, False))
                        elif (not is_and) and t:
                            nxt.append((s2, True))
                        else:
                            nxt.append((s2, None))
                pending = nxt
            for s, decided in pending:
                t = decided if decided is not None else is_and
                outs.append((t != neg, s))
            return outs
        names = {x.id for x in ast.walk(e) if isinstance(x, ast.Name)}
        # character class
        if self.rep is not None and self.CH in names and names <= {self.CH}:
            v = self.cval(e, env={self.CH: self.rep})
            if v is None:
                raise AnalysisError('T30: cannot evaluate the character test `%s`' % txt(e))
            return [(bool(v) != neg, st)]
        # emptiness of the backslash buffer
        is_buf = (isinstance(e, ast.Name) and e.id == self.BUF) or \
            (isinstance(e, ast.Call) and txt(e.func) == 'len' and e.args and txt(e.args[0]) == self.BUF)
        cmp_len = isinstance(e, ast.Compare) and len(e.ops) == 1 and isinstance(e.left, ast.Call) and txt(e.left.func) == 'len' and \
            e.left.args and txt(e.left.args[0]) == self.BUF and self.cval(e.comparators[0]) == 0 and \
            isinstance(e.ops[0], (ast.Gt, ast.NotEq, ast.Eq))
        if is_buf or cmp_len:
            flip = neg != (cmp_len and isinstance(e.ops[0], ast.Eq))
            p = st.pend
            if p.a == 0:
                return [((p.b > 0) != flip, st)]
            if p.b > 0:
                return [(True != flip, st)]
            if 'k0' in st.conds:
                return [((not st.conds['k0']) != flip, st)]
            s0, s1 = st.clone(), st.clone()
            s0.conds['k0'] = True
            s0.pend = Lin(0, 0)
            s1.conds['k0'] = False
            return [(False != flip, s0), (True != flip, s1)]
        # the quoting flag
        if isinstance(e, ast.Name) and e.id == self.NQ:
            if 'nq' in st.conds:
                return [(st.conds['nq'] != neg, st)]
            s0, s1 = st.clone(), st.clone()
            s0.conds['nq'] = False
            s1.conds['nq'] = True
            return [(False != neg, s0), (True != neg, s1)]
        # "something was emitted before" = not the first argument
        if isinstance(e, ast.Name) and e.id == self.OUT:
            if 'first' in st.conds:
                return [((not st.conds['first']) != neg, st)]
            s0, s1 = st.clone(), st.clone()
            s0.conds['first'] = True
            s1.conds['first'] = False
            return [(False != neg, s0), (True != neg, s1)]
        # `<char> in arg` / `<char> not in arg`: a fact about the whole argument
        if isinstance(e, ast.Compare) and len(e.ops) == 1 and isinstance(e.ops[0], (ast.In, ast.NotIn)) and \
                isinstance(e.comparators[0], ast.Name) and e.comparators[0].id == self.ARG:
            ch = self.cval(e.left)
            if isinstance(ch, str) and len(ch) == 1:
                key = 'has:' + ch
                flip = neg != isinstance(e.ops[0], ast.NotIn)
                if key in st.conds:
                    return [(st.conds[key] != flip, st)]
                s0, s1 = st.clone(), st.clone()
                s0.conds[key] = False
                s1.conds[key] = True
                return [(False != flip, s0), (True != flip, s1)]
        raise AnalysisError('T30: test `%s` is not understood' % txt(test))

    # ---- statements ---------------------------------------------------------------------------
    def run(self, stmts, st):
        """[(state, outcome)] with outcome in fall / continue / break"""
        states = [(st, 'fall')]
        for s in stmts:
            nxt = []
            for cur, oc in states:
                if oc != 'fall':
                    nxt.append((cur, oc))
                    continue
                nxt.extend(self.stmt(s, cur))
            states = nxt
        return states

    def stmt(self, s, st):
        if isinstance(s, ast.Pass):
            return [(st, 'fall')]
        if isinstance(s, ast.Continue):
            return [(st, 'continue')]
        if isinstance(s, ast.Break):
            return [(st, 'break')]
        if isinstance(s, ast.If):
            out = []
            for truth, s2 in self.branches(s.test, st):
                out.extend(self.run(s.body if truth else s.orelse, s2))
            return out
        if isinstance(s, ast.Expr) and isinstance(s.value, ast.Constant):
            return [(st, 'fall')]
        if isinstance(s, ast.Expr) and isinstance(s.value, ast.Call) and isinstance(s.value.func, ast.Attribute):
            c = s.value
            recv, meth = txt(c.func.value), c.func.attr
            st = st.clone()
            if recv == self.OUT and meth == 'append' and len(c.args) == 1:
                self.emission(c.args[0], st)
                return [(st, 'fall')]
            if recv == self.OUT and meth == 'extend' and len(c.args) == 1:
                n = self.buf_multiple(c.args[0])
                if n is not None:
                    st.emit_bs(st.pend.times(n))
                    return [(st, 'fall')]
                if isinstance(c.args[0], (ast.List, ast.Tuple)):
                    for x in c.args[0].elts:
                        self.emission(x, st)
                    return [(st, 'fall')]
                raise AnalysisError('T30: `%s` extends the output with something not understood' % txt(c))
            if recv == self.BUF and meth == 'append' and len(c.args) == 1:
                a = c.args[0]
                is_bs = (isinstance(a, ast.Name) and a.id == self.CH and self.rep == BS) or self.cval(a) == BS
                if not is_bs:
                    st.conds['buffered_non_backslash'] = txt(a)
                st.pend = st.pend + Lin(0, 1)
                return [(st, 'fall')]
            if recv == self.BUF and meth == 'clear' and not c.args:
                st.pend = Lin(0, 0)
                return [(st, 'fall')]
            raise AnalysisError('T30: call `%s` is not understood' % txt(c))
        if isinstance(s, ast.Assign) and len(s.targets) == 1 and isinstance(s.targets[0], ast.Name):
            t = s.targets[0].id
            if t == self.BUF:
                v = s.value
                if (isinstance(v, ast.List) and not v.elts) or (isinstance(v, ast.Call) and txt(v.func) == 'list' and not v.args):
                    st = st.clone()
                    st.pend = Lin(0, 0)
                    return [(st, 'fall')]
                raise AnalysisError('T30: the backslash buffer is assigned `%s`' % txt(v))
            if t == self.NQ:
                st = st.clone()
                st.conds.pop('nq', None)          # recomputed for this argument: unknown again
                return [(st, 'fall')]
            if t == self.OUT and not st.emits and ((isinstance(s.value, ast.List) and not s.value.elts) or
                                                   (isinstance(s.value, ast.Call) and txt(s.value.func) == 'list' and not s.value.args)):
                return [(st, 'fall')]           # the output list of a per-argument helper starts empty
            if t in (self.OUT, self.CH, self.ARG):
                raise AnalysisError('T30: `%s` is re-bound inside the loop' % t)
            cv = self.count_value(s.value, st)
            if cv is not None:
                st = st.clone()
                loc_ = dict(st.conds.get('locals', {}))
                loc_[t] = cv
                st.conds['locals'] = loc_
                return [(st, 'fall')]
            # a local that the emissions do not mention is irrelevant; one that they mention is not understood
            used = any(isinstance(x, ast.Name) and x.id == t for n in ast.walk(self.fn.node) if isinstance(n, ast.Call)
                       and isinstance(n.func, ast.Attribute) and txt(n.func.value) in (self.OUT, self.BUF) for x in ast.walk(n))
            if used:
                raise AnalysisError('T30: local `%s` feeds an emission and is not understood' % t)
            return [(st, 'fall')]
        if isinstance(s, ast.Delete) and len(s.targets) == 1 and txt(s.targets[0]) == '%s[:]' % self.BUF:
            st = st.clone()
            st.pend = Lin(0, 0)
            return [(st, 'fall')]
        raise AnalysisError('T30: statement `%s` is not understood' % txt(s)[:60])


def check(ctx, fn, BUF, OUT, CH, NQ, rule='T30', outer=None, helper_call=None):
    """fn = FuncInfo holding the quoting state machine with its roles already discovered: args2cmd itself (the machine is the
    body of its loop over the arguments), or a private per-argument helper (the machine is the helper's body; `outer` is
    args2cmd and `helper_call` the call that hands one argument to the helper)."""
    mod = fn.module
    loc_ = lambda n: '%s:%d' % (mod.relpath, getattr(n, 'lineno', fn.node.lineno))       # noqa: E731
    sep_stmts = None
    if outer is None:
        arg_loops = [n for n in ast.walk(fn.node) if isinstance(n, ast.For) and txt(n.target) != CH and
                     any(isinstance(x, ast.For) and txt(x.target) == CH for x in n.body)]
        if len(arg_loops) != 1:
            raise AnalysisError('T30: expected one loop over the arguments directly containing the character loop')
        al = arg_loops[0]
        ARG = txt(al.target)
        body = al.body
    else:
        # per-argument helper: its whole body is the machine; it returns the pieces of one argument
        al = fn.node
        ARG = fn.params[0] if fn.params else None
        body = [st for st in fn.node.body if not (isinstance(st, ast.Expr) and isinstance(st.value, ast.Constant))]
        if not (body and isinstance(body[-1], ast.Return) and txt(body[-1].value) == OUT):
            raise AnalysisError('T30: the per-argument helper does not end by returning its output list')
        body = body[:-1]
        # the separator logic stays in the caller: the statements of its loop before the pieces of the argument are added
        oloops = [n for n in ast.walk(outer.node) if isinstance(n, ast.For) and any(helper_call is x for x in ast.walk(n))]
        if len(oloops) != 1:
            raise AnalysisError('T30: the caller does not hand the arguments to the helper from one loop')
        ol = oloops[0]
        hs = next(st for st in ol.body if any(helper_call is x for x in ast.walk(st)))
        if not (isinstance(hs, ast.Expr) and isinstance(hs.value, ast.Call) and isinstance(hs.value.func, ast.Attribute) and
                hs.value.func.attr == 'extend' and hs.value.args and hs.value.args[0] is helper_call and
                txt(helper_call.args[0]) == txt(ol.target)):
            raise AnalysisError('T30: the pieces returned by the helper are not added with <out>.extend(helper(arg))')
        OUTER_OUT = txt(hs.value.func.value)
        sep_stmts = (ol.body[:ol.body.index(hs)], ol.body[ol.body.index(hs) + 1:], OUTER_OUT, ol)
    idx = next((i for i, x in enumerate(body) if isinstance(x, ast.For) and txt(x.target) == CH), None)
    if idx is None:
        raise AnalysisError('T30: the character loop is not a direct statement of the per-argument code')
    ch_loop = body[idx]
    if ch_loop.orelse or txt(ch_loop.iter) != ARG:
        raise AnalysisError('T30: the character loop is not a plain `for c in <argument>`')
    prefix, suffix = body[:idx], body[idx + 1:]
    I = Interp(mod, fn, BUF, OUT, CH, NQ, ARG)
    K = lambda: Lin(1, 0)          # noqa: E731

    def report(what, ok, node, detail=''):
        ctx.ob(rule, fn.fq, what, ok, loc=loc_(node), detail=detail)

    def show(st, k0=False):
        return ' '.join('\\x%s' % (Lin(*e[1]),) if e[0] == 'bs' else '"' if e[0] == 'q' else repr(e[1]) for e in st.normal(k0)) or '(nothing)'
    # -- per character class
    spec = {
        BS: ([], Lin(1, 1)),
        QT: ([('bs', (2, 1)), ('q',)], Lin(0, 0)),
        'x': ([('bs', (1, 0)), ('lit', 'x')], Lin(0, 0)),
        ' ': ([('bs', (1, 0)), ('lit', ' ')], Lin(0, 0)),
    }
    names = {BS: 'a backslash', QT: 'a double quote', 'x': 'any other character', ' ': 'a blank'}
    for rep in (BS, QT, 'x', ' '):
        I.rep = rep
        outs = I.run(ch_loop.body, State(K()))
        want_e, want_p = spec[rep]
        ok = bool(outs)
        det = ''
        for st, oc in outs:
            k0 = st.conds.get('k0') is True
            we = [(e[0], Lin(*e[1]).at0().key()) if (e[0] == 'bs' and k0) else e for e in want_e]
            we = [e for e in we if not (e[0] == 'bs' and e[1] == (0, 0))]
            wp = want_p.at0() if k0 else want_p
            good = st.normal(k0) == we and st.pend.key() == wp.key() and oc in ('fall', 'continue') and \
                'buffered_non_backslash' not in st.conds
            if not good:
                ok = False
                det = 'emits %s and leaves %s pending%s' % (show(st, k0), st.pend, ' (when none was pending)' if k0 else '')
        report('on %s with k backslashes pending the loop %s' % (
            names[rep], {BS: 'emits nothing and has k+1 pending', QT: 'emits 2k+1 backslashes and the quote, none pending',
                         'x': 'emits the k backslashes and the character, none pending',
                         ' ': 'emits the k backslashes and the blank, none pending'}[rep]), ok, ch_loop, det)
    I.rep = None
    # -- end of an argument
    outs = I.run(suffix, State(K()))
    for want_nq in (False, True):
        sel = [(st, oc) for st, oc in outs if st.conds.get('nq', want_nq) == want_nq]
        ok = bool(sel)
        det = ''
        for st, oc in sel:
            k0 = st.conds.get('k0') is True
            we = [('bs', (2, 0)), ('q',)] if want_nq else [('bs', (1, 0))]
            if k0:
                we = [e for e in we if e[0] != 'bs']
            if st.normal(k0) != we:
                ok = False
                det = 'emits %s%s' % (show(st, k0), ' (when none was pending)' if k0 else '')
        report('at the end of %s argument the k pending backslashes are emitted %s' % (
            'a quoted' if want_nq else 'an unquoted', 'twice, then the closing quote' if want_nq else 'once'), ok,
            suffix[0] if suffix else al, det)
    # -- start of an argument: buffer empty at the first character, separator and opening quote
    if sep_stmts is not None:
        before, after, OUTER_OUT, ol = sep_stmts
        I2 = Interp(mod, outer, BUF, OUTER_OUT, CH, NQ, txt(ol.target))
        souts = I2.run(before, State(Lin(0, 0)))
        ok = bool(souts) and any('first' in st.conds for st, oc in souts)
        det = ''
        for st, oc in souts:
            we = [] if st.conds.get('first', True) else [('lit', ' ')]
            if st.normal(True) != we:
                ok = False
                det = 'first=%s emits %s' % (st.conds.get('first'), st.normal(True))
        if after:
            ok = False
            det = 'statements after the pieces of an argument are added: not understood'
        report('an argument is preceded by a blank unless it is the first (in the caller of the per-argument helper)', ok, ol, det)
    outs = I.run(prefix, State(Lin(1, 0)))
    # a path of the prefix that emits the argument as a whole and skips the character loop
    whole = [(st, oc) for st, oc in outs if any(e[0] == 'raw' for e in st.emits)]
    outs = [(st, oc) for st, oc in outs if not any(e[0] == 'raw' for e in st.emits)]
    for st, oc in whole:
        first, nq = st.conds.get('first'), st.conds.get('nq')
        got = [e for e in st.normal(True) if e[0] != 'bs']
        sepw = [] if first in (True, None) else [('lit', ' ')]
        # sound only for an argument without a double quote, emitted unquoted (k trailing backslashes stay k), as the last thing
        # done for the argument.  Inside quotes the trailing backslashes would have to be doubled before the closing quote.
        okw = oc == 'continue' and 'raw_with_quote' not in st.conds and nq is False and got == sepw + [('raw',)]
        why = 'the argument may contain a double quote' if 'raw_with_quote' in st.conds else \
            'a quoted argument is emitted as it is: its trailing backslashes are not doubled before the closing quote' if nq is not False \
            else 'emits %s' % got
        report('an argument emitted as a whole (fast path) holds no double quote and is not quoted', okw, prefix[0] if prefix else al,
               '' if okw else why)
    reset_in_prefix = bool(outs) and all(st.pend.key() == (0, 0) for st, oc in outs)
    if not reset_in_prefix:
        # accepted alternative: reset at the end of every argument and before the first one
        ends = I.run(suffix, State(K()))
        before = [n for n in fn.node.body if n.lineno < al.lineno] if outer is None else []
        init = I.run([n for n in before if isinstance(n, ast.Assign) and txt(n.targets[0]) == BUF], State(K())) if before else []
        reset_in_prefix = bool(ends) and all(st.pend.key() == (0, 0) for st, oc in ends) and bool(init) and \
            all(st.pend.key() == (0, 0) for st, oc in init)
    report('every argument starts with no backslash pending (the buffer is reset per argument)', reset_in_prefix, al)
    ok = bool(outs)
    det = ''
    for st, oc in outs:
        first, nq = st.conds.get('first'), st.conds.get('nq')
        we = ([] if first in (True, None) and first is not False else [('lit', ' ')])
        if first is None:
            # the separator test was not taken on this path: then nothing may have been emitted for it
            we = []
        if nq:
            we = we + [('q',)]
        got = [e for e in st.normal(True) if e[0] != 'bs']
        if got != we:
            ok = False
            det = 'first=%s quoted=%s emits %s' % (first, nq, show(st, True))
    sep_tested = any('first' in st.conds for st, oc in outs) or sep_stmts is not None
    report('an argument is preceded by a blank unless it is the first, and by an opening quote iff it is quoted',
           ok and sep_tested, prefix[0] if prefix else al, det)
