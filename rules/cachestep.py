"""C02 rules for cacheutils.LRI / LRU: the dict storage, the key->link table and
the ring change in lock-step on every path (T2), capacity guard (T7), counters
(T9/T11), on_miss caching, copy() as an observer (T8), clear() resets (T18)."""
import ast

from sa.index import Builtin, FuncInfo, DICT_MUTATORS, AnalysisError
from sa.paths import Walker, Model, call_name
from sa.access import accesses, view_of, root_of
from rules.locks import is_private, is_module_helper, NOT_OPERATIONS

LOOKUP = '_link_lookup'
ANCHOR = '_anchor'
COUNTERS = ('hit_count', 'miss_count', 'soft_miss_count')


def txt(v):
    if v is None:
        return ''
    try:
        return ' '.join(ast.unparse(v).split())
    except Exception:
        return ''


class CacheModel(Model):
    """Private helpers inlined; lookups in the link table and C-level dict
    lookups raise KeyError; user callbacks raise anything."""

    def inline(self, walker, op, callee, st):
        if callee.cls is None:
            return is_module_helper(op, callee)
        rv = op.recv_val
        rname = rv.id if isinstance(rv, ast.Name) else None
        if rname == 'self':
            return is_private(callee.name)
        if rname and rname.startswith('$new'):
            return False
        return False

    def _key_known_present(self, walker, st, key):
        """Invariant-based feasibility: the dict storage and the link table hold the
        same keys on entry (the property being proved, used inductively), so once a
        lookup/removal of `key` has succeeded in one of them on this path, the
        corresponding access of the *other* one cannot raise KeyError."""
        t = st.trace
        later_raise = None
        while t is not None:
            o = t[0]
            t = t[1]
            if o.kind == 'raise_at':
                later_raise = o.node
                continue
            hit = False
            if o.kind in ('sub_load', 'sub_del') and isinstance(o.val.value, ast.Attribute) \
                    and o.val.value.attr == LOOKUP and txt(o.val.slice) == key:
                hit = True
            elif o.kind == 'call' and isinstance(o.val.func, ast.Attribute):
                f = o.val.func
                if f.attr in ('pop', '__delitem__', '__getitem__') and o.val.args:
                    a0 = o.val.args[0]
                    if isinstance(o.info, Builtin) and o.info.base == 'dict':
                        if f.attr in ('pop', '__delitem__', '__getitem__'):
                            args = o.val.args[1:] if isinstance(f.value, ast.Name) and f.value.id == 'dict' else o.val.args
                            hit = bool(args) and txt(args[0]) == key
                    elif isinstance(f.value, ast.Attribute) and f.value.attr == LOOKUP:
                        hit = txt(a0) == key
                elif f.attr == 'popitem' and isinstance(o.info, Builtin):
                    for name, info in walker.tokens.items():
                        if info[0] == 'call' and len(info) > 2 and info[2] is o and key == '%s[0]' % name:
                            hit = True
            if hit and later_raise is not o.node:
                return True
            later_raise = None
        return False

    def sub_raises(self, walker, op, st):
        if op.kind in ('sub_load', 'sub_del'):
            base = op.val.value
            if isinstance(base, ast.Attribute) and base.attr == LOOKUP:
                if self._key_known_present(walker, st.clone(trace=st.trace[1]), txt(op.val.slice)):
                    return ()
                return ('KeyError',)
            if isinstance(base, ast.Name) and base.id == 'self' and walker.root_recv is not None:
                d = '__getitem__' if op.kind == 'sub_load' else '__delitem__'
                m = self.program.resolve(walker.root_recv, d)
                if isinstance(m, FuncInfo):
                    return walker.escape_types(m, walker.root_recv)
                return ('KeyError',)
        return ()

    def call_raises(self, walker, op, st):
        v = op.val
        if isinstance(v.func, ast.Attribute) and v.func.attr == 'pop' and \
                isinstance(v.func.value, ast.Attribute) and v.func.value.attr == LOOKUP:
            if len(v.args) == 1 and self._key_known_present(walker, st.clone(trace=st.trace[1]), txt(v.args[0])):
                return ()
            return ('KeyError',) if len(v.args) == 1 else ()
        if isinstance(op.info, Builtin) and op.info.base == 'dict' and \
                op.info.name in ('pop', '__delitem__', '__getitem__'):
            args = v.args[1:] if (isinstance(v.func.value, ast.Name) and v.func.value.id == 'dict') else v.args
            if args and self._key_known_present(walker, st.clone(trace=st.trace[1]), txt(args[0])):
                return ()
        if isinstance(v.func, ast.Attribute) and v.func.attr == 'on_miss':
            return ('Exception',)
        name = call_name(v)
        if name in ('ValueError', 'TypeError', 'KeyError'):
            return ()
        return super().call_raises(walker, op, st)


class Eff:
    __slots__ = ('kind', 'key', 'val', 'op', 'ok')

    def __init__(self, kind, key, val, op, ok=True):
        self.kind, self.key, self.val, self.op, self.ok = kind, key, val, op, ok

    def __repr__(self):
        return '%s(%s)@%d%s' % (self.kind, self.key, self.op.line, '' if self.ok else '!')


def effects(w, path):
    """Storage / link-table / ring effects along one path (helpers inlined)."""
    out = []
    ops = path.ops
    for i, op in enumerate(ops):
        raised = (i + 1 < len(ops) and ops[i + 1].kind == 'raise_at' and ops[i + 1].node is op.node)
        v = op.val
        if op.kind == 'call':
            for a in accesses(w, op):
                if a.obj != 'self' or a.kind != 'builtin' or a.target.base != 'dict':
                    continue
                args = [x for x in v.args]
                if a.via == 'explicit-base':
                    args = args[1:]
                if a.name == '__setitem__' and len(args) >= 2:
                    out.append(Eff('P_SET', txt(args[0]), txt(args[1]), op, not raised))
                elif a.name in ('__delitem__',) and args:
                    out.append(Eff('P_DEL', txt(args[0]), None, op, not raised))
                elif a.name == 'pop' and args:
                    out.append(Eff('P_DEL', txt(args[0]), None, op, not raised))
                elif a.name == 'popitem':
                    # key of the removed item = result[0]
                    out.append(Eff('P_DEL', None, None, op, not raised))
                elif a.name == 'clear':
                    out.append(Eff('P_CLEAR', None, None, op, not raised))
                elif a.name in ('update', '__ior__', 'setdefault', '__init__'):
                    out.append(Eff('P_BULK', a.name, None, op, not raised))
            f = v.func
            if isinstance(f, ast.Attribute) and isinstance(f.value, ast.Attribute) and \
                    f.value.attr == LOOKUP and root_of(f.value) == 'self':
                if f.attr == 'pop' and v.args:
                    out.append(Eff('L_DEL', txt(v.args[0]), None, op, not raised))
                elif f.attr in ('clear',):
                    out.append(Eff('L_CLEAR', None, None, op, not raised))
                elif f.attr in ('update', 'setdefault', 'popitem', '__setitem__', '__delitem__'):
                    out.append(Eff('L_OTHER', f.attr, None, op, not raised))
        elif op.kind == 'sub_store':
            base = v.value
            if isinstance(base, ast.Attribute) and base.attr == LOOKUP and root_of(base) == 'self':
                out.append(Eff('L_SET', txt(v.slice), txt(op.info), op))
            elif isinstance(base, ast.Name) and base.id == 'self':
                out.append(Eff('OP_SET', txt(v.slice), txt(op.info), op))
            elif txt(v.slice) == 'VALUE':
                out.append(Eff('LINK_VALUE', txt(base), txt(op.info), op))
            elif txt(v.slice) in ('KEY',):
                out.append(Eff('LINK_KEY', txt(base), txt(op.info), op))
            elif txt(v.slice) in ('PREV', 'NEXT'):
                out.append(Eff('SPLICE', txt(base), txt(op.info), op))
        elif op.kind == 'sub_del':
            base = v.value
            if isinstance(base, ast.Attribute) and base.attr == LOOKUP and root_of(base) == 'self':
                out.append(Eff('L_DEL', txt(v.slice), None, op, not raised))
            elif isinstance(base, ast.Name) and base.id == 'self':
                out.append(Eff('OP_DEL', txt(v.slice), None, op, not raised))
        elif op.kind == 'sub_load':
            base = v.value
            if isinstance(base, ast.Attribute) and base.attr == LOOKUP and root_of(base) == 'self':
                out.append(Eff('L_GET', txt(v.slice), None, op, not raised))
            elif isinstance(base, ast.Name) and base.id == 'self':
                out.append(Eff('OP_GET', txt(v.slice), None, op, not raised))
        elif op.kind == 'attr_store':
            if isinstance(v.value, ast.Name) and v.value.id == 'self':
                if v.attr == LOOKUP:
                    out.append(Eff('L_RESET', None, txt(w.expand(op.info)) if op.info is not None else '', op))
                elif v.attr == ANCHOR:
                    out.append(Eff('A_SET', None, txt(op.info), op))
                elif v.attr in COUNTERS:
                    out.append(Eff('COUNT', v.attr, txt(op.info), op))
                else:
                    out.append(Eff('FIELD', v.attr, txt(op.info), op))
    return out


def popitem_key(w, eff):
    """Text of the key removed by a dict.popitem() effect: <result>[0]."""
    # the call op's result token is the next name_store / its token; find by scanning tokens
    for name, info in w.tokens.items():
        if info[0] == 'call' and len(info) > 2 and info[2] is eff.op:
            return '%s[0]' % name
    return None


def canon_size_lt_cap(w, tv):
    """True if test value tv means `size(self) < self.max_size` when it is true;
    'le' if it means size <= cap; False for the negations; None if unrelated."""
    neg = False
    v = tv
    while isinstance(v, ast.UnaryOp) and isinstance(v.op, ast.Not):
        neg = not neg
        v = v.operand
    if not (isinstance(v, ast.Compare) and len(v.ops) == 1):
        return None
    l, r, op = v.left, v.comparators[0], v.ops[0]

    def lin(e):
        """(kind, offset) for size/cap expressions with integer offset."""
        off = 0
        while isinstance(e, ast.BinOp) and isinstance(e.op, (ast.Add, ast.Sub)) and \
                isinstance(e.right, ast.Constant) and isinstance(e.right.value, int):
            off += e.right.value if isinstance(e.op, ast.Add) else -e.right.value
            e = e.left
        e2 = w.expand(e)
        t = txt(e2)
        if t in ('len(self)', 'len(self.%s)' % LOOKUP, 'super().__len__()', 'self.__len__()',
                 'dict.__len__(self)'):
            return 'size', off
        if t == 'self.max_size':
            return 'cap', off
        return None, 0
    lk, lo = lin(l)
    rk, ro = lin(r)
    if {lk, rk} != {'size', 'cap'}:
        return None
    # normalise to: size + d  OP  cap   (d integer)
    if lk == 'size':
        d = lo - ro
        opn = type(op).__name__
    else:
        d = ro - lo
        opn = {'Lt': 'Gt', 'Gt': 'Lt', 'LtE': 'GtE', 'GtE': 'LtE', 'Eq': 'Eq', 'NotEq': 'NotEq'}.get(type(op).__name__)
    if neg:
        opn = {'Lt': 'GtE', 'GtE': 'Lt', 'Gt': 'LtE', 'LtE': 'Gt', 'Eq': 'NotEq', 'NotEq': 'Eq'}.get(opn)
    # size + d < cap  <=> size < cap - d ; we need size < cap i.e. size + 1 <= cap
    if opn == 'Lt':          # size + d < cap
        return 'lt' if d >= 0 else 'weak'
    if opn == 'LtE':         # size + d <= cap
        return 'lt' if d >= 1 else 'weak'
    if opn == 'NotEq' and d == 0:
        return 'ne'          # size != cap: equivalent to size < cap only under the invariant size <= cap
    return 'no'


def check_class(ctx, cls_fq):
    prog = ctx.program
    ci = prog.cls(cls_fq)
    model = CacheModel(prog)
    ctx.saw('classes', cls_fq)

    # ---- T1 mutator closure ---------------------------------------------------
    for name in DICT_MUTATORS:
        if name == '__init__':
            continue
        m = prog.resolve(ci, name)
        ctx.ob('T1', '%s.%s' % (cls_fq, name),
               'dict mutator is overridden by the cache (the C-level dict method would bypass size limit, '
               'ring and link table)', isinstance(m, FuncInfo),
               loc='%s:%d' % (ci.module.relpath, m.node.lineno if isinstance(m, FuncInfo) else ci.node.lineno),
               detail='resolves to %r' % (m,))

    # ---- walk all repository methods of the class ----------------------------------
    n_paths = 0
    counter_writers = {}
    for name in prog.public_api(ci):
        m = prog.resolve(ci, name)
        if not isinstance(m, FuncInfo) or m.is_property() or m.is_static() or m.is_classmethod():
            continue
        if is_private(name):
            # counters written by helpers would be seen inlined; record raw writers
            for n in ast.walk(m.node):
                if isinstance(n, ast.Attribute) and isinstance(n.ctx, ast.Store) and n.attr in COUNTERS:
                    counter_writers.setdefault(n.attr, set()).add(name)
            continue
        for n in ast.walk(m.node):
            if isinstance(n, ast.Attribute) and isinstance(n.ctx, ast.Store) and n.attr in COUNTERS:
                counter_writers.setdefault(n.attr, set()).add(name)
            if isinstance(n, ast.Attribute) and isinstance(n.ctx, ast.Store) and n.attr == 'max_size' \
                    and name != '__init__':
                ctx.ob('T11.cap', '%s.%s' % (cls_fq, name), 'max_size is assigned only by __init__', False,
                       loc='%s:%d' % (m.module.relpath, n.lineno))
        ctx.saw('functions', m.fq)
        construct = '%s.%s' % (cls_fq, name)
        w = Walker(prog, model)
        paths = [p for p in w.paths(m, recv=ci) if p.kind != 'cutoff']
        n_paths += len(paths)
        if name == '__init__':
            check_init(ctx, w, m, construct, paths)
            continue
        lockstep(ctx, w, m, construct, paths)
        # every operation that can add a key (not only __setitem__: a bulk operation with its own "there is room" shortcut
        # bypasses the capacity test just as well)
        capacity(ctx, w, m, construct, paths, require=(name == '__setitem__'))
        if name == '__getitem__':
            counters_getitem(ctx, w, m, construct, paths)
        if name in ('get', 'setdefault'):
            counters_soft(ctx, w, m, construct, paths)
        if name == 'copy':
            copy_observer(ctx, w, m, construct, paths)
        if name == 'clear':
            clear_resets(ctx, w, m, construct, paths)
    # ---- T11 counter writers ---------------------------------------------------------
    allowed = {'hit_count': {'__init__', '__getitem__'}, 'miss_count': {'__init__', '__getitem__'},
               'soft_miss_count': {'__init__', 'get', 'setdefault'}}
    # a private helper that writes a counter writes it on behalf of the methods that (transitively) call it
    callers = {}
    for c2 in prog.mro(ci):
        for mm in getattr(c2, 'members', {}).values():
            if isinstance(mm, FuncInfo):
                for n2 in ast.walk(mm.node):
                    if isinstance(n2, ast.Call) and isinstance(n2.func, ast.Attribute) and isinstance(n2.func.value, ast.Name) and \
                            n2.func.value.id in ('self', 'cls'):
                        callers.setdefault(n2.func.attr, set()).add(mm.name)

    def on_behalf(name, seen=()):
        if not is_private(name) or name in seen:
            return {name}
        cs = callers.get(name, set())
        if not cs:
            return set()          # a private helper nobody in the class calls (inlined away in the second view): unreachable
        out = set()
        for c3 in cs:
            out |= on_behalf(c3, seen + (name,))
        return out
    for c in list(counter_writers):
        ws2 = set()
        for w_ in counter_writers[c]:
            ws2 |= on_behalf(w_)
        counter_writers[c] = ws2
    for c in COUNTERS:
        ws = counter_writers.get(c, set())
        extra = ws - allowed[c]
        ctx.ob('T11.count', '%s.%s' % (cls_fq, c), 'counter is written only by %s' % sorted(allowed[c]),
               not extra and bool(ws), loc=ci.module.relpath + ':%d' % ci.node.lineno,
               detail='writers: %s' % sorted(ws))
    ctx.extra['paths_enumerated'] = ctx.extra.get('paths_enumerated', 0) + n_paths


def loc_of(m, op):
    return '%s:%d' % (op.fn.module.relpath if op.fn else m.module.relpath, op.line)


def lockstep(ctx, w, m, construct, paths):
    """T2: on every path the link table and the dict storage receive matching changes."""
    bad = []
    n_eff = 0
    for p in paths:
        effs = effects(w, p)
        done = [e for e in effs if e.ok]
        n_eff += len(done)
        l_set = [e for e in done if e.kind == 'L_SET']
        l_del = [e for e in done if e.kind == 'L_DEL']
        l_get_ok = {e.key for e in done if e.kind == 'L_GET'}
        p_set = [e for e in done if e.kind == 'P_SET']
        p_del = [e for e in done if e.kind == 'P_DEL']
        p_clear = [e for e in done if e.kind == 'P_CLEAR']
        l_reset = [e for e in done if e.kind == 'L_RESET']
        other = [e for e in done if e.kind in ('L_OTHER', 'P_BULK', 'L_CLEAR')]
        for e in other:
            bad.append((p, e, 'storage or link table changed by an unpaired bulk operation %s' % e.key))
        # keys removed from storage by popitem: result[0]
        pdel_keys = []
        for e in p_del:
            k = e.key if e.key is not None else popitem_key(w, e)
            pdel_keys.append(k)
        ldel_keys = [e.key for e in l_del]
        # the path may end by an exception raised between the two halves of a pair
        # (only the lookup / C-level KeyError edges and user callbacks are modelled)
        if sorted(map(str, pdel_keys)) != sorted(map(str, ldel_keys)):
            e = (p_del + l_del)[0]
            bad.append((p, e, 'keys removed from dict storage %s != keys removed from the link table %s'
                        % (pdel_keys, ldel_keys)))
        # stores: every link-table store has a storage store of the same key, and every storage
        # store is either new in the table or follows a successful table lookup of that key
        lset_keys = [e.key for e in l_set]
        for e in l_set:
            if not any(x.key == e.key for x in p_set):
                bad.append((p, e, 'key %s entered the link table but not the dict storage' % e.key))
        for e in p_set:
            if e.key not in lset_keys and e.key not in l_get_ok:
                bad.append((p, e, 'key %s stored in the dict storage with no link-table entry made or found' % e.key))
            else:
                # value agreement: the link carries the same value
                links_ok = any(x.kind == 'LINK_VALUE' and x.val == e.val for x in done) or \
                    any(tok_list_has(w, x.val, e.val) for x in l_set if x.key == e.key)
                if not links_ok:
                    bad.append((p, e, 'value stored in the dict (%s) is not the value put in the link' % e.val))
        if bool(p_clear) != bool(l_reset):
            e = (p_clear + l_reset)[0]
            bad.append((p, e, 'dict storage cleared without re-initialising the ring/link table (or vice versa)'))
        # growth bookkeeping inside one path: a table store of a new key without eviction must also
        # splice a link into the ring (SPLICE events present)
        for e in l_set:
            if e.key not in ldel_keys and not any(x.kind in ('SPLICE', 'A_SET', 'LINK_KEY') for x in done):
                bad.append((p, e, 'link-table entry made without touching the ring'))
        for e in l_del:
            if not any(x.kind in ('SPLICE', 'A_SET') for x in done):
                bad.append((p, e, 'link-table entry removed without unlinking it from the ring'))
    seen = set()
    for p, e, why in bad:
        k = (why, e.op.line)
        if k in seen:
            continue
        seen.add(k)
        ctx.ob('T2', construct, why, False, loc=loc_of(m, e.op), path=p.describe(),
               detail='path exit: %s' % (str(p.outcome[:2]) if p.kind == 'raise' else 'return'))
    if not bad:
        ctx.ob('T2', construct, 'dict storage, link table and ring change in lock-step on all %d paths '
               '(normal and exceptional exits)' % len(paths), True, loc=m.loc,
               detail='%d storage/table/ring effects inspected' % n_eff, nontrivial=n_eff > 0)


def tok_list_has(w, list_txt, val_txt):
    """list_txt names a fresh list token whose elements include val_txt."""
    info = w.tokens.get(list_txt)
    if info and info[0] == 'fresh' and info[1] == 'list':
        return any(txt(x) == val_txt for x in info[3])
    return False


def capacity(ctx, w, m, construct, paths, require=True):
    """T7: insertion without eviction only under `size < max_size`."""
    n = 0
    for p in paths:
        effs = [e for e in effects(w, p) if e.ok]
        grow = [e for e in effs if e.kind == 'L_SET' and not any(x.kind == 'L_DEL' for x in effs)]
        evict = [e for e in effs if e.kind == 'L_SET' and any(x.kind == 'L_DEL' for x in effs)]
        # what each test *established* on this path: the condition itself when it was true, its negation when false
        tests = []
        for o in p.ops:
            if o.kind == 'test':
                v = o.val if o.info else ast.UnaryOp(op=ast.Not(), operand=o.val)
                c = canon_size_lt_cap(w, v)
                if c is not None:
                    tests.append((o, c))
        for e in grow:
            n += 1
            ok = any(o.seq < e.op.seq and c == 'lt' for o, c in tests)
            det = ', '.join('%s -> %s [%s]' % (w.text(o.val), o.info, c) for o, c in tests) or 'no size/capacity test on the path'
            ctx.ob('T7', construct, 'a new key is added without eviction only after `size < max_size` was found true',
                   ok, loc=loc_of(m, e.op), detail=det, path=p.describe() if not ok else None)
        for e in evict:
            n += 1
            # eviction path: evicted key leaves both structures before the new key is stored
            pdel = [x for x in effs if x.kind == 'P_DEL']
            pset = [x for x in effs if x.kind == 'P_SET']
            ok = bool(pdel) and bool(pset) and pdel[0].op.seq < pset[0].op.seq
            ctx.ob('T7e', construct, 'when full, the evicted key is deleted from the dict storage before the new key is stored',
                   ok, loc=loc_of(m, e.op), path=p.describe() if not ok else None)
    if n == 0 and require:
        raise AnalysisError('no insertion path found in %s' % construct)


def counters_getitem(ctx, w, m, construct, paths):
    for p in paths:
        effs = effects(w, p)
        found = [e for e in effs if e.kind == 'L_GET']
        if not found:
            ctx.unknown('T9.count', construct, 'the lookup does not read the link table on some path (found / not found cannot be told apart)', m.loc)
            continue
        first = found[0]
        hits = [e for e in effs if e.kind == 'COUNT' and e.key == 'hit_count']
        misses = [e for e in effs if e.kind == 'COUNT' and e.key == 'miss_count']
        softs = [e for e in effs if e.kind == 'COUNT' and e.key == 'soft_miss_count']
        incr = lambda e: e.val.replace(' ', '') == 'self.%s+1' % e.key
        if first.ok:
            ok = len(hits) == 1 and not misses and not softs and incr(hits[0])
            what = 'a lookup that finds the key counts exactly one hit and no miss'
        else:
            ok = len(misses) == 1 and not hits and not softs and incr(misses[0])
            # the miss is counted before the callback / re-raise
            later = [o for o in p.ops if o.kind in ('raise',) or
                     (o.kind == 'call' and isinstance(o.val.func, ast.Attribute) and o.val.func.attr == 'on_miss')]
            if ok and later:
                ok = misses[0].op.seq < later[0].seq
            what = 'a lookup that does not find the key counts exactly one miss (before on_miss / re-raise) and no hit'
        ctx.ob('T9.count', construct, what, ok, loc=loc_of(m, (hits + misses + [first])[0].op),
               path=p.describe() if not ok else None)
        # on_miss result is cached and returned
        calls = [o for o in p.ops if o.kind == 'call' and isinstance(o.val.func, ast.Attribute)
                 and o.val.func.attr == 'on_miss' and root_of(o.val.func.value) == 'self']
        if calls and p.kind == 'return':
            tok = None
            for name, info in w.tokens.items():
                if info[0] == 'call' and len(info) > 2 and info[2] is calls[0]:
                    tok = name
            sets = [e for e in effs if e.kind == 'OP_SET']
            ok = bool(sets) and sets[0].val == tok and sets[0].key == txt(calls[0].val.args[0]) \
                and txt(p.outcome[1]) == tok
            ctx.ob('T9.onmiss', construct, 'the value produced by on_miss(key) is stored under key and returned',
                   ok, loc=loc_of(m, calls[0]), path=p.describe() if not ok else None)
        if not first.ok and p.kind == 'return' and not calls:
            ctx.ob('T9.onmiss', construct, 'a miss returns normally only through on_miss', False, loc=m.loc,
                   path=p.describe())


def counters_soft(ctx, w, m, construct, paths):
    for p in paths:
        effs = effects(w, p)
        gets = [e for e in effs if e.kind == 'OP_GET']
        softs = [e for e in effs if e.kind == 'COUNT' and e.key == 'soft_miss_count']
        others = [e for e in effs if e.kind == 'COUNT' and e.key != 'soft_miss_count']
        if not gets:
            ctx.ob('T9.soft', construct, 'get/setdefault look the key up through self[key] (so hits and misses are counted)',
                   False, loc=m.loc, path=p.describe())
            continue
        missed = not gets[0].ok
        # the miss must have been caught as KeyError for the default to be returned
        if missed and p.kind == 'return':
            ok = len(softs) == 1 and not others and softs[0].val.replace(' ', '') == 'self.soft_miss_count+1' \
                and softs[0].op.seq > gets[0].op.seq
            what = 'a not-found lookup answered by the default counts exactly one soft miss (after the miss itself)'
        elif not missed:
            ok = not softs and not others
            what = 'a found lookup counts no soft miss'
        else:
            continue
        ctx.ob('T9.soft', construct, what, ok, loc=loc_of(m, (softs + gets)[0].op),
               path=p.describe() if not ok else None)


def copy_observer(ctx, w, m, construct, paths):
    for p in paths:
        effs = effects(w, p)
        writes = [e for e in effs if e.kind in ('L_SET', 'L_DEL', 'L_RESET', 'A_SET', 'COUNT', 'FIELD', 'SPLICE',
                                                'LINK_VALUE', 'LINK_KEY', 'P_SET', 'P_DEL', 'P_CLEAR', 'OP_SET',
                                                'OP_DEL', 'P_BULK', 'L_OTHER', 'L_CLEAR')]
        writes = [e for e in writes if not (e.kind in ('SPLICE', 'LINK_VALUE', 'LINK_KEY') and e.key.startswith('$l'))]
        # operations on self that have side effects on counters / recency
        for o in p.ops:
            for a in accesses(w, o):
                if a.obj == 'self' and a.kind == 'method' and not is_private(a.name) and \
                        a.name not in ('__len__', '__contains__', '__iter__', 'keys', 'values', 'items', '__eq__', '__ne__',
                                       '__repr__'):
                    writes.append(Eff('CALL', a.name, None, o))
        ok = not writes
        ctx.ob('T8.copy', construct, 'copy() leaves the source untouched (no write to storage, ring, link table or '
               'counters; no counted/reordering lookup on the source)', ok,
               loc=loc_of(m, writes[0].op) if writes else m.loc,
               detail='; '.join(repr(e) for e in writes[:4]), path=p.describe() if not ok else None)
        if p.kind != 'return':
            continue
        ctor = [o for o in p.ops if o.kind == 'call' and isinstance(o.info, tuple) and o.info[0] == 'class']
        if not ctor:
            ctx.unknown('T8.copy.src', construct, 'no constructor call of the receiver class found', m.loc)
            continue
        c = ctor[-1]
        kws = {k.arg: k.value for k in c.val.keywords}
        args = list(c.val.args)
        cap = kws.get('max_size', args[0] if args else None)
        vals = kws.get('values', args[1] if len(args) > 1 else None)
        ok_cap = txt(cap) == 'self.max_size'
        ctx.ob('T8.copy.cap', construct, 'the copy gets the same capacity', ok_cap, loc=loc_of(m, c),
               detail='max_size=%s' % txt(cap))
        vt = txt(w.expand(vals)) if vals is not None else ''
        dict_order = vals is None or vt == 'self' or (isinstance(vals, ast.Name) and view_of(w, vals)) or \
            any(s in vt for s in ('self.items()', 'self.keys()', 'dict(self)', 'list(self)', 'self.values()'))
        ring_read = any(o.kind == 'attr_load' and isinstance(o.val, ast.Attribute) and o.val.attr == ANCHOR
                        and root_of(o.val) == 'self' for o in p.ops)
        ok = (not dict_order) and ring_read
        ctx.ob('T8.copy.src', construct, 'the copied items come from a traversal of the ring (eviction order), '
               'not from the dict\'s own order', ok, loc=loc_of(m, c),
               detail='values=%s; ring traversed on the path: %s' % (vt[:80], ring_read),
               path=p.describe() if not ok else None)


def clear_resets(ctx, w, m, construct, paths):
    for p in paths:
        if p.kind != 'return':
            continue
        effs = [e for e in effects(w, p) if e.ok]
        ok = any(e.kind == 'P_CLEAR' for e in effs) and any(e.kind == 'L_RESET' for e in effs) and \
            any(e.kind == 'A_SET' for e in effs)
        ctx.ob('T18', construct, 'clear() empties the dict storage and re-initialises link table and ring', ok,
               loc=m.loc, path=p.describe() if not ok else None)


def check_init(ctx, w, m, construct, paths):
    for p in paths:
        if p.kind != 'return':
            continue
        # capacity validated before any state exists
        tests = [o for o in p.ops if o.kind == 'test']
        val = [o for o in tests if txt(o.val).replace(' ', '') in ('max_size<=0', 'max_size<1', 'notmax_size>0',
                                                                    'not(max_size>0)', 'max_size>0', 'max_size>=1',
                                                                    '0>=max_size', '1>max_size')]
        stores = [o for o in p.ops if o.kind == 'attr_store']
        ok = bool(val) and (not stores or val[0].seq < stores[0].seq)
        if ok:
            t = txt(val[0].val).replace(' ', '')
            positive = t in ('max_size>0', 'max_size>=1')
            ok = (val[0].info is True) if positive else (val[0].info is False)
        ctx.ob('T7.init', construct, 'a non-positive max_size is rejected before any state is created', ok,
               loc=m.loc, path=p.describe() if not ok else None)
        effs = effects(w, p)
        ok2 = any(e.kind == 'L_RESET' for e in effs) and any(e.kind == 'A_SET' for e in effs) and \
            all(any(e.kind == 'COUNT' and e.key == c for e in effs) for c in COUNTERS)
        ctx.ob('T18.init', construct, 'construction initialises ring, link table and the three counters', ok2, loc=m.loc)
