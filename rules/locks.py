"""T6 LOCK-DISCIPLINE: every public operation of a class touches its guarded
state only inside one critical section of the instance's re-entrant lock."""
import ast

from sa.index import Builtin, FuncInfo, DICT_MUTATORS, DICT_SINGLE_READERS, \
    DICT_VIEW_PRODUCERS, AnalysisError
from sa.paths import Walker, Model, call_name
from sa.access import accesses, view_of, root_of

NOT_OPERATIONS = {'__init__', '__new__', '__class__', '__doc__', '__module__',
                  '__dict__', '__weakref__', '__slots__', '__getattribute__',
                  '__setattr__', '__delattr__', '__dir__', '__init_subclass__',
                  '__subclasshook__', '__class_getitem__', '__reduce__',
                  '__reduce_ex__', '__getstate__', '__sizeof__', '__format__',
                  '__str__', '__hash__', 'fromkeys', '__lt__', '__le__', '__gt__',
                  '__ge__', '__bool__'}


def is_private(name):
    return name.startswith('_') and not (name.startswith('__') and name.endswith('__'))


def is_module_helper(op, callee):
    """A private module-level function called by plain name: extracted helper code, analysed in the caller's context."""
    return callee.cls is None and is_private(callee.name) and isinstance(op.val.func, ast.Name)


class LockModel(Model):
    def __init__(self, program, spec):
        super().__init__(program)
        self.spec = spec

    def inline(self, walker, op, callee, st):
        if callee.cls is None:
            return is_module_helper(op, callee)
        rv = op.recv_val
        rname = rv.id if isinstance(rv, ast.Name) else None
        if rname is None:
            return False
        if rname == 'self':
            # helpers of the receiver are seen in the caller's lock context;
            # public operations on the receiver are whole (self-locking) operations
            return is_private(callee.name)
        if rname.startswith('$new'):
            return True            # everything done to a not-yet-escaped object
        return False

    def sub_raises(self, walker, op, st):
        if op.kind in ('sub_load', 'sub_del'):
            base = op.val.value
            if isinstance(base, ast.Attribute) and base.attr in self.spec['dict_fields']:
                return ('KeyError',)
            if isinstance(base, ast.Name) and base.id == 'self' and walker.root_recv is not None:
                d = '__getitem__' if op.kind == 'sub_load' else '__delitem__'
                m = self.program.resolve(walker.root_recv, d)
                if isinstance(m, FuncInfo):
                    return walker.escape_types(m, walker.root_recv)
                return ('KeyError',)
        return ()


def lock_of(val, lock_field):
    """'obj' if val is <obj>.<lock_field>."""
    if isinstance(val, ast.Attribute) and val.attr == lock_field and \
            isinstance(val.value, ast.Name):
        return val.value.id
    return None


def check_class(ctx, cls_fq, spec):
    """spec: lock_field, guarded_fields, dict_fields, lock_ctor, exempt (name->reason)"""
    prog = ctx.program
    ci = prog.cls(cls_fq)
    lock_field = spec['lock_field']
    guarded = set(spec['guarded_fields'])
    tag = cls_fq
    ctx.saw('classes', cls_fq)

    # --- (e) the lock is created re-entrant, (f) only in __init__ ----------
    init = prog.resolve(ci, '__init__')
    if not isinstance(init, FuncInfo):
        raise AnalysisError('anchor vanished: %s.__init__' % cls_fq)
    lock_ctors = []
    writers = []
    for c in prog.mro(ci):
        if not hasattr(c, 'members'):
            continue
        for m in list(c.members.values()):
            if not isinstance(m, FuncInfo):
                continue
            for n in ast.walk(m.node):
                tgts = []
                if isinstance(n, ast.Assign):
                    tgts = [(t, n.value) for t in n.targets]
                elif isinstance(n, (ast.AugAssign, ast.AnnAssign)):
                    tgts = [(n.target, n.value)]
                elif isinstance(n, ast.Delete):
                    tgts = [(t, None) for t in n.targets]
                for t, val in tgts:
                    for sub in ast.walk(t):
                        if isinstance(sub, ast.Attribute) and sub.attr == lock_field:
                            writers.append((m, n, val))
                if isinstance(n, ast.Call) and call_name(n) == 'setattr' and len(n.args) >= 2 \
                        and isinstance(n.args[1], ast.Constant) and n.args[1].value == lock_field:
                    writers.append((m, n, n.args[2] if len(n.args) > 2 else None))
    # callers of each method inside the class (self.<name>(...) call sites)
    callers = {}
    for c in prog.mro(ci):
        if not hasattr(c, 'members'):
            continue
        for mm in c.members.values():
            if isinstance(mm, FuncInfo):
                for n2 in ast.walk(mm.node):
                    if isinstance(n2, ast.Call) and isinstance(n2.func, ast.Attribute) and \
                            isinstance(n2.func.value, ast.Name) and n2.func.value.id == 'self':
                        callers.setdefault(n2.func.attr, set()).add(mm.name)

    def only_from_init(name, seen=()):
        """True iff `name` is __init__ or a private helper reachable only from __init__."""
        if name == '__init__':
            return True
        if not is_private(name) or name in seen:
            return False
        cs = callers.get(name, set())
        return bool(cs) and all(only_from_init(c2, seen + (name,)) for c2 in cs)
    for m, n, val in writers:
        ok = only_from_init(m.name)
        ctx.ob('T6f', '%s.%s' % (m.module.name, m.qualname),
               'the lock field `%s` is assigned only during construction' % lock_field,
               ok, loc='%s:%d' % (m.module.relpath, n.lineno),
               detail='' if ok else 'replacing the lock while another thread holds or waits for the old one '
               'voids mutual exclusion (reachable from: %s)' % sorted(callers.get(m.name, {m.name})))
        lock_ctors.append((m, n, val))
    if not lock_ctors:
        raise AnalysisError('no assignment of %s.%s found in __init__' % (cls_fq, lock_field))

    # --- (o) lock order: only the instance's own lock is ever taken ----------
    # two per-instance locks have no global order: an operation that takes the lock of a second instance while holding its
    # own (a == b in one thread, b == a in another) can deadlock, after which no operation on either instance completes
    n_acq = 0
    for c in prog.mro(ci):
        if not hasattr(c, 'members'):
            continue
        for mm in c.members.values():
            if not isinstance(mm, FuncInfo):
                continue
            # locals that hold another object's lock: `l = other._lock` / `l = getattr(other, '_lock', ...)`
            foreign = {}
            for n in ast.walk(mm.node):
                if isinstance(n, ast.Assign) and len(n.targets) == 1 and isinstance(n.targets[0], ast.Name):
                    for x in ast.walk(n.value):
                        if isinstance(x, ast.Attribute) and x.attr == lock_field and not (isinstance(x.value, ast.Name) and x.value.id == 'self'):
                            foreign[n.targets[0].id] = ast.unparse(x)
                        if isinstance(x, ast.Call) and call_name(x) == 'getattr' and len(x.args) >= 2 and \
                                isinstance(x.args[1], ast.Constant) and x.args[1].value == lock_field and \
                                not (isinstance(x.args[0], ast.Name) and x.args[0].id == 'self'):
                            foreign[n.targets[0].id] = ast.unparse(x)
            for n in ast.walk(mm.node):
                exprs = []
                if isinstance(n, (ast.With, ast.AsyncWith)):
                    exprs = [it.context_expr for it in n.items]
                    for e in exprs:
                        if isinstance(e, ast.Name) and e.id in foreign:
                            n_acq += 1
                            ctx.ob('T6o', '%s.%s' % (mm.module.name, mm.qualname), 'only the instance\'s own lock is acquired (taking '
                                   'another instance\'s lock too gives two locks with no global order: opposite operand orders in '
                                   'two threads deadlock)', False, loc='%s:%d' % (mm.module.relpath, n.lineno),
                                   detail='acquires `%s` (= %s)' % (e.id, foreign[e.id]))
                elif isinstance(n, ast.Call) and isinstance(n.func, ast.Attribute) and n.func.attr in ('acquire', '__enter__'):
                    exprs = [n.func.value]
                for e in exprs:
                    if isinstance(e, ast.Attribute) and e.attr == lock_field:
                        n_acq += 1
                        own = isinstance(e.value, ast.Name) and e.value.id == 'self'
                        if not own:
                            ctx.ob('T6o', '%s.%s' % (mm.module.name, mm.qualname), 'only the instance\'s own lock is acquired (taking '
                                   'another instance\'s lock too gives two locks with no global order: opposite operand orders in '
                                   'two threads deadlock)', False, loc='%s:%d' % (mm.module.relpath, n.lineno),
                                   detail='acquires `%s`' % ast.unparse(e))
    ctx.ob('T6o', cls_fq, 'every lock acquisition in the class (%d) is of self.%s' % (n_acq, lock_field), True,
           loc='%s:%d' % (ci.module.relpath, ci.node.lineno), nontrivial=n_acq > 0)

    # --- walk every public operation --------------------------------------
    model = LockModel(prog, spec)
    needs_reentrant = []
    n_paths = 0
    api = prog.public_api(ci)
    for name in api:
        if name in NOT_OPERATIONS or is_private(name):
            continue
        m = prog.resolve(ci, name)
        construct = '%s.%s' % (tag, name)
        if isinstance(m, Builtin):
            if m.base != 'dict':
                continue
            if name in DICT_MUTATORS:
                ctx.ob('T6.inherited', construct,
                       'inherited dict mutator is not taken over by the class: it changes '
                       'the guarded storage with no lock (and no bookkeeping)',
                       False, loc=ci.module.relpath + ':%d' % ci.node.lineno,
                       detail='`%s` resolves to the C-level dict.%s' % (name, name))
            else:
                ctx.ob('T6.inherited', construct,
                       'inherited dict reader is a single C-level step (atomic under the GIL)',
                       True, loc=ci.module.relpath + ':%d' % ci.node.lineno, nontrivial=False)
            continue
        if not isinstance(m, FuncInfo):
            continue
        if m.is_property() or m.is_static() or m.is_classmethod():
            continue
        ctx.saw('functions', m.fq)
        w = Walker(prog, model)
        paths = w.paths(m, recv=ci)
        n_paths += len(paths)
        fails = {}
        ga_total = 0
        single_reader_only = True
        max_sections = 0
        for p in paths:
            if p.kind == 'cutoff':
                continue
            held = {}
            sections = 0
            open_has = False
            second = None
            gas = []
            for op in p.ops:
                if op.kind == 'with_enter':
                    o = lock_of(op.val, lock_field)
                    if o is not None:
                        if held.get(o, 0) > 0 and o == 'self':
                            needs_reentrant.append((construct, op))
                        held[o] = held.get(o, 0) + 1
                        if o == 'self' and held[o] == 1:
                            open_has = False
                    continue
                if op.kind == 'with_exit':
                    o = lock_of(op.val, lock_field)
                    if o is not None:
                        held[o] = held.get(o, 0) - 1
                        if o == 'self' and held[o] == 0 and open_has:
                            sections += 1
                            if sections == 2 and second is None:
                                second = op
                    continue
                if op.kind == 'call' and isinstance(op.val.func, ast.Attribute) and \
                        op.val.func.attr in ('acquire', 'release', '__enter__', '__exit__'):
                    o = lock_of(op.val.func.value, lock_field)
                    if o is not None:
                        if op.val.func.attr in ('acquire', '__enter__'):
                            if held.get(o, 0) > 0 and o == 'self':
                                needs_reentrant.append((construct, op))
                            held[o] = held.get(o, 0) + 1
                            if o == 'self' and held[o] == 1:
                                open_has = False
                        else:
                            held[o] = held.get(o, 0) - 1
                            if o == 'self' and held[o] == 0 and open_has:
                                sections += 1
                                if sections == 2 and second is None:
                                    second = op
                        continue
                evs = []      # (kind, description)
                for a in accesses(w, op):
                    if a.obj != 'self':
                        continue
                    if a.kind == 'field':
                        if a.name in guarded:
                            evs.append(('GA', 'field self.%s (%s)' % (a.name, {'r': 'read', 'w': 'write', 'd': 'delete'}[a.mode]), False))
                    elif a.kind == 'builtin':
                        if a.target.base != 'dict':
                            continue
                        if a.name in DICT_MUTATORS or a.name in DICT_SINGLE_READERS \
                                or a.name in DICT_VIEW_PRODUCERS:
                            single = a.name in DICT_SINGLE_READERS
                            evs.append(('GA', 'dict storage via %s dict.%s' % (a.via, a.name), single))
                    elif a.kind == 'method':
                        if is_private(a.name):
                            continue       # inlined: its accesses appear individually
                        if a.target.is_property():
                            continue
                        if a.name == '__init__':
                            continue
                        evs.append(('OP', 'operation self.%s' % a.name, False))
                if op.kind in ('iter_start', 'iter_next', 'star'):
                    vw = view_of(w, op.val)
                    if vw and vw[0] == 'self':
                        evs.append(('GA', 'iteration step over live view self.%s()' % vw[1], False))
                for kind, desc, single in evs:
                    h = held.get('self', 0)
                    if kind == 'GA':
                        ga_total += 1
                        gas.append((op, desc, single))
                        if not single:
                            single_reader_only = False
                        if h == 0:
                            fails.setdefault(('a', desc, op.line), (op, desc, p, single))
                        else:
                            open_has = True
                    else:
                        if h == 0:
                            sections += 1
                            if sections == 2 and second is None:
                                second = op
                        else:
                            open_has = True
                            needs_reentrant.append((construct, op))
            if held.get('self', 0) != 0:
                fails.setdefault(('g', str(p.outcome[:2])), (p.ops[-1] if p.ops else None, 'lock still held', p, False))
            max_sections = max(max_sections, sections)
            if sections > 1:
                fails.setdefault(('b', second.line if second else 0), (second, 'second critical section', p, False))
            # (d) one unlocked single-step reader is atomic by itself
            p_unlocked = [g for g in gas if True]
        # (d): drop 'a' failures if, on every path, the operation makes exactly one guarded
        # access and that access is a single C-level reader
        a_fails = [v for k, v in fails.items() if k[0] == 'a']
        if a_fails and all(f[3] for f in a_fails):
            ok_d = True
            for p in paths:
                cnt = 0
                for op in p.ops:
                    for a in accesses(w, op):
                        if a.obj == 'self' and ((a.kind == 'field' and a.name in guarded) or
                                                (a.kind == 'builtin' and a.target.base == 'dict') or
                                                (a.kind == 'method' and not is_private(a.name) and a.name != '__init__'
                                                 and not a.target.is_property())):
                            cnt += 1
                if cnt > 1:
                    ok_d = False
            if ok_d:
                for k in [k for k in fails if k[0] == 'a']:
                    del fails[k]
                ctx.ob('T6d', construct, 'unlocked operation performs exactly one guarded access, '
                       'a single C-level dict reader', True, loc=m.loc)
        if not fails:
            ctx.ob('T6ab', construct,
                   'every guarded access lies inside one critical section of self.%s on all %d paths'
                   % (lock_field, len(paths)), True, loc=m.loc,
                   detail='%d guarded access events; max sections per path %d' % (ga_total, max_sections),
                   nontrivial=ga_total > 0 or max_sections > 0)
        for k, (op, desc, p, single) in sorted(fails.items(), key=lambda kv: str(kv[0])):
            if k[0] == 'g':
                ctx.ob('T6g', construct, 'the lock is released on every exit of the operation (an exception between acquire() and '
                       'release() must not leave it held: every other thread would block forever)', False,
                       loc='%s:%d' % (m.module.relpath, op.line if op is not None else m.node.lineno), path=p.describe(),
                       detail='exit %s with the lock held' % (str(p.outcome[:2]) if p.kind == 'raise' else 'return'))
            elif k[0] == 'a':
                ctx.ob('T6a', construct, 'guarded access outside the lock: %s' % desc, False,
                       loc='%s:%d' % (op.fn.module.relpath if op.fn else m.module.relpath, op.line),
                       path=p.describe(), detail='in %s' % (op.fn.fq if op.fn else m.fq))
            else:
                ctx.ob('T6b', construct, 'operation is split over more than one critical section '
                       '(not atomic as a whole)', False,
                       loc='%s:%d' % (m.module.relpath, op.line if op else m.node.lineno),
                       path=p.describe())
    ctx.extra.setdefault('paths_enumerated', 0)
    ctx.extra['paths_enumerated'] += n_paths

    # --- (e) re-entrancy -----------------------------------------------------
    for m, n, val in lock_ctors:
        ctor = call_name(val) if isinstance(val, ast.Call) else ast.unparse(val) if val is not None else '?'
        origin = m.module.imports.get(ctor.split('.')[0], '')
        full = origin if '.' not in ctor else origin + '.' + ctor.split('.', 1)[1]
        reentrant = full in ('threading.RLock', '_thread.RLock') and ctor not in m.module.classes
        # a dummy RLock class defined in an unarmed except-branch is not the armed binding
        ok = reentrant or not needs_reentrant
        ctx.ob('T6e', '%s.%s' % (m.module.name, m.qualname),
               'lock constructor is re-entrant (threading.RLock); %d nested acquisitions found (e.g. %s)'
               % (len(needs_reentrant), needs_reentrant[0][0] if needs_reentrant else '-'),
               ok, loc='%s:%d' % (m.module.relpath, n.lineno),
               detail='constructor `%s` resolves to `%s`' % (ctor, full or 'unknown'))
    return n_paths
