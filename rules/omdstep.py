"""C01 rules for OrderedMultiDict (dictutils and its urlutils copy).

T2 lock-step between the dict storage (key -> list of values) and the shadow
structure (`_map`: key -> list of cells, cells linked in a ring through
`root`), on every feasible path of every method with the private helpers
inlined.  Feasibility uses the invariant being proved inductively: both
structures hold the same keys with equally long lists on entry."""
import ast

from sa.index import Builtin, FuncInfo, DICT_MUTATORS, AnalysisError
from sa.paths import Walker, Model, call_name
from sa.access import accesses, root_of
from sa.consteval import Folder, Unknown
from rules.locks import is_private, is_module_helper

MAP = '_map'
ROOT = 'root'
READERS_MUST_OVERRIDE = ('__getitem__', 'get', 'keys', 'values', 'items', '__iter__', '__eq__', '__ne__',
                         '__repr__', '__reversed__', 'copy')
LIST_MUTATORS = {'insert', 'remove', 'clear', 'sort', 'reverse', '__setitem__', '__delitem__', '__iadd__'}


def txt(v):
    if v is None:
        return ''
    try:
        return ' '.join(ast.unparse(v).split())
    except Exception:
        return ''


def is_super_call(v):
    return isinstance(v, ast.Call) and call_name(v) == 'super'


def storage_list_key(w, v):
    """If value v denotes the storage's value list of some key, return the key text."""
    e = w.expand(v)
    if isinstance(e, ast.Call) and isinstance(e.func, ast.Attribute) and \
            e.func.attr in ('setdefault', '__getitem__', 'get'):
        recv = e.func.value
        if is_super_call(recv) and e.args:
            return txt(e.args[0])
        if isinstance(recv, ast.Name) and recv.id == 'dict' and len(e.args) >= 2 and txt(e.args[0]) == 'self':
            return txt(e.args[1])
    return None


def map_list_key(w, v):
    """If value v denotes the cell list of some key in self._map, return the key text."""
    e = w.expand(v)
    if isinstance(e, ast.Subscript) and txt(e.value) == 'self.' + MAP:
        return txt(e.slice)
    if isinstance(e, ast.Call) and isinstance(e.func, ast.Attribute) and e.func.attr in ('setdefault', 'get', 'pop') \
            and txt(e.func.value) == 'self.' + MAP and e.args:
        return txt(e.args[0])
    return None


class OMDModel(Model):
    def inline(self, walker, op, callee, st):
        if callee.cls is None:
            return is_module_helper(op, callee)
        rv = op.recv_val
        if isinstance(rv, ast.Name) and rv.id == 'self':
            return is_private(callee.name)
        return False

    # -- invariant-based feasibility ---------------------------------------
    def _known(self, walker, st, key):
        """'present' / 'absent' / None for `key` from earlier events on the path."""
        t = st.trace
        nxt_raise = None
        while t is not None:
            o = t[0]
            t = t[1]
            if o.kind == 'raise_at':
                nxt_raise = o.node
                continue
            failed = nxt_raise is o.node
            nxt_raise = None
            if o.kind == 'test':
                e = walker.expand(o.val)
                neg = False
                while isinstance(e, ast.UnaryOp) and isinstance(e.op, ast.Not):
                    neg = not neg
                    e = e.operand
                k = None
                if isinstance(e, ast.Call) and isinstance(e.func, ast.Attribute) and e.func.attr == '__contains__' \
                        and is_super_call(e.func.value) and e.args:
                    k = txt(e.args[0])
                elif isinstance(e, ast.Call) and isinstance(e.func, ast.Attribute) and e.func.attr == '__contains__' \
                        and isinstance(e.func.value, ast.Name) and e.func.value.id == 'dict' and len(e.args) == 2 \
                        and txt(e.args[0]) == 'self':
                    k = txt(e.args[1])          # dict.__contains__(self, k)
                elif isinstance(e, ast.Compare) and len(e.ops) == 1 and isinstance(e.ops[0], (ast.In, ast.NotIn)) \
                        and txt(e.comparators[0]) in ('self', 'self.' + MAP):
                    k = txt(e.left)
                    if isinstance(e.ops[0], ast.NotIn):
                        neg = not neg
                if k == key:
                    return 'present' if (o.info != neg) else 'absent'
                continue
            if failed:
                continue
            if o.kind in ('sub_load', 'sub_del') and txt(o.val.value) == 'self.' + MAP and txt(o.val.slice) == key:
                return 'present'
            if o.kind == 'call' and isinstance(o.info, Builtin) and o.info.base == 'dict' \
                    and o.info.name in ('__getitem__', '__delitem__', 'pop') and o.val.args:
                args = o.val.args[1:] if (isinstance(o.val.func.value, ast.Name) and o.val.func.value.id == 'dict') \
                    else o.val.args
                if args and txt(args[0]) == key and (o.info.name != 'pop' or len(args) == 1):
                    return 'present'
        return None

    def sub_raises(self, walker, op, st):
        if op.kind in ('sub_load', 'sub_del') and txt(op.val.value) == 'self.' + MAP:
            if self._known(walker, st.clone(trace=st.trace[1]), txt(op.val.slice)) == 'present':
                return ()
            return ('KeyError',)
        if op.kind in ('sub_load', 'sub_del') and isinstance(op.val.value, ast.Name) and op.val.value.id == 'self' \
                and walker.root_recv is not None:
            d = '__getitem__' if op.kind == 'sub_load' else '__delitem__'
            m = self.program.resolve(walker.root_recv, d)
            if isinstance(m, FuncInfo):
                return walker.escape_types(m, walker.root_recv)
        return ()

    def call_raises(self, walker, op, st):
        v = op.val
        if isinstance(op.info, Builtin) and op.info.base == 'dict' and op.info.name in ('pop', '__delitem__', '__getitem__'):
            args = v.args[1:] if (isinstance(v.func.value, ast.Name) and v.func.value.id == 'dict') else v.args
            if op.info.name == 'pop' and len(args) > 1:
                return ()
            if args and self._known(walker, st.clone(trace=st.trace[1]), txt(args[0])) == 'present':
                return ()
            return ('KeyError',)
        if isinstance(op.info, Builtin):
            return ()
        name = call_name(v)
        if name in ('KeyError', 'TypeError', 'ValueError', 'type', 'next', 'zip_longest'):
            return ()
        if isinstance(v.func, ast.Attribute) and v.func.attr in ('pop',) and \
                (map_list_key(walker, v.func.value) or storage_list_key(walker, v.func.value)):
            return ()        # lists in either structure are never empty (invariant)
        return super().call_raises(walker, op, st)

    def assume(self, walker, tv, st):
        """Emptiness of a key's value list and of its cell list agree (equal lengths)."""
        e = tv
        neg = False
        while isinstance(e, ast.UnaryOp) and isinstance(e.op, ast.Not):
            neg = not neg
            e = e.operand
        k = storage_list_key(walker, e)
        other = map_list_key
        if k is None:
            k = map_list_key(walker, e)
            other = storage_list_key
        if k is None:
            return None
        t = st.trace
        while t is not None:
            o = t[0]
            t = t[1]
            if o.kind != 'test':
                continue
            e2 = o.val
            neg2 = False
            while isinstance(e2, ast.UnaryOp) and isinstance(e2.op, ast.Not):
                neg2 = not neg2
                e2 = e2.operand
            if other(walker, e2) == k:
                truth_of_list = (o.info != neg2)        # is the other list non-empty?
                return truth_of_list != neg
        return None


class Eff:
    __slots__ = ('kind', 'key', 'val', 'op', 'ok', 'extra')

    def __init__(self, kind, key, val, op, ok=True, extra=None):
        self.kind, self.key, self.val, self.op, self.ok, self.extra = kind, key, val, op, ok, extra

    def __repr__(self):
        return '%s(%s%s)@%d%s' % (self.kind, self.key, ', ' + self.val if self.val else '', self.op.line,
                                 '' if self.ok else '!')


def fresh_list_elts(w, v):
    if isinstance(v, ast.Name):
        info = w.tokens.get(v.id)
        if info and info[0] == 'fresh' and info[1] == 'list':
            return info[3]
    return None


def effects(w, path, KEY=2, VALUE=3):
    out = []
    ops = path.ops
    for i, op in enumerate(ops):
        raised = (i + 1 < len(ops) and ops[i + 1].kind == 'raise_at' and ops[i + 1].node is op.node)
        v = op.val
        if op.kind == 'call':
            f = v.func
            done = False
            for a in accesses(w, op):
                if a.obj != 'self':
                    continue
                if a.kind == 'builtin' and a.target.base == 'dict':
                    args = list(v.args)
                    if a.via == 'explicit-base':
                        args = args[1:]
                    k = txt(args[0]) if args else None
                    if a.name == 'setdefault':
                        d = fresh_list_elts(w, args[1]) if len(args) > 1 else None
                        out.append(Eff('P_ENSURE', k, None, op, not raised, extra=(d == [])))
                    elif a.name == '__setitem__' and len(args) >= 2:
                        elts = fresh_list_elts(w, args[1])
                        out.append(Eff('P_SETLIST', k, txt(elts[0]) if elts and len(elts) == 1 else None, op,
                                       not raised, extra=elts))
                    elif a.name in ('__delitem__', 'pop'):
                        out.append(Eff('P_DEL', k, None, op, not raised))
                    elif a.name == 'clear':
                        out.append(Eff('P_CLEAR', None, None, op, not raised))
                    elif a.name in ('update', '__ior__', 'popitem') or (a.name == '__init__' and args):
                        out.append(Eff('P_BULK', a.name, None, op, not raised))
                    elif a.name in ('__getitem__', 'get', '__contains__', '__len__', '__iter__', 'keys', 'values',
                                    'items', '__eq__', '__repr__', '__init__', '__new__', '__reversed__', 'copy'):
                        pass
                    done = True
                elif a.kind == 'method' and not is_private(a.name):
                    out.append(Eff('OP', a.name, ', '.join(txt(x) for x in v.args), op, not raised))
                    done = True
            if done:
                continue
            if isinstance(f, ast.Attribute):
                recv = f.value
                sk = storage_list_key(w, recv)
                mk = map_list_key(w, recv) if sk is None else None
                if sk is not None:
                    if f.attr == 'append' and v.args:
                        out.append(Eff('P_APPEND', sk, txt(v.args[0]), op))
                    elif f.attr == 'extend':
                        out.append(Eff('P_EXTEND', sk, txt(v.args[0]) if v.args else '', op))
                    elif f.attr == 'pop':
                        out.append(Eff('P_POPLAST' if not v.args else 'P_LISTMUT', sk, None, op))
                    elif f.attr in LIST_MUTATORS:
                        out.append(Eff('P_LISTMUT', sk, f.attr, op))
                elif mk is not None:
                    if f.attr == 'append' and v.args:
                        elts = fresh_list_elts(w, v.args[0])
                        ck = txt(elts[KEY]) if elts and len(elts) > VALUE else None
                        cv = txt(elts[VALUE]) if elts and len(elts) > VALUE else None
                        out.append(Eff('S_APPEND', mk, cv, op, extra=ck))
                    elif f.attr == 'pop':
                        out.append(Eff('S_POPLAST' if not v.args else 'S_LISTMUT', mk, None, op))
                    elif f.attr in LIST_MUTATORS or f.attr == 'extend':
                        out.append(Eff('S_LISTMUT', mk, f.attr, op))
                elif txt(recv) == 'self.' + MAP:
                    k = txt(v.args[0]) if v.args else None
                    if f.attr == 'setdefault':
                        out.append(Eff('S_ENSURE', k, None, op))
                    elif f.attr == 'clear':
                        out.append(Eff('S_CLEAR', None, None, op))
                    elif f.attr == 'pop':
                        out.append(Eff('S_DEL', k, None, op, not raised))
                    elif f.attr in ('update', 'popitem', '__setitem__', '__delitem__'):
                        out.append(Eff('S_BULK', f.attr, None, op))
        elif op.kind == 'sub_store':
            base = v.value
            bt = txt(base)
            if bt == 'self.' + MAP:
                out.append(Eff('S_SETLIST', txt(v.slice), txt(op.info), op))
            elif bt == 'self.' + ROOT and isinstance(v.slice, ast.Slice):
                out.append(Eff('ROOT_RESET', None, txt(w.expand(op.info)) if op.info is not None else '', op))
            elif isinstance(base, ast.Name) and base.id == 'self':
                out.append(Eff('OP', '__setitem__', txt(v.slice), op))
            elif txt(v.slice) in ('PREV', 'NEXT', 'SPREV', 'SNEXT'):
                out.append(Eff('SPLICE', bt, txt(op.info), op))
            elif storage_list_key(w, base) is not None:
                out.append(Eff('P_LISTMUT', storage_list_key(w, base), 'item assignment', op))
            elif map_list_key(w, base) is not None:
                out.append(Eff('S_LISTMUT', map_list_key(w, base), 'item assignment', op))
        elif op.kind == 'sub_del':
            base = v.value
            bt = txt(base)
            if bt == 'self.' + MAP:
                out.append(Eff('S_DEL', txt(v.slice), None, op, not raised))
            elif isinstance(base, ast.Name) and base.id == 'self':
                out.append(Eff('OP', '__delitem__', txt(v.slice), op, not raised))
            elif storage_list_key(w, base) is not None:
                out.append(Eff('P_LISTMUT', storage_list_key(w, base), 'item deletion', op))
        elif op.kind == 'attr_store':
            if isinstance(v.value, ast.Name) and v.value.id == 'self':
                if v.attr == MAP:
                    out.append(Eff('S_CLEAR', None, 'rebind', op))
                elif v.attr == ROOT:
                    out.append(Eff('ROOT_RESET', None, 'rebind', op))
                else:
                    out.append(Eff('FIELD', v.attr, None, op))
        elif op.kind == 'aug':
            tv = op.info[0]
            if isinstance(tv, ast.Name) and tv.id == 'self':
                out.append(Eff('OP', '__ior__', '', op))
    return out


def pairing_failures(w, path, effs):
    """-> list of (eff, why) for one feasible path."""
    bad = []
    done = [e for e in effs if e.ok]
    by = lambda kind: [e for e in done if e.kind == kind]
    keys = {e.key for e in done if e.kind.startswith(('P_', 'S_')) and e.key is not None}
    for e in by('P_BULK') + by('S_BULK') + by('P_EXTEND') + by('P_LISTMUT') + by('S_LISTMUT') + by('S_SETLIST'):
        bad.append((e, '%s: unpaired bulk / in-place change of one structure (%s)' % (e.kind, e.val or e.key)))
    n_splice = len(by('SPLICE'))
    for k in sorted(keys):
        P = lambda kind: [e for e in done if e.kind == kind and e.key == k]
        p_app, p_set, p_del, p_pop, p_ens = P('P_APPEND'), P('P_SETLIST'), P('P_DEL'), P('P_POPLAST'), P('P_ENSURE')
        s_app, s_del, s_pop, s_ens = P('S_APPEND'), P('S_DEL'), P('S_POPLAST'), P('S_ENSURE')
        known_absent = OMDModel._known(w.model, w, path.st, k) == 'absent' if False else None
        # additions
        if len(s_app) != len(p_app) + len(p_set):
            e = (s_app + p_app + p_set)[0]
            bad.append((e, 'key %s: %d cell(s) linked but %d value(s) stored' % (k, len(s_app), len(p_app) + len(p_set))))
        else:
            pvals = [e.val for e in p_app] + [e.val for e in p_set]
            svals = [e.val for e in s_app]
            if sorted(map(str, pvals)) != sorted(map(str, svals)):
                bad.append((s_app[0], 'key %s: values in the cells %s differ from values stored %s' % (k, svals, pvals)))
            for e in s_app:
                if e.extra != k:
                    bad.append((e, 'cell filed under key %s carries key %s' % (k, e.extra)))
        for e in p_set:
            if e.extra is None or len(e.extra) != 1:
                bad.append((e, 'key %s: storage list replaced by something other than a one-element list' % k))
        for e in p_ens:
            if not e.extra:
                bad.append((e, 'key %s: storage default is not a fresh empty list' % k))
            if not any(x.op.seq > e.op.seq for x in p_app):
                bad.append((e, 'key %s may be created in the storage with an empty value list (no value appended on this path)' % k))
        for e in s_ens:
            if not any(x.op.seq > e.op.seq for x in s_app):
                bad.append((e, 'key %s may be created in the cell map with no cell' % k))
        # removals
        if p_pop or (s_pop and not s_del):
            if len(p_pop) != len(s_pop):
                bad.append(((p_pop + s_pop)[0], 'key %s: %d value(s) popped but %d cell(s) unlinked' % (k, len(p_pop), len(s_pop))))
            if bool(p_del) != bool(s_del):
                bad.append(((p_del + s_del + p_pop + s_pop)[0], 'key %s: emptied key removed from one structure only '
                            '(storage: %s, cell map: %s)' % (k, bool(p_del), bool(s_del))))
        else:
            removed_p = bool(p_del)
            replaced = bool(p_set)
            if s_del and not (removed_p or replaced):
                bad.append((s_del[0], 'key %s: cells removed but the key stays in the storage' % k))
            if removed_p and not s_del:
                st = absent_before(w, path, p_del[0], k)
                if not st:
                    bad.append((p_del[0], 'key %s: removed from the storage but its cells stay linked' % k))
            if replaced and not s_del:
                if not absent_before(w, path, p_set[0], k):
                    bad.append((p_set[0], 'key %s: value list replaced while old cells (if any) stay linked: no removal of '
                                'existing cells and no test that the key is absent' % k))
            if s_pop and not s_del:
                bad.append((s_pop[0], 'key %s: cell popped without a matching storage pop' % k))
    if n_splice < 2 * (len(by('S_APPEND')) + len(by('S_POPLAST'))):
        e = (by('S_APPEND') + by('S_POPLAST'))[0]
        bad.append((e, 'cell list changed without (un)linking the cell in the ring (%d link writes for %d cell '
                    'changes)' % (n_splice, len(by('S_APPEND')) + len(by('S_POPLAST')))))
    pc, sc, rr = by('P_CLEAR'), by('S_CLEAR'), by('ROOT_RESET')
    if pc and not (sc and rr):
        bad.append((pc[0], 'storage cleared but cell map / ring not reset (map cleared: %s, ring reset: %s)' % (bool(sc), bool(rr))))
    return bad


def absent_before(w, path, eff, key):
    """A test before eff established that key is not in the mapping."""
    st = path.st
    # rebuild a state whose trace ends just before eff.op
    t = st.trace
    while t is not None and t[0] is not eff.op:
        t = t[1]
    if t is None:
        return False
    return w.model._known(w, st.clone(trace=t[1]), key) == 'absent'


def check_class(ctx, cls_fq, armed=True):
    prog = ctx.program
    ci = prog.cls(cls_fq)
    model = OMDModel(prog)
    ctx.saw('classes', cls_fq)
    folder = Folder(ci.module)
    try:
        KEY, VALUE = folder.name('KEY'), folder.name('VALUE')
    except Unknown as e:
        raise AnalysisError('cannot fold KEY/VALUE cell indices in %s: %s' % (ci.module.name, e))

    # T1 ----------------------------------------------------------------------------
    for name in DICT_MUTATORS:
        if name == '__init__':
            continue
        m = prog.resolve(ci, name)
        ctx.ob('T1', '%s.%s' % (cls_fq, name), 'dict mutator is overridden (the C-level one changes the storage only)',
               isinstance(m, FuncInfo), loc='%s:%d' % (ci.module.relpath, ci.node.lineno), detail='resolves to %r' % (m,))
    for name in READERS_MUST_OVERRIDE:
        m = prog.resolve(ci, name)
        ctx.ob('T1r', '%s.%s' % (cls_fq, name), 'dict reader is overridden (the C-level one would expose the per-key lists)',
               isinstance(m, FuncInfo), loc='%s:%d' % (ci.module.relpath, ci.node.lineno), detail='resolves to %r' % (m,))
    # T5 copy protocol ------------------------------------------------------------------
    red = prog.resolve(ci, '__reduce_ex__')
    red2 = prog.resolve(ci, '__reduce__')
    cp, dcp = prog.resolve(ci, '__copy__'), prog.resolve(ci, '__deepcopy__')
    ok5 = isinstance(red, FuncInfo) or isinstance(red2, FuncInfo) or (isinstance(cp, FuncInfo) and isinstance(dcp, FuncInfo))
    why = ''
    if isinstance(red, FuncInfo):
        # the reduction must not hand out dictitems (5th element) and must carry the pair-list state
        for n in ast.walk(red.node):
            if isinstance(n, ast.Return) and isinstance(n.value, ast.Tuple):
                if len(n.value.elts) >= 5 and not (isinstance(n.value.elts[4], ast.Constant) and n.value.elts[4].value is None):
                    ok5 = False
                    why = 'reduction still emits dict items'
                if len(n.value.elts) < 3:
                    ok5 = False
                    why = 'reduction carries no state'
    ctx.ob('T5', cls_fq, 'copy/pickle protocol does not replay (key, last value) items through __setitem__ after '
           '__setstate__ (own __reduce_ex__/__reduce__ or __copy__+__deepcopy__)', ok5,
           loc='%s:%d' % (ci.module.relpath, ci.node.lineno), detail=why)
    # walk ------------------------------------------------------------------------------
    n_paths = 0
    direct = {}
    for name in prog.public_api(ci):
        m = prog.resolve(ci, name)
        if not isinstance(m, FuncInfo) or m.is_property() or m.is_static() or is_private(name):
            continue
        if m.cls is not None and not (prog.is_subclass(ci, m.cls.fq) and m.cls.fq.split('.')[0] == ci.module.name):
            continue
        construct = '%s.%s' % (cls_fq, name)
        ctx.saw('functions', m.fq)
        # T4 discarded comparison
        for n in ast.walk(m.node):
            if isinstance(n, ast.Expr) and isinstance(n.value, (ast.Compare, ast.BoolOp)) and name in ('__eq__', '__ne__'):
                ctx.ob('T4', construct, 'result of comparison `%s` is discarded (cannot influence equality)' % txt(n.value),
                       False, loc='%s:%d' % (m.module.relpath, n.lineno))
        if name in ('__eq__', '__ne__'):
            ctx.ob('T4', construct, 'no comparison result is discarded', True, loc=m.loc, nontrivial=True)
        w = Walker(prog, model)
        recv = ci
        bind = None
        if m.is_classmethod():
            continue
        if name == '__new__':
            continue
        paths = [p for p in w.paths(m, recv=recv) if p.kind != 'cutoff']
        n_paths += len(paths)
        fails = {}
        n_eff = 0
        for p in paths:
            effs = effects(w, p, KEY, VALUE)
            n_eff += sum(1 for e in effs if e.kind != 'OP')
            for e, why in pairing_failures(w, p, effs):
                fails.setdefault((why, e.op.line), (e, p))
        direct[name] = n_eff
        for (why, line), (e, p) in sorted(fails.items()):
            ctx.ob('T2', construct, why, False,
                   loc='%s:%d' % (e.op.fn.module.relpath if e.op.fn else m.module.relpath, e.op.line),
                   path=p.describe(), detail='path exit: %s' % (str(p.outcome[:2]) if p.kind == 'raise' else 'return'))
        if not fails:
            ctx.ob('T2', construct, 'value lists and cell lists/ring change in lock-step on all %d feasible paths' % len(paths),
                   True, loc=m.loc, detail='%d storage/cell effects inspected' % n_eff, nontrivial=n_eff > 0)
        if name == 'clear':
            for p in paths:
                if p.kind == 'return':
                    effs = effects(w, p, KEY, VALUE)
                    ok = all(any(e.kind == k for e in effs) for k in ('P_CLEAR', 'S_CLEAR', 'ROOT_RESET'))
                    ctx.ob('T18', construct, 'clear() empties the storage, the cell map and resets the ring', ok, loc=m.loc,
                           path=p.describe() if not ok else None)
        if name in READ_OPS:
            read_purity(ctx, w, m, construct, paths, KEY, VALUE)
    ctx.extra['paths_enumerated'] = ctx.extra.get('paths_enumerated', 0) + n_paths
    return direct


READ_OPS = ('items', 'keys', 'values', 'get', 'getlist', '__getitem__', 'todict', 'counts', 'inverted', 'sorted',
            'sortedvalues', '__eq__', '__ne__', '__repr__', '__reversed__', 'iteritems', 'iterkeys', 'itervalues',
            '__iter__', 'copy', '__getstate__', 'viewkeys', 'viewvalues', 'viewitems')
MUTATING_OPS = {'add', 'addlist', 'clear', 'setdefault', 'update', 'update_extend', '__setitem__', '__delitem__',
                '__ior__', 'pop', 'popall', 'poplast', 'popitem', '__setstate__', '__init__'}


def read_purity(ctx, w, m, construct, paths, KEY, VALUE):
    bad = None
    for p in paths:
        effs = effects(w, p, KEY, VALUE)
        for e in effs:
            if e.kind.startswith(('P_', 'S_')) or e.kind in ('ROOT_RESET', 'SPLICE', 'FIELD') or \
                    (e.kind == 'OP' and e.key in MUTATING_OPS):
                if e.kind == 'SPLICE' and e.key.startswith('$'):
                    continue
                bad = (e, p)
        # a read must not hand out the stored list itself
        if p.kind == 'return' and p.outcome[1] is not None and storage_list_key(w, p.outcome[1]) is not None:
            bad = (Eff('RETURN_STORED_LIST', storage_list_key(w, p.outcome[1]), None, p.ops[-1]), p)
        for o in p.ops:
            if o.kind == 'yield' and o.val is not None and storage_list_key(w, o.val) is not None:
                bad = (Eff('YIELD_STORED_LIST', storage_list_key(w, o.val), None, o), p)
    ctx.ob('T8', construct, 'read operation has no effect on either structure and does not hand out a stored value list',
           bad is None, loc=('%s:%d' % (m.module.relpath, bad[0].op.line)) if bad else m.loc,
           detail=repr(bad[0]) if bad else '', path=bad[1].describe() if bad else None)
