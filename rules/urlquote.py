"""C06 rules: T12 quoting tables vs reader delimiters, T13 sanitizer flow,
T14 exception escape (only URLParseError leaves URL(); nothing leaves
find_all_links)."""
import ast
import re._parser as sre_parse
import re._constants as sre_c

from sa.index import FuncInfo, AnalysisError
from sa.paths import Walker, Model, call_name
from sa.consteval import Folder, Unknown

MOD = 'urlutils'
UNRESERVED = set('ABCDEFGHIJKLMNOPQRSTUVWXYZabcdefghijklmnopqrstuvwxyz0123456789-._~')
SUB_DELIMS = set("!$&'()*+,;=")
GEN_DELIMS = set(':/?#[]@')
RFC_LEGAL = {
    'userinfo': UNRESERVED | SUB_DELIMS | set(':'),
    'path': UNRESERVED | SUB_DELIMS | set(':@'),
    'query': UNRESERVED | SUB_DELIMS | set(':@/?'),
    'fragment': UNRESERVED | SUB_DELIMS | set(':@/?'),
}
COMPONENTS = {
    'userinfo': {'safe': '_USERINFO_SAFE', 'delims': '_USERINFO_DELIMS', 'map': '_USERINFO_PART_QUOTE_MAP',
                 'quote': 'quote_userinfo_part'},
    'path': {'safe': '_PATH_SAFE', 'delims': '_PATH_DELIMS', 'map': '_PATH_PART_QUOTE_MAP', 'quote': 'quote_path_part'},
    'query': {'safe': '_QUERY_SAFE', 'delims': '_QUERY_DELIMS', 'map': '_QUERY_PART_QUOTE_MAP', 'quote': 'quote_query_part'},
    'fragment': {'safe': '_FRAGMENT_SAFE', 'delims': '_FRAGMENT_DELIMS', 'map': '_FRAGMENT_QUOTE_MAP',
                 'quote': 'quote_fragment_part'},
}


def txt(v):
    try:
        return ' '.join(ast.unparse(v).split())
    except Exception:
        return ''


# ---------------------------------------------------------------------------
# regex helpers
def group_excluded(pattern, name):
    """Characters excluded by the negated class that makes up named group `name`
    (the group must be `[^...]*` / `[^...]+` / `.*`)."""
    p = sre_parse.parse(pattern)
    gi = p.state.groupdict.get(name)
    if gi is None:
        raise AnalysisError('regex has no group %s' % name)
    found = []

    def walk(sub):
        for op, av in sub:
            if op is sre_c.SUBPATTERN:
                g, _, _, inner = av
                if g == gi:
                    found.append(inner)
                walk(inner)
            elif op in (sre_c.MAX_REPEAT, sre_c.MIN_REPEAT):
                walk(av[2])
            elif op is sre_c.BRANCH:
                for b in av[1]:
                    walk(b)
    walk(p)
    if not found:
        raise AnalysisError('group %s not found' % name)
    inner = found[0]
    if len(inner) != 1 or inner[0][0] not in (sre_c.MAX_REPEAT, sre_c.MIN_REPEAT):
        raise AnalysisError('group %s is not a single repeated class' % name)
    body = inner[0][1][2]
    if len(body) != 1:
        raise AnalysisError('group %s: unexpected body' % name)
    op, av = body[0]
    if op is sre_c.ANY:
        return set()
    if op is sre_c.NOT_LITERAL:
        return {chr(av)}
    if op is sre_c.IN:
        if not av or av[0][0] is not sre_c.NEGATE:
            raise AnalysisError('group %s is not a negated class' % name)
        out = set()
        for o, a in av[1:]:
            if o is sre_c.LITERAL:
                out.add(chr(a))
            elif o is sre_c.RANGE:
                out.update(chr(c) for c in range(a[0], a[1] + 1))
            else:
                raise AnalysisError('group %s: class item %s not modelled' % (name, o))
        return out
    raise AnalysisError('group %s: %s not modelled' % (name, op))


def split_constants(fn, methods=('split', 'partition', 'rpartition', 'rsplit', 'replace')):
    """String constants used as separators in fn: {const: [lineno, ...]}."""
    out = {}
    for n in ast.walk(fn.node):
        if isinstance(n, ast.Call) and isinstance(n.func, ast.Attribute) and n.func.attr in methods and n.args \
                and isinstance(n.args[0], ast.Constant) and isinstance(n.args[0].value, str):
            out.setdefault(n.args[0].value, []).append(n.lineno)
    return out


# ---------------------------------------------------------------------------
def check_tables(ctx):
    prog = ctx.program
    mod = prog.module(MOD)
    fold = Folder(mod)

    def const(name):
        try:
            return fold.name(name)
        except Unknown as e:
            raise AnalysisError('cannot fold %s.%s: %s' % (MOD, name, e))
    loc_of = lambda name: '%s:%d' % (mod.relpath, mod.assigns[name][-1][2].lineno) if name in mod.assigns else mod.relpath
    # reader side ----------------------------------------------------------------
    pat_expr = mod.const_expr('_URL_RE')
    if not (isinstance(pat_expr, ast.Call) and call_name(pat_expr) == 're.compile' and pat_expr.args):
        raise AnalysisError('anchor vanished: _URL_RE = re.compile(...)')
    try:
        pattern = fold.fold(pat_expr.args[0])
    except Unknown as e:
        raise AnalysisError('cannot fold _URL_RE pattern: %s' % e)
    cls_auth = group_excluded(pattern, 'authority')
    cls_path = group_excluded(pattern, 'path')
    cls_query = group_excluded(pattern, 'query')
    cls_frag = group_excluded(pattern, 'fragment')
    cls_scheme = group_excluded(pattern, 'scheme')
    parse_url = prog.func(MOD + '.parse_url')
    parse_qsl = prog.func(MOD + '.parse_qsl')
    url_init = prog.func(MOD + '.URL.__init__')
    ci = prog.cls(MOD + '.URL')
    path_setter = ci.setters.get('path')
    c_auth = split_constants(parse_url)
    c_qsl = split_constants(parse_qsl)
    c_init = split_constants(url_init)
    c_setter = split_constants(path_setter) if path_setter else {}
    readers = {
        'userinfo': cls_auth | set(''.join(c_auth)),
        'path': cls_path | set(''.join(c_init)) | set(''.join(c_setter)),
        'query': cls_query | set(''.join(c_qsl)),
        'fragment': cls_frag,
    }
    ctx.extra['reader_delimiters'] = {k: ''.join(sorted(v)) for k, v in readers.items()}
    ctx.extra['regex_classes'] = {'scheme': ''.join(sorted(cls_scheme)), 'authority': ''.join(sorted(cls_auth)),
                                  'path': ''.join(sorted(cls_path)), 'query': ''.join(sorted(cls_query)),
                                  'fragment': ''.join(sorted(cls_frag))}
    # the regex must carve the components in RFC order with these terminators
    ctx.ob('T12.re', MOD + '._URL_RE', 'authority ends at / ? #, path at ? #, query at #, fragment takes the rest',
           cls_auth == set('/?#') and cls_path == set('?#') and cls_query == set('#') and cls_frag == set()
           and cls_scheme == set(':/?#'), loc=loc_of('_URL_RE'), detail=str(ctx.extra['regex_classes']))
    all_delims = const('_ALL_DELIMS')
    ctx.ob('T12.delims', MOD + '._ALL_DELIMS', 'the delimiter universe is gen-delims | sub-delims of RFC 3986',
           set(all_delims) == GEN_DELIMS | SUB_DELIMS, loc=loc_of('_ALL_DELIMS'))
    for comp, names in COMPONENTS.items():
        safe = set(const(names['safe']))
        rd = readers[comp]
        where = loc_of(names['safe'])
        tag = '%s.%s' % (MOD, names['safe'])
        # one obligation per safe character (the whole character x component matrix)
        for ch in sorted(safe):
            ok = ch not in rd
            ctx.ob('T12.safe', tag, 'character %r is emitted raw in a %s component and is not a delimiter the parser '
                   'splits that component on' % (ch, comp), ok, loc=where,
                   detail='' if ok else 'reader delimiters of %s: %r' % (comp, ''.join(sorted(rd))))
        ctx.ob('T12.pct', tag, "'%%' is never safe (it introduces an escape)", '%' not in safe, loc=where)
        illegal = sorted(safe - RFC_LEGAL[comp])
        ctx.ob('T12.legal', tag, 'every safe character is legal at that position per RFC 3986', not illegal, loc=where,
               detail='not legal in %s: %r' % (comp, ''.join(illegal)) if illegal else '')
        missing = sorted(rd & set(map(chr, range(128))) - (set(map(chr, range(128))) - safe))
        delims = set(const(names['delims']))
        ctx.ob('T12.min', '%s.%s' % (MOD, names['delims']), 'minimal quoting escapes exactly the delimiters that are '
               'not safe (ALL_DELIMS - SAFE)', delims == set(all_delims) - safe, loc=loc_of(names['delims']),
               detail='extra: %r missing: %r' % (''.join(sorted(delims - (set(all_delims) - safe))),
                                                 ''.join(sorted((set(all_delims) - safe) - delims))))
        # every reader delimiter of the component must be escaped in minimal mode too
        unescaped = sorted(c for c in rd if c not in delims and c != '%')
        ctx.ob('T12.minrd', '%s.%s' % (MOD, names['delims']), 'every delimiter the parser splits a %s on is escaped '
               'by minimal quoting as well' % comp, not unescaped, loc=loc_of(names['delims']),
               detail='not escaped: %r' % ''.join(unescaped) if unescaped else '')
        # wiring of the quote map and the quote function
        mexpr = mod.const_expr(names['map'])
        ok = isinstance(mexpr, ast.Call) and call_name(mexpr) == '_make_quote_map' and \
            [txt(a) for a in mexpr.args] == [names['safe']]
        ctx.ob('T12.wire', '%s.%s' % (MOD, names['map']), 'quote map is built from the component\'s own safe set', ok,
               loc=loc_of(names['map']), detail=txt(mexpr) if mexpr is not None else 'missing')
        qf = prog.func('%s.%s' % (MOD, names['quote']))
        used_maps = {n.id for n in ast.walk(qf.node) if isinstance(n, ast.Name) and n.id.endswith('QUOTE_MAP')}
        used_delims = {n.id for n in ast.walk(qf.node) if isinstance(n, ast.Name) and n.id.endswith('_DELIMS')}
        ctx.ob('T12.wire', qf.fq, 'quote function uses its own component\'s map and delimiter set',
               used_maps == {names['map']} and used_delims == {names['delims']}, loc=qf.loc,
               detail='maps %s, delims %s' % (sorted(used_maps), sorted(used_delims)))
        check_quote_shape(ctx, qf, names)
    # '+' means space only in the *raw* query text: it is translated before percent-decoding, so that an escaped
    # '%2B' survives as a literal '+'
    n_plus = 0
    from rules.common import with_helpers as _wh
    for n in [x for f_ in _wh(prog, parse_qsl) for x in ast.walk(f_.node)]:
        if isinstance(n, ast.Call) and isinstance(n.func, ast.Attribute) and n.func.attr == 'replace' and n.args and \
                isinstance(n.args[0], ast.Constant) and n.args[0].value == '+':
            n_plus += 1
            recv_has_unquote = any(isinstance(x, ast.Call) and call_name(x) in ('unquote', 'unquote_to_bytes') for x in ast.walk(n.func.value))
            # also through a local: key = unquote(key); key = key.replace(...)
            if isinstance(n.func.value, ast.Name):
                v = n.func.value.id
                for a in ast.walk(parse_qsl.node):
                    if isinstance(a, ast.Assign) and any(txt(t) == v for t in a.targets) and a.lineno < n.lineno and \
                            any(isinstance(x, ast.Call) and call_name(x) in ('unquote', 'unquote_to_bytes') for x in ast.walk(a.value)):
                        recv_has_unquote = True
            ctx.ob('T9.plus', parse_qsl.fq, "'+' is turned into a space before percent-decoding (a decoded '%2B' stays '+')",
                   not recv_has_unquote, loc='%s:%d' % (mod.relpath, n.lineno), detail=txt(n))
    if n_plus == 0:
        ctx.unknown('T9.plus', parse_qsl.fq, "no .replace('+', ...) found", parse_qsl.loc)
    check_make_quote_map(ctx, prog.func(MOD + '._make_quote_map'))
    # _HEX_CHAR_MAP ------------------------------------------------------------------
    if '_HEX_CHAR_MAP' not in mod.assigns:
        # no decoding table: decoding computed on the fly.  int(text, 16) is not a validator of %XX escapes -- it accepts a sign,
        # surrounding blanks and underscores ('%+A', '% 1', '%1_') -- so a decoder built on it turns text that is not an escape
        # into bytes, unless both characters were checked to be hex digits first
        utb = prog.func(MOD + '.unquote_to_bytes')
        ints = [n for n in ast.walk(utb.node) if isinstance(n, ast.Call) and call_name(n) == 'int' and len(n.args) == 2 and
                isinstance(n.args[1], ast.Constant) and n.args[1].value == 16]
        checked = any(isinstance(n, ast.Compare) and any(isinstance(o, (ast.In, ast.NotIn)) for o in n.ops) and
                      'hexdigits' in txt(n) for n in ast.walk(utb.node)) or \
            any(isinstance(n, ast.Call) and isinstance(n.func, ast.Attribute) and n.func.attr in ('fullmatch', 'match') for n in ast.walk(utb.node))
        if ints and not checked:
            ctx.ob('T12.hex', utb.fq, 'only well-formed %XX escapes are decoded (int(text, 16) also accepts signs, blanks and underscores)',
                   False, loc='%s:%d' % (mod.relpath, ints[0].lineno), detail=txt(ints[0]))
            return
        raise AnalysisError('anchor vanished: urlutils._HEX_CHAR_MAP (percent-decoding table) and no recognisable replacement')
    hexmap = const('_HEX_CHAR_MAP')
    import string
    want = {(a + b).encode('ascii'): bytes([int(a + b, 16)]) for a in string.hexdigits for b in string.hexdigits}
    missing = sorted(k for k in want if k not in hexmap)
    wrong = sorted(k for k in want if k in hexmap and hexmap[k] != want[k])
    extra = sorted(k for k in hexmap if k not in want)
    ctx.ob('T12.hex', MOD + '._HEX_CHAR_MAP', 'every well-formed %%XX escape (all %d digit spellings) decodes to its byte, '
           'nothing else does' % len(want), not missing and not wrong and not extra, loc=loc_of('_HEX_CHAR_MAP'),
           detail='missing %s wrong %s extra %s' % (missing[:6], wrong[:6], extra[:6]))
    check_unquote_to_bytes(ctx, prog.func(MOD + '.unquote_to_bytes'))
    check_unquote_text(ctx, prog.func(MOD + '.unquote'))


def _minimal_polarity(ctx, qf, body_fn, delims_name, map_name, via=''):
    """Minimal quoting: a character IN the component's delimiter set goes through the quote map, any other is kept."""
    found = 0
    for n in ast.walk(body_fn.node):
        if not isinstance(n, ast.IfExp):
            continue
        e, neg = n.test, False
        while isinstance(e, ast.UnaryOp) and isinstance(e.op, ast.Not):
            neg = not neg
            e = e.operand
        if not (isinstance(e, ast.Compare) and len(e.ops) == 1 and isinstance(e.ops[0], (ast.In, ast.NotIn)) and
                txt(e.comparators[0]) == delims_name):
            continue
        found += 1
        var = txt(e.left)
        in_is_body = (isinstance(e.ops[0], ast.In)) != neg
        inb, outb = (n.body, n.orelse) if in_is_body else (n.orelse, n.body)
        ok = isinstance(inb, ast.Subscript) and txt(inb.value) == map_name and txt(inb.slice) == var and txt(outb) == var
        ctx.ob('T12.polarity', qf.fq, 'minimal quoting escapes exactly the characters of the delimiter set (a delimiter goes through the '
               'quote map, any other character is kept)' + via, ok, loc='%s:%d' % (body_fn.module.relpath, n.lineno),
               detail='in-branch %s, other branch %s' % (txt(inb), txt(outb)))
    return found


UNRESERVED = frozenset('ABCDEFGHIJKLMNOPQRSTUVWXYZabcdefghijklmnopqrstuvwxyz0123456789-._~')


def _regex_only_unreserved(pattern, method):
    """The regex test `<pattern>.<method>(text)` succeeds only on strings made of unreserved characters: the pattern is
    [^]? <one character class, repeated> <end>, where <end> is \\Z for match() (`$` also matches before a trailing newline)
    and \\Z, `$`-free or nothing for fullmatch().  -> (True, '') or (False, reason)."""
    import re._parser as P
    import re._constants as C
    try:
        items = list(P.parse(pattern))
    except Exception as e:
        return False, 'pattern does not parse: %s' % e
    if items and items[0][0] is C.AT and items[0][1] in (C.AT_BEGINNING, C.AT_BEGINNING_STRING):
        items = items[1:]
    elif method == 'search':
        return False, 'search() without a start anchor'
    end = None
    if items and items[-1][0] is C.AT:
        end = items[-1][1]
        items = items[:-1]
    if method in ('match', 'search'):
        if end is None:
            return False, 'match() without an end anchor tests a prefix only'
        if end is not C.AT_END_STRING:
            return False, '`$` also matches before a trailing newline: a text ending in "\\n" passes the test (use \\Z or fullmatch)'
    elif end is not None and end is not C.AT_END_STRING and method != 'fullmatch':
        return False, 'unrecognised end anchor'
    if len(items) != 1 or items[0][0] not in (C.MAX_REPEAT, C.MIN_REPEAT):
        return False, 'not a single repeated character class'
    lo, hi, sub = items[0][1]
    sub = list(sub)
    if len(sub) != 1:
        return False, 'not a single repeated character class'
    op, av = sub[0]
    chars = set()
    if op is C.LITERAL:
        chars.add(chr(av))
    elif op is C.IN:
        for o2, a2 in av:
            if o2 is C.LITERAL:
                chars.add(chr(a2))
            elif o2 is C.RANGE:
                if a2[1] - a2[0] > 300:
                    return False, 'character range too wide'
                chars |= {chr(c) for c in range(a2[0], a2[1] + 1)}
            else:
                return False, 'character class with %s' % (o2,)
    else:
        return False, 'not a character class'
    extra = chars - UNRESERVED
    if extra:
        return False, 'the class admits %r, which are not unreserved characters' % ''.join(sorted(extra))
    return True, ''


def check_raw_returns(ctx, qf, body, text_param):
    """T26.raw: a quote function hands the text back unquoted only under a test that is shown to admit nothing but unreserved
    characters (which every quote map keeps): the empty-text test, or a whole-string regex test over a class of unreserved
    characters.  Any other guard -- a regex ending in `$`, a prefix match, isalnum() (true for non-ASCII letters) -- lets a
    character through that full quoting must escape."""
    mod = body.module
    fold = Folder(mod)
    par = {}
    for n in ast.walk(body.node):
        for c in ast.iter_child_nodes(n):
            par[c] = n

    def raw(e):
        if isinstance(e, ast.Name) and e.id == text_param:
            return True
        return isinstance(e, ast.Call) and call_name(e) in ('str', 'to_unicode') and len(e.args) == 1 and raw(e.args[0])

    def proves(test, positive):
        """the test having this outcome implies `text` has only unreserved characters"""
        e = test
        while isinstance(e, ast.UnaryOp) and isinstance(e.op, ast.Not):
            e, positive = e.operand, not positive
        if isinstance(e, ast.BoolOp) and isinstance(e.op, ast.And) and positive:
            res = [proves(v, True) for v in e.values]
            if any(r[0] for r in res):
                return True, ''
            why = [r[1] for r in res if r[1]]
            return False, why[0] if why else ''
        if isinstance(e, ast.Name) and e.id == text_param and not positive:
            return True, ''                                   # `if not text: return text`
        if isinstance(e, ast.Call) and isinstance(e.func, ast.Attribute) and e.func.attr in ('match', 'fullmatch', 'search') and positive \
                and e.args and raw(e.args[-1]):
            pat = None
            recv = e.func.value
            try:
                if isinstance(recv, ast.Name) and recv.id == 're' and len(e.args) == 2:
                    pat = fold.fold(e.args[0])
                elif isinstance(recv, ast.Name):
                    ce = mod.const_expr(recv.id)
                    if isinstance(ce, ast.Call) and call_name(ce) == 're.compile' and ce.args and len(ce.args) == 1 and not ce.keywords:
                        pat = fold.fold(ce.args[0])
            except Unknown:
                pat = None
            if not isinstance(pat, str):
                return False, 'the regex of `%s` could not be evaluated' % txt(e)
            return _regex_only_unreserved(pat, e.func.attr)
        if isinstance(e, ast.Call) and isinstance(e.func, ast.Attribute) and e.func.attr in ('isalnum', 'isalpha', 'isdigit', 'isidentifier') \
                and positive:
            return False, '%s() is true for non-ASCII letters / digits too' % e.func.attr
        return False, ''
    for r in ast.walk(body.node):
        if not (isinstance(r, ast.Return) and r.value is not None and raw(r.value)):
            continue
        # the tests this return is nested under
        ok, why = False, ''
        n = r
        while n in par and not ok:
            up = par[n]
            if isinstance(up, ast.If):
                ok, w2 = proves(up.test, n in up.body)
                why = why or w2
            n = up
        ctx.ob('T26.raw', qf.fq, 'the text is handed back unquoted only under a test that admits nothing but unreserved characters', ok,
               loc='%s:%d' % (mod.relpath, r.lineno), detail=why or 'no enclosing test shown to imply "only unreserved characters"')



def check_returns_built_from_map(ctx, qf, body, text_param):
    """T12.final: what a quote function returns is the text as built from its quote map -- `''.join(...)` over the mapped pieces
    (or the raw text under T26.raw, or the result of the shared helper it delegates to).  A return that post-processes the quoted
    text (`re.sub`, `.replace`, slicing, concatenation) can undo an escape the map produced."""
    single = {}
    for n in ast.walk(body.node):
        if isinstance(n, ast.Assign) and len(n.targets) == 1 and isinstance(n.targets[0], ast.Name):
            single.setdefault(n.targets[0].id, []).append(n.value)

    def built(e, depth=0):
        if isinstance(e, ast.Name):
            if e.id == text_param:
                return True                 # judged by T26.raw
            vs = single.get(e.id, [])
            return bool(vs) and depth < 4 and all(built(v, depth + 1) for v in vs)
        if isinstance(e, ast.IfExp):
            return built(e.body, depth) and built(e.orelse, depth)
        if isinstance(e, ast.Call):
            if isinstance(e.func, ast.Attribute) and e.func.attr == 'join':
                return True                 # ''.join(...) / str.join('', ...) / SEP.join(...)
            if isinstance(e.func, ast.Name) and (e.func.id in body.module.functions or e.func.id in ('str', 'to_unicode')):
                return True                 # delegation to a module function (checked where it is a quote helper)
        return False
    for r in ast.walk(body.node):
        if isinstance(r, ast.Return) and r.value is not None:
            ok = built(r.value)
            ctx.ob('T12.final', qf.fq, 'the quoted text is returned as built from the quote map (no post-processing that could undo an '
                   'escape)', ok, loc='%s:%d' % (body.module.relpath, r.lineno), detail=txt(r.value)[:100])


def check_quote_shape(ctx, qf, names):
    """full mode: per *byte* of the NFC-normalised UTF-8 encoding, through the map;
    minimal mode: only characters in DELIMS go through the map. The body may live in a
    shared helper the quote function delegates to (map, delimiter set and mode passed on)."""
    body = qf
    via = ''
    rets = [n for n in ast.walk(qf.node) if isinstance(n, ast.Return)]
    if len(rets) == 1 and isinstance(rets[0].value, ast.Call) and isinstance(rets[0].value.func, ast.Name):
        callee = qf.module.functions.get(rets[0].value.func.id)
        call = rets[0].value
        if callee is not None:
            argt = [txt(a) for a in call.args] + [txt(k.value) for k in call.keywords]
            if names['map'] in argt and names['delims'] in argt and 'full_quote' in argt and 'text' in argt:
                # bind the helper's parameters
                ps = callee.params
                bound = {}
                for i, a in enumerate(call.args):
                    if i < len(ps):
                        bound[ps[i]] = txt(a)
                for k in call.keywords:
                    bound[k.arg] = txt(k.value)
                inv = {v: k for k, v in bound.items()}
                body = callee
                via = ' (through %s)' % callee.name
                mode = inv.get('full_quote', 'full_quote')
                has_full = any(isinstance(n, (ast.If, ast.IfExp)) and txt(n.test) == mode for n in ast.walk(callee.node))
                enc = [n for n in ast.walk(callee.node) if isinstance(n, ast.Call) and isinstance(n.func, ast.Attribute)
                       and n.func.attr == 'encode' and n.args and isinstance(n.args[0], ast.Constant)
                       and str(n.args[0].value).lower().replace('-', '') == 'utf8']
                uses_map = any(isinstance(n, ast.Subscript) and txt(n.value) == inv.get(names['map'], '?') for n in ast.walk(callee.node))
                uses_delims = any(isinstance(n, ast.Compare) and isinstance(n.ops[0], ast.In) and
                                  txt(n.comparators[0]) == inv.get(names['delims'], '?') for n in ast.walk(callee.node))
                ctx.ob('T12.shape', qf.fq, 'full quoting maps every byte of the UTF-8 encoding through the quote map, minimal quoting only the '
                       'component\'s delimiters' + via, has_full and bool(enc) and uses_map and uses_delims, loc=qf.loc)
                _minimal_polarity(ctx, qf, callee, inv.get(names['delims'], '?'), inv.get(names['map'], '?'), via)
                check_raw_returns(ctx, qf, callee, inv.get('text', 'text'))
                check_raw_returns(ctx, qf, qf, 'text')
                check_returns_built_from_map(ctx, qf, callee, inv.get('text', 'text'))
                check_returns_built_from_map(ctx, qf, qf, 'text')
                return
    has_full = any(isinstance(n, (ast.If, ast.IfExp)) and txt(n.test) == 'full_quote' for n in ast.walk(qf.node))
    enc = [n for n in ast.walk(qf.node) if isinstance(n, ast.Call) and isinstance(n.func, ast.Attribute)
           and n.func.attr == 'encode' and n.args and isinstance(n.args[0], ast.Constant)
           and str(n.args[0].value).lower().replace('-', '') == 'utf8']
    if not has_full and not enc:
        raise AnalysisError('%s: neither a full_quote branch nor a recognised delegation to a shared helper' % qf.fq)
    ctx.ob('T12.shape', qf.fq, 'full quoting maps every byte of the UTF-8 encoding through the quote map '
           '(branch on full_quote present, utf-8 encode present)', has_full and bool(enc), loc=qf.loc)
    _minimal_polarity(ctx, qf, qf, names['delims'], names['map'])
    check_raw_returns(ctx, qf, qf, qf.params[0] if qf.params else 'text')
    check_returns_built_from_map(ctx, qf, qf, qf.params[0] if qf.params else 'text')


def check_make_quote_map(ctx, fn):
    """safe -> itself, unsafe byte b -> '%' + two upper-case hex digits of b, for range(256)."""
    ok_range = any(isinstance(n, ast.Call) and call_name(n) == 'range' and n.args and
                   isinstance(n.args[0], ast.Constant) and n.args[0].value == 256 for n in ast.walk(fn.node))
    fmt_ok = False
    detail = ''
    for n in ast.walk(fn.node):
        if isinstance(n, ast.JoinedStr):
            vals = n.values
            if len(vals) == 2 and isinstance(vals[0], ast.Constant) and vals[0].value == '%' and \
                    isinstance(vals[1], ast.FormattedValue) and vals[1].format_spec is not None:
                spec = ''.join(v.value for v in vals[1].format_spec.values if isinstance(v, ast.Constant))
                detail = 'f-string spec %r' % spec
                fmt_ok = spec == '02X'
        elif isinstance(n, ast.BinOp) and isinstance(n.op, ast.Mod) and isinstance(n.left, ast.Constant) \
                and isinstance(n.left.value, str) and n.left.value.startswith('%%'):
            detail = '%% format %r' % n.left.value
            fmt_ok = n.left.value == '%%%02X'
        elif isinstance(n, ast.Call) and isinstance(n.func, ast.Attribute) and n.func.attr == 'format' \
                and isinstance(n.func.value, ast.Constant) and str(n.func.value.value).startswith('%'):
            detail = 'format %r' % n.func.value.value
            fmt_ok = n.func.value.value in ('%{:02X}', '%{0:02X}')
    # which branch does what, decided per path: a character found in the safe set is stored as itself, any other as the escape
    from rules.common import paths_of as _paths_of, strip_not as _strip_not
    wq, qpaths = _paths_of(ctx.program, fn)
    seen_safe = seen_unsafe = 0
    polar_bad = None
    for p in qpaths:
        last_truth = None
        for o in p.ops:
            if o.kind in ('iter_next', 'loop_iter'):
                last_truth = None
            elif o.kind == 'test':
                e, neg = _strip_not(o.val)
                if isinstance(e, ast.Compare) and len(e.ops) == 1 and isinstance(e.ops[0], (ast.In, ast.NotIn)) and \
                        txt(e.comparators[0]) == fn.params[0]:
                    t = (o.info != neg)
                    last_truth = t if isinstance(e.ops[0], ast.In) else (not t)
            elif o.kind == 'sub_store' and last_truth is None and o.info is not None and isinstance(wq.expand(o.info), ast.IfExp):
                # value-position conditional: c if c in safe else escape
                v = wq.expand(o.info)
                e, neg = _strip_not(v.test)
                if isinstance(e, ast.Compare) and len(e.ops) == 1 and isinstance(e.ops[0], (ast.In, ast.NotIn)) and \
                        txt(e.comparators[0]) == fn.params[0]:
                    safe_is_body = (not neg) == isinstance(e.ops[0], ast.In)
                    safe_v, unsafe_v = (v.body, v.orelse) if safe_is_body else (v.orelse, v.body)

                    def esc(x):
                        return isinstance(x, (ast.JoinedStr, ast.BinOp)) or (isinstance(x, ast.Call) and isinstance(x.func, ast.Attribute)
                                                                             and x.func.attr == 'format') or \
                            (isinstance(x, ast.Name) and wq.tokens.get(x.id, ('',))[0] == 'fresh' and wq.tokens[x.id][1] == 'str')
                    seen_safe += 1
                    seen_unsafe += 1
                    if esc(safe_v) and polar_bad is None:
                        polar_bad = 'a safe character is stored escaped (%s)' % txt(safe_v)
                    if not esc(unsafe_v) and polar_bad is None:
                        polar_bad = 'an unsafe character is stored as %s' % txt(unsafe_v)
            elif o.kind == 'sub_store' and last_truth is not None and o.info is not None:
                v = wq.expand(o.info)
                is_escape = isinstance(v, (ast.JoinedStr, ast.BinOp)) or (isinstance(v, ast.Call) and isinstance(v.func, ast.Attribute)
                                                                          and v.func.attr == 'format') or \
                    (isinstance(v, ast.Name) and wq.tokens.get(v.id, ('',))[0] == 'fresh' and wq.tokens[v.id][1] == 'str')
                if last_truth:
                    seen_safe += 1
                    if is_escape and polar_bad is None:
                        polar_bad = 'a safe character is stored escaped (%s)' % txt(v)
                else:
                    seen_unsafe += 1
                    if not is_escape and polar_bad is None:
                        polar_bad = 'an unsafe character is stored as %s' % txt(v)
    branch_ok = seen_safe > 0 and seen_unsafe > 0 and polar_bad is None
    if polar_bad:
        detail = (detail + '; ' if detail else '') + polar_bad
    if not detail:
        raise AnalysisError('%s: no recognisable "%%" + hex formatting construct' % fn.fq)
    ctx.ob('T12.qmap', fn.fq, 'unsafe byte b -> "%" + two UPPER-case hex digits of b, safe -> itself, for all 256 bytes',
           ok_range and fmt_ok and branch_ok, loc=fn.loc,
           detail='range(256): %s; %s; branch on membership in %s: %s' % (ok_range, detail, fn.params[0], branch_ok))


def check_unquote_text(ctx, fn):
    """unquote (text): the string is split into escape runs and the plain text between them; in every step of the rebuilding
    loop BOTH pieces reach the output -- the escape run through unquote_to_bytes(...).decode(...), the plain piece as it is."""
    from rules.common import paths_of as _po
    w, paths = _po(ctx.program, fn)
    n = 0
    for p in paths:
        ops = p.ops
        bounds = [o.seq for o in ops if o.kind == 'iter_next' and o.info is True] + [10 ** 9]
        for a, b in zip(bounds, bounds[1:]):
            end = next((o.seq for o in ops if o.seq > a and o.kind == 'iter_next' and o.info is False), 10 ** 9)
            seg = [o for o in ops if a < o.seq < min(b, end)]
            vals = []
            for o in seg:
                if o.kind == 'call' and o.val.args and (
                        (isinstance(o.val.func, ast.Attribute) and o.val.func.attr == 'append') or
                        (isinstance(o.val.func, ast.Name) and w.tokens.get(o.val.func.id, ('',))[0] != 'call' and
                         txt(w.expand(o.val.func)).endswith('.append'))):
                    vals.append(txt(w.expand(o.val.args[0])))
                elif o.kind == 'call' and isinstance(o.val.func, ast.Attribute) and o.val.func.attr == 'extend' and o.val.args and \
                        isinstance(o.val.args[0], (ast.Tuple, ast.List)):
                    vals += [txt(w.expand(x)) for x in o.val.args[0].elts]
            if not vals:
                continue
            n += 1
            dec = [v for v in vals if 'unquote_to_bytes(' in v]
            raw = [v for v in vals if 'unquote_to_bytes(' not in v]
            ok = len(dec) == 1 and len(raw) == 1
            ctx.ob('T12.unqs', fn.fq, 'each step of the rebuilding loop emits the decoded escape run and the plain text that follows it',
                   ok, loc=fn.loc, detail='emits %s' % vals, path=p.describe() if not ok else None)
    if n == 0:
        ctx.unknown('T12.unqs', fn.fq, 'no rebuilding loop with appends found', fn.loc)


def check_unquote_to_bytes(ctx, fn):
    class M(Model):
        def sub_raises(self, walker, op, st):
            if op.kind == 'sub_load' and txt(op.val.value) == '_HEX_CHAR_MAP':
                return ('KeyError',)
            return ()

        def call_raises(self, walker, op, st):
            return ()
    w = Walker(ctx.program, M(ctx.program))
    ok_miss = ok_hit = False
    bad_miss = bad_hit = None
    n = 0
    for p in w.paths(fn):
        if p.kind == 'cutoff':
            continue
        n += 1
        ops = p.ops
        bounds = [o.seq for o in ops if o.kind == 'iter_next' and o.info is True] + [10 ** 9]
        for a, b in zip(bounds, bounds[1:]):
            seg = [o for o in ops if a < o.seq < b]
            emitted = []
            for o in seg:
                def _pieces(e):
                    # a + b appended at once is a, then b
                    e = w.expand(e)
                    if isinstance(e, ast.BinOp) and isinstance(e.op, ast.Add):
                        return _pieces(e.left) + _pieces(e.right)
                    return [txt(e)]
                if o.kind == 'call' and isinstance(o.val.func, ast.Attribute) and o.val.func.attr == 'append' and o.val.args:
                    emitted.extend(_pieces(o.val.args[0]))
                elif o.kind == 'call' and isinstance(o.val.func, ast.Attribute) and o.val.func.attr == 'extend' and o.val.args \
                        and isinstance(o.val.args[0], (ast.Tuple, ast.List)):
                    for x in o.val.args[0].elts:
                        emitted.extend(_pieces(x))
            if not emitted:
                continue
            looked = [o for o in seg if (o.kind == 'sub_load' and txt(o.val.value) == '_HEX_CHAR_MAP') or
                      (o.kind == 'call' and txt(o.val.func) == '_HEX_CHAR_MAP.get')]
            if not looked:
                continue
            missed = any(o.kind == 'except' and o.info == 'KeyError' for o in seg)
            for t, truth, o in [(t, tr, o) for t, tr, o in __import__('rules.common', fromlist=['tests_on']).tests_on(w, p) if a < o.seq < b]:
                if t.startswith('_HEX_CHAR_MAP.get(') and t.endswith(' is None'):
                    missed = truth
                elif t.startswith('_HEX_CHAR_MAP.get(') and t.endswith(' is not None'):
                    missed = not truth
            item = None
            for o in looked:
                e = w.expand(o.val.slice if o.kind == 'sub_load' else o.val.args[0])
                if isinstance(e, ast.Subscript):
                    item = txt(e.value)
            if item is None:
                continue
            if missed:
                good = emitted[-2:] == ["b'%'", item]
                ok_miss = ok_miss or good
                if not good:
                    bad_miss = emitted
            else:
                good = len(emitted) >= 2 and emitted[-1] == item + '[2:]' and '_HEX_CHAR_MAP' in emitted[-2] and item + '[:2]' in emitted[-2]
                ok_hit = ok_hit or good
                if not good:
                    bad_hit = emitted
    if n == 0 or (not ok_miss and bad_miss is None) or (not ok_hit and bad_hit is None):
        raise AnalysisError('%s: hit/miss emission sites not recognised' % fn.fq)
    ctx.ob('T12.unq', fn.fq, 'a %%XX escape is replaced by the byte and the rest of the chunk kept; anything else is '
           're-emitted as "%%" + the chunk unchanged', ok_miss and ok_hit and bad_miss is None and bad_hit is None, loc=fn.loc,
           detail='paths %d; hit ok: %s (bad: %s); miss ok: %s (bad: %s)' % (n, ok_hit, bad_hit, ok_miss, bad_miss))


# ---------------------------------------------------------------------------
# T13 sanitizer flow
def parents_of(root):
    par = {}
    for n in ast.walk(root):
        for c in ast.iter_child_nodes(n):
            par[c] = n
    return par


def check_flow(ctx):
    prog = ctx.program
    ci = prog.cls(MOD + '.URL')
    qci = prog.cls(MOD + '.QueryParamDict')

    def uses(fn, expr_txt):
        return [n for n in ast.walk(fn.node) if isinstance(n, (ast.Attribute, ast.Name)) and txt(n) == expr_txt
                and isinstance(getattr(n, 'ctx', None), ast.Load)]

    def classify(fn, node, par, quote, need_fq, _depth=0):
        """'quoted' | 'test' | 'raw'."""
        p = par.get(node)
        # unwrap to_unicode(x)
        cur = node
        while isinstance(p, ast.Call) and call_name(p) in ('to_unicode', 'str') and p.args and p.args[0] is cur:
            cur, p = p, par.get(p)
        # a small quoting helper defined inside fn (closure over the caller's mode) or next to it (mode passed on)
        if isinstance(p, ast.Call) and isinstance(p.func, ast.Name) and p.args and p.args[0] is cur and _depth < 2:
            helper = next((d for d in ast.walk(fn.node) if isinstance(d, ast.FunctionDef) and d is not fn.node
                           and d.name == p.func.id), None)
            closure = helper is not None
            if helper is None and p.func.id in fn.module.functions and p.func.id.startswith('_'):
                helper = fn.module.functions[p.func.id].node
            if helper is not None and helper.args.args:
                hp = helper.args.args[0].arg
                hparams = [a.arg for a in helper.args.args]
                if need_fq and 'full_quote' in hparams:
                    kws = {k.arg: txt(k.value) for k in p.keywords}
                    i = hparams.index('full_quote')
                    given = kws.get('full_quote', txt(p.args[i]) if len(p.args) > i else None)
                    if given != 'full_quote':
                        return 'quoted-but-mode-not-forwarded'
                elif need_fq and not closure:
                    return 'raw'
                hpar = parents_of(helper)
                loads = [x for x in ast.walk(helper) if isinstance(x, ast.Name) and x.id == hp and isinstance(x.ctx, ast.Load)]
                kinds = {classify(fn, x, hpar, quote, need_fq, _depth + 1) for x in loads}
                if loads and kinds <= {'quoted', 'test'} and 'quoted' in kinds:
                    return 'quoted'
                return sorted(kinds - {'quoted', 'test'})[0] if kinds - {'quoted', 'test'} else 'raw'
        if isinstance(p, ast.Call) and call_name(p) == quote and p.args and p.args[0] is cur:
            if need_fq:
                kws = {k.arg: txt(k.value) for k in p.keywords}
                fq = kws.get('full_quote', txt(p.args[1]) if len(p.args) > 1 else None)
                if fq != 'full_quote':
                    return 'quoted-but-mode-not-forwarded'
            else:
                kws = {k.arg: txt(k.value) for k in p.keywords}
                fq = kws.get('full_quote', txt(p.args[1]) if len(p.args) > 1 else 'True')
                if fq not in ('True',):
                    return 'quoted-but-not-fully'
            return 'quoted'
        # truthiness / None tests
        q = p
        c = cur
        while isinstance(q, (ast.BoolOp, ast.UnaryOp)):
            c, q = q, par.get(q)
        if isinstance(q, (ast.If, ast.IfExp, ast.While)) and q.test is c:
            return 'test'
        if isinstance(p, ast.Compare) and all(isinstance(o, (ast.Is, ast.IsNot)) for o in p.ops):
            return 'test'
        return 'raw'

    def run(fn, subject, quote, need_fq, what):
        par = parents_of(fn.node)
        us = uses(fn, subject)
        if not us:
            ctx.unknown('T13', fn.fq, 'no use of %s found (%s rendered elsewhere?)' % (subject, what), fn.loc)
            return
        for n in us:
            k = classify(fn, n, par, quote, need_fq)
            ok = k in ('quoted', 'test')
            ctx.ob('T13', fn.fq, '%s (`%s`) reaches the output only through %s%s' % (
                what, subject, quote, ' with the caller\'s full_quote' if need_fq else ' (always fully quoted)'),
                ok, loc='%s:%d' % (fn.module.relpath, n.lineno), detail='' if ok else 'use is %s' % k)
    ga = prog.func(MOD + '.URL.get_authority')
    tt = prog.func(MOD + '.URL.to_text')
    qt = prog.func(MOD + '.QueryParamDict.to_text')
    ctx.saw('functions', ga.fq)
    ctx.saw('functions', tt.fq)
    ctx.saw('functions', qt.fq)
    run(ga, 'self.username', 'quote_userinfo_part', False, 'username')
    run(ga, 'self.password', 'quote_userinfo_part', False, 'password')
    run(tt, 'self.fragment', 'quote_fragment_part', True, 'fragment')
    # path segments: every segment goes through quote_path_part with the caller's mode, in to_text itself or in a
    # helper method it delegates to (with the mode passed on)
    def segments_quoted(fn, mode):
        """(ok, detail): all uses of self.path_parts in fn iterate it and quote each element with `mode`."""
        par = parents_of(fn.node)
        us = uses(fn, 'self.path_parts')
        if not us:
            return None, 'no use of self.path_parts'
        for n in us:
            p = par.get(n)
            elem = None
            scope = None
            if isinstance(p, ast.comprehension) and p.iter is n:
                elem, scope = txt(p.target), par.get(p)
            elif isinstance(p, ast.For) and p.iter is n:
                elem, scope = txt(p.target), p
            else:
                return False, 'self.path_parts used outside an iteration: %s' % txt(p)
            seen_q = False
            for x in ast.walk(scope):
                if isinstance(x, ast.Name) and x.id == elem and isinstance(x.ctx, ast.Load):
                    px = par.get(x)
                    if not (isinstance(px, ast.Call) and call_name(px) == 'quote_path_part' and px.args and px.args[0] is x):
                        return False, 'segment `%s` used outside quote_path_part' % elem
                    kws = {k.arg: txt(k.value) for k in px.keywords}
                    fqv = kws.get('full_quote', txt(px.args[1]) if len(px.args) > 1 else None)
                    if fqv != mode:
                        return False, 'quote_path_part is not given the caller\'s mode (%s)' % fqv
                    seen_q = True
            if not seen_q:
                return False, 'segments are not quoted'
        return True, 'each segment through quote_path_part(.., full_quote=%s)' % mode
    ok, det = segments_quoted(tt, 'full_quote')
    if ok is None:
        ok = False
        for n in ast.walk(tt.node):
            if isinstance(n, ast.Call) and isinstance(n.func, ast.Attribute) and txt(n.func.value) == 'self':
                h = prog.resolve(ci, n.func.attr)
                if isinstance(h, FuncInfo) and uses(h, 'self.path_parts'):
                    ps = h.params[1:]
                    bound = {}
                    for i, a in enumerate(n.args):
                        if i < len(ps):
                            bound[ps[i]] = txt(a)
                    for k in n.keywords:
                        bound[k.arg] = txt(k.value)
                    modes = [k for k, v in bound.items() if v == 'full_quote']
                    if modes:
                        ok, det = segments_quoted(h, modes[0])
                        det = '%s via %s' % (det, h.qualname)
                    else:
                        ok, det = False, '%s is not given the caller\'s full_quote' % h.qualname
    ctx.ob('T13', tt.fq, 'every path segment reaches the output only through quote_path_part with the caller\'s full_quote',
           bool(ok), loc=tt.loc, detail=det)
    # sub-renderers are called with the caller's mode
    for callee, kw in (('self.get_authority', {'full_quote': 'full_quote', 'with_userinfo': 'True'}),
                       ('self.query_params.to_text', {'full_quote': 'full_quote'})):
        calls = [n for n in ast.walk(tt.node) if isinstance(n, ast.Call) and txt(n.func) == callee]
        ok = bool(calls) and all({k.arg: txt(k.value) for k in c.keywords} == kw for c in calls)
        ctx.ob('T13', tt.fq, '%s is invoked with %s' % (callee, kw), ok, loc=tt.loc)
    # query keys and values
    par = parents_of(qt.node)
    loops = [n for n in ast.walk(qt.node) if isinstance(n, ast.For) and isinstance(n.target, ast.Tuple)
             and len(n.target.elts) == 2]
    if not loops:
        ctx.unknown('T13', qt.fq, 'no loop over (key, value) pairs found', qt.loc)
    for lp in loops:
        kname, vname = txt(lp.target.elts[0]), txt(lp.target.elts[1])
        multi = isinstance(lp.iter, ast.Call) and any(k.arg == 'multi' and txt(k.value) == 'True' for k in lp.iter.keywords)
        ctx.ob('T13', qt.fq, 'all pairs (multi=True) are rendered', multi, loc='%s:%d' % (qt.module.relpath, lp.lineno),
               detail=txt(lp.iter))
        for nm, what in ((kname, 'query key'), (vname, 'query value')):
            for n in [x for x in ast.walk(lp) if isinstance(x, ast.Name) and x.id == nm and isinstance(x.ctx, ast.Load)]:
                k = classify(qt, n, par, 'quote_query_part', True)
                ok = k in ('quoted', 'test')
                ctx.ob('T13', qt.fq, '%s (`%s`) reaches the output only through quote_query_part with the caller\'s '
                       'full_quote' % (what, nm), ok, loc='%s:%d' % (qt.module.relpath, n.lineno),
                       detail='' if ok else 'use is %s' % k)


# ---------------------------------------------------------------------------
# T14 exception escape
class UrlRaiseModel(Model):
    """Closed typed may-raise table for the URL parsing code (trusted base)."""

    def inline(self, walker, op, callee, st):
        return False        # compositional: callees contribute their escape-type summaries

    def call_raises(self, walker, op, st):
        v = op.val
        name = call_name(op.node)
        f = v.func
        if name == 'int':
            return ('ValueError',)
        if name in ('inet_pton', 'socket.inet_pton'):
            return ('OSError', 'UnicodeEncodeError', 'ValueError')
        if isinstance(f, ast.Attribute):
            if f.attr == 'decode':
                args = [a.value if isinstance(a, ast.Constant) else None for a in v.args]
                codec = args[0] if args else 'utf-8'
                errors = args[1] if len(args) > 1 else 'strict'
                for k in v.keywords:
                    if k.arg == 'errors' and isinstance(k.value, ast.Constant):
                        errors = k.value.value
                if errors in ('replace', 'ignore', 'surrogateescape', 'backslashreplace'):
                    return ()
                if codec is None:
                    # codec is a module constant (DEFAULT_ENCODING)
                    return ('UnicodeDecodeError',)
                if str(codec).lower() == 'idna':
                    return ('UnicodeError',)
                return ('UnicodeDecodeError',)
            if f.attr == 'encode':
                codec = v.args[0].value if v.args and isinstance(v.args[0], ast.Constant) else 'utf-8'
                c = str(codec).lower().replace('-', '')
                if c in ('utf8',):
                    return ()
                if c == 'idna':
                    return ('UnicodeError',)
                return ('UnicodeEncodeError',)
            if f.attr == 'groupdict':
                # re.match(...) may have returned None -- unless the path already tested it
                recv = txt(walker.expand(f.value))
                t = st.trace
                while t is not None:
                    o = t[0]
                    t = t[1]
                    if o.kind == 'test':
                        e = walker.expand(o.val)
                        neg = False
                        while isinstance(e, ast.UnaryOp) and isinstance(e.op, ast.Not):
                            neg = not neg
                            e = e.operand
                        truth = (o.info != neg)
                        te = txt(e)
                        if (te == recv + ' is None' and not truth) or (te == recv + ' is not None' and truth) or (te == recv and truth):
                            return ()
                return ('AttributeError',)
        callee = op.info
        if isinstance(callee, tuple) and callee[0] == 'class':
            if callee[1].name == 'URL':
                return ('URLParseError',)
            return ()
        if isinstance(callee, FuncInfo) and callee.module.name == MOD:
            return walker.escape_types(callee, op.recv, bind=walker.default_bind(callee, v))
        return ()

    def sub_raises(self, walker, op, st):
        if op.kind == 'sub_load' and txt(op.val.value) == '_HEX_CHAR_MAP':
            return ('KeyError',)
        return ()


def check_escape(ctx):
    prog = ctx.program
    model = UrlRaiseModel(prog)
    lat = model.lattice
    ci = prog.cls(MOD + '.URL')
    init = prog.func(MOD + '.URL.__init__')
    ctx.saw('functions', init.fq)
    for f in ('parse_url', 'parse_host', 'unquote', 'unquote_to_bytes'):
        ctx.saw('functions', MOD + '.' + f)
    summaries = {}
    for f in ('parse_url', 'parse_host', 'unquote', 'unquote_to_bytes', 'to_unicode'):
        fi = prog.func(MOD + '.' + f)
        summaries[f] = list(Walker(prog, model).escape_types(fi, None, bind=Walker(prog, model).default_bind(
            fi, ast.Call(func=ast.Name(id=f), args=[ast.Name(id='x')], keywords=[]))))
    ctx.extra['escape_summaries'] = summaries
    w = Walker(prog, model)
    paths = [p for p in w.paths(init, recv=ci) if p.kind != 'cutoff']
    esc = {}
    n_raise_points = set()
    for p in paths:
        for o in p.ops:
            if o.kind == 'raise_at':
                n_raise_points.add((o.line, o.info))
        if p.kind == 'raise':
            t = p.outcome[1]
            if not lat.le(t, 'URLParseError'):
                ras = [o for o in p.ops if o.kind in ('raise_at', 'raise')]
                key = (t, ras[-1].line if ras else 0)
                esc.setdefault(key, (p, ras[-1] if ras else None))
    ctx.extra['raise_points_modelled'] = sorted('%d:%s' % x for x in n_raise_points)
    ctx.extra['paths_enumerated'] = len(paths)
    for (t, line), (p, o) in sorted(esc.items()):
        ctx.ob('T14', init.fq, 'only URLParseError may leave URL(text): %s raised at `%s` escapes'
               % (t, ' '.join(ast.unparse(o.node).split())[:70] if o is not None else '?'), False,
               loc='%s:%d' % ((o.fn.module.relpath if o is not None and o.fn else init.module.relpath), line),
               path=p.describe())
    if not esc:
        ctx.ob('T14', init.fq, 'every exception type that can leave URL(text) is URLParseError (%d typed raise points '
               'on %d paths through parse_url/parse_host/unquote)' % (len(n_raise_points), len(paths)), True, loc=init.loc)
    # find_all_links: nothing escapes given the above
    fal = prog.func(MOD + '.find_all_links')
    ctx.saw('functions', fal.fq)

    class FalModel(UrlRaiseModel):
        def inline(self, walker, op, callee, st):
            return False
    w2 = Walker(prog, FalModel(prog))
    bad = {}
    n = 0
    for p in w2.paths(fal):
        if p.kind == 'cutoff':
            continue
        n += 1
        if p.kind == 'raise':
            ras = [o for o in p.ops if o.kind in ('raise_at', 'raise')]
            bad.setdefault((p.outcome[1], ras[-1].line if ras else 0), (p, ras[-1] if ras else None))
    for (t, line), (p, o) in sorted(bad.items()):
        ctx.ob('T14', fal.fq, 'find_all_links never raises: %s from `%s` is not handled' % (
            t, ' '.join(ast.unparse(o.node).split())[:70] if o is not None else '?'), False,
            loc='%s:%d' % (fal.module.relpath, line), path=p.describe())
    if not bad:
        ctx.ob('T14', fal.fq, 'every URL(...) construction in find_all_links is inside a handler for URLParseError '
               '(%d paths)' % n, True, loc=fal.loc)
