"""C17 rules: OneToOne (paired forward/inverse writes), ManyToMany (paired set
updates, no foreign alias, guarded store), FrozenDict (mutator closure,
order-insensitive hash)."""
import ast

from sa.index import Builtin, FuncInfo, DICT_MUTATORS, AnalysisError
from sa.paths import Walker, Model, call_name
from sa.access import accesses
from rules.locks import is_private


def txt(v):
    if v is None:
        return ''
    try:
        return ' '.join(ast.unparse(v).split())
    except Exception:
        return ''


class PlainModel(Model):
    """hash() may raise TypeError; forward lookups raise KeyError unless the key was
    already found on the path; by the invariant being proved (forward and inverse
    mirror each other on entry) deleting a value found in the forward dict from the
    inverse cannot fail."""

    def _found(self, walker, st, key):
        t = st.trace
        nxt_raise = None
        while t is not None:
            o = t[0]
            t = t[1]
            if o.kind == 'raise_at':
                nxt_raise = o.node
                continue
            failed = nxt_raise is o.node
            nxt_raise = None
            if failed:
                continue
            if o.kind == 'test' and txt(walker.expand(o.val)) == '%s in self' % key and o.info is True:
                return True
            if o.kind == 'test' and txt(walker.expand(o.val)) == '%s not in self' % key and o.info is False:
                return True
            if o.kind == 'sub_load' and txt(o.val.value) == 'self' and txt(o.val.slice) == key:
                return True
        return False

    def call_raises(self, walker, op, st):
        name = call_name(op.val)
        v = op.val
        if name == 'hash':
            return ('TypeError',)
        if isinstance(v.func, ast.Attribute) and isinstance(v.func.value, ast.Name) and v.func.value.id == 'dict' \
                and v.func.attr in ('pop', '__delitem__', '__getitem__', 'popitem') and v.args:
            if txt(v.args[0]) != 'self':
                return ()
            if v.func.attr == 'popitem':
                return ('KeyError',)
            if v.func.attr == 'pop' and len(v.args) > 2:
                return ()
            if len(v.args) > 1 and self._found(walker, st.clone(trace=st.trace[1]), txt(v.args[1])):
                return ()
            return ('KeyError',)
        return ()

    def sub_raises(self, walker, op, st):
        if op.kind == 'sub_load' and txt(op.val.value) == 'self' and walker.root_recv is not None and \
                isinstance(self.program.resolve(walker.root_recv, '__getitem__'), Builtin):
            if self._found(walker, st.clone(trace=st.trace[1]), txt(op.val.slice)):
                return ()
            return ('KeyError',)
        return ()


# ---------------------------------------------------------------------------
# OneToOne
def oto_effects(w, path):
    out = []
    for op in path.ops:
        v = op.val
        if op.kind == 'call' and isinstance(v.func, ast.Attribute) and isinstance(v.func.value, ast.Name) \
                and v.func.value.id == 'dict' and v.args:
            side = {'self': 'F', 'self.inv': 'I'}.get(txt(v.args[0]))
            if side is None:
                continue
            a = [txt(w.expand(x)) for x in v.args[1:]]
            n = v.func.attr
            if n == '__setitem__' and len(a) >= 2:
                out.append((side + '_SET', a[0], a[1], op))
            elif n in ('__delitem__', 'pop') and a:
                out.append((side + '_DEL', a[0], None, op))
            elif n == 'popitem':
                out.append((side + '_POPITEM', None, None, op))
            elif n == 'clear':
                out.append((side + '_CLEAR', None, None, op))
            elif n in ('update', '__ior__', 'setdefault', '__init__'):
                out.append((side + '_BULK', n, None, op))
        elif op.kind == 'call':
            for a in accesses(w, op):
                if a.obj == 'self' and a.kind == 'builtin' and a.target.base == 'dict' and a.via == 'super' \
                        and a.name in DICT_MUTATORS:
                    out.append(('F_BULK', 'super().' + a.name, None, op))
        elif op.kind == 'sub_del' and txt(v.value) == 'self.inv':
            out.append(('INV_OP_DEL', txt(v.slice), None, op))
        elif op.kind == 'sub_del' and txt(v.value) == 'self':
            out.append(('OP_DEL', txt(v.slice), None, op))
        elif op.kind == 'sub_store' and txt(v.value) == 'self':
            out.append(('OP_SET', txt(v.slice), txt(op.info), op))
        elif op.kind == 'sub_store' and txt(v.value) == 'self.inv':
            out.append(('INV_OP_SET', txt(v.slice), txt(op.info), op))
        elif op.kind == 'test':
            out.append(('TEST', txt(w.expand(v)), op.info, op))
    return out


def says(effs, upto_seq, member, container, want):
    """A test before upto_seq establishes (member in container) == want."""
    for kind, a, b, op in effs:
        if kind != 'TEST' or op.seq >= upto_seq:
            continue
        t = a
        pos = None
        if t == '%s in %s' % (member, container):
            pos = b
        elif t == '%s not in %s' % (member, container):
            pos = not b
        elif t == 'not %s in %s' % (member, container):
            pos = not b
        if pos is not None and pos == want:
            return True
    return False


def check_prehash(ctx, ci):
    """OneToOne.update is all-or-nothing with respect to unhashable items: every loop that walks a source *before* the storing
    loop hashes each item it binds (values always; keys too unless they come out of a dict), so a TypeError is raised before
    the first pair is stored."""
    up = ci.own('update')
    if not isinstance(up, FuncInfo):
        return
    loops = [n for n in ast.walk(up.node) if isinstance(n, ast.For)]
    storing = [n for n in loops if any(isinstance(x, ast.Subscript) and isinstance(x.ctx, ast.Store) and txt(x.value) == 'self'
                                       for x in ast.walk(n))]
    if not storing:
        ctx.unknown('T2.prehash', up.fq, 'no storing loop (self[key] = val) found', up.loc)
        return
    first_store = min(n.lineno for n in storing)
    pre = [n for n in loops if n.lineno < first_store and n not in storing]
    # validation extracted into a private module-level helper called before the storing loop
    first_loop = min(storing, key=lambda n: n.lineno)
    in_iter = {id(x) for x in ast.walk(first_loop.iter)}
    for c in ast.walk(up.node):
        if isinstance(c, ast.Call) and isinstance(c.func, ast.Name) and c.func.id.startswith('_') and c.func.id in up.module.functions \
                and (c.lineno < first_store or id(c) in in_iter):
            pre += [n for n in ast.walk(up.module.functions[c.func.id].node) if isinstance(n, ast.For)]
    if not pre:
        ctx.ob('T2.prehash', up.fq, 'items are validated (hashed) before the first pair is stored', False, loc=up.loc,
               detail='no validating loop before the storing loop')
        return
    for lp in pre:
        names = [x.id for x in ast.walk(lp.target) if isinstance(x, ast.Name)]
        it = txt(lp.iter)
        from_dict_values = it.endswith('.values()')
        from_dict_keys = it.endswith('.keys()') or it.endswith('.items()') and False
        hashed = {txt(c.args[0]) for c in ast.walk(lp) if isinstance(c, ast.Call) and call_name(c) == 'hash' and c.args}
        # ... or hands them to a private helper that hashes its argument / every element of its argument
        for c in ast.walk(lp):
            if not isinstance(c, ast.Call):
                continue
            h = None
            if isinstance(c.func, ast.Name) and c.func.id.startswith('_'):
                h = up.module.functions.get(c.func.id)
            elif isinstance(c.func, ast.Attribute) and isinstance(c.func.value, ast.Name) and c.func.value.id in ('self', 'cls', ci.name) \
                    and c.func.attr.startswith('_'):
                h = ci.own(c.func.attr)
            if not isinstance(h, FuncInfo):
                continue
            params = [a.arg for a in h.node.args.args]
            if params and params[0] in ('self', 'cls') and isinstance(c.func, ast.Attribute) and not any(
                    isinstance(d, ast.Name) and d.id == 'staticmethod' for d in h.node.decorator_list):
                params = params[1:]
            whole = {txt(x.args[0]) for x in ast.walk(h.node) if isinstance(x, ast.Call) and call_name(x) == 'hash' and x.args}
            each = set()
            for f in ast.walk(h.node):
                if isinstance(f, ast.For) and isinstance(f.iter, ast.Name) and isinstance(f.target, ast.Name) and f.body and \
                        isinstance(f.body[0], ast.Expr) and isinstance(f.body[0].value, ast.Call) and call_name(f.body[0].value) == 'hash' \
                        and f.body[0].value.args and txt(f.body[0].value.args[0]) == f.target.id:
                    each.add(f.iter.id)
            for prm, arg in zip(params, c.args):
                if isinstance(arg, ast.Starred):
                    break
                if prm in whole and isinstance(arg, ast.Name):
                    hashed.add(arg.id)
                if prm in each and isinstance(arg, (ast.Tuple, ast.List)):
                    hashed |= {e.id for e in arg.elts if isinstance(e, ast.Name)}
        need = [nm for nm in names if nm != '_']
        ok = all(nm in hashed for nm in need)
        ctx.ob('T2.prehash', up.fq, 'the loop over `%s` hashes every item it binds before anything is stored (a TypeError leaves the '
               'mapping untouched)' % it, ok, loc='%s:%d' % (up.module.relpath, lp.lineno),
               detail='binds %s, hashes %s' % (need, sorted(hashed)))


def check_onetoone(ctx, cls_fq):
    prog = ctx.program
    ci = prog.cls(cls_fq)
    ctx.saw('classes', cls_fq)
    check_prehash(ctx, ci)
    for name in DICT_MUTATORS:
        if name == '__init__':
            continue
        m = prog.resolve(ci, name)
        ctx.ob('T1', '%s.%s' % (cls_fq, name), 'dict mutator is overridden (the C-level one updates one side only)',
               isinstance(m, FuncInfo), loc='%s:%d' % (ci.module.relpath, ci.node.lineno), detail='resolves to %r' % (m,))
    model = PlainModel(prog)
    for name in sorted(ci.members):
        m = ci.own(name)
        if not isinstance(m, FuncInfo) or m.is_classmethod() or m.is_static() or name in ('__init__', '__repr__'):
            continue
        construct = '%s.%s' % (cls_fq, name)
        ctx.saw('functions', m.fq)
        w = Walker(prog, model)
        paths = [p for p in w.paths(m, recv=ci) if p.kind != 'cutoff']
        bad = {}
        n_eff = 0
        for p in paths:
            effs = oto_effects(w, p)
            E = [e for e in effs if e[0] != 'TEST']
            n_eff += len(E)
            raised = {id(o.node) for o in p.ops if o.kind == 'raise_at'}
            E = [e for e in E if id(e[3].node) not in raised]
            for e in E:
                kind, a, b, op = e
                if kind.endswith('_BULK'):
                    bad.setdefault(('bulk', op.line), (op, p, 'one side changed by bulk C-level %s' % a))
                if kind == 'F_SET':
                    if not any(x[0] == 'I_SET' and x[1] == b and x[2] == a for x in E):
                        bad.setdefault(('fset', op.line), (op, p, 'forward[%s] = %s without inverse[%s] = %s' % (a, b, b, a)))
                    # old partner of the key removed from the inverse
                    if not (says(effs, op.seq, a, 'self', False) or
                            any(x[0] == 'I_DEL' and x[1] == 'self[%s]' % a and x[3].seq < op.seq for x in E)):
                        bad.setdefault(('fset-old', op.line), (op, p, 'forward[%s] overwritten without removing its previous '
                                       'partner from the inverse (no `%s in self` test false, no inverse delete of self[%s])' % (a, a, a)))
                if kind == 'I_SET':
                    if not any(x[0] == 'F_SET' and x[1] == b and x[2] == a for x in E):
                        bad.setdefault(('iset', op.line), (op, p, 'inverse[%s] = %s without forward[%s] = %s' % (a, b, b, a)))
                    if not (says(effs, op.seq, a, 'self.inv', False) or
                            any(x[0] == 'INV_OP_DEL' and x[1] == a and x[3].seq < op.seq for x in E) or
                            any(x[0] == 'F_DEL' and x[1] == 'self.inv[%s]' % a and x[3].seq < op.seq for x in E)):
                        bad.setdefault(('iset-old', op.line), (op, p, 'inverse[%s] overwritten without evicting the key that held '
                                       'value %s (no `%s in self.inv` test false on this path, no removal through the inverse)' % (a, a, a)))
                if kind == 'F_DEL':
                    if not any(x[0] == 'I_DEL' and x[1] == 'self[%s]' % a and x[3].seq < op.seq for x in E):
                        bad.setdefault(('fdel', op.line), (op, p, 'forward key %s deleted without deleting self[%s] from the inverse first' % (a, a)))
                if kind == 'F_POPITEM':
                    tok = None
                    for nm, info in w.tokens.items():
                        if info[0] == 'call' and len(info) > 2 and info[2] is op:
                            tok = nm
                    if not any(x[0] == 'I_DEL' and x[1] in ('%s[1]' % tok, 'dict.popitem(self)[1]') for x in E):
                        bad.setdefault(('fpop', op.line), (op, p, 'popitem() without deleting the popped value from the inverse'))
                if kind == 'I_DEL':
                    ok = any(x[0] in ('F_DEL', 'F_SET') and ('self[%s]' % x[1]) == a for x in E) or \
                        any(x[0] == 'F_POPITEM' for x in E)
                    if not ok:
                        bad.setdefault(('idel', op.line), (op, p, 'inverse entry %s deleted but the forward key keeps pointing at it' % a))
                if kind == 'F_CLEAR' and not any(x[0] == 'I_CLEAR' for x in E):
                    bad.setdefault(('clear', op.line), (op, p, 'forward side cleared without the inverse'))
                if kind == 'I_CLEAR' and not any(x[0] == 'F_CLEAR' for x in E):
                    bad.setdefault(('clear', op.line), (op, p, 'inverse cleared without the forward side'))
            if name == '__setitem__':
                # hash(val) -- the only raising step -- precedes every effect
                first_eff = min([e[3].seq for e in E], default=None)
                hashes = [o for o in p.ops if o.kind == 'call' and call_name(o.val) == 'hash']
                if first_eff is not None and not (hashes and hashes[0].seq < first_eff):
                    bad.setdefault(('hash', m.node.lineno), (p.ops[0], p, 'value is not validated with hash() before the first write '
                                                             '(an unhashable value would leave a half-applied update)'))
        for k, (op, p, why) in sorted(bad.items(), key=lambda kv: str(kv[0])):
            ctx.ob('T2', construct, why, False, loc='%s:%d' % (m.module.relpath, op.line), path=p.describe())
        if not bad:
            ctx.ob('T2', construct, 'forward and inverse dicts are written in pairs on all %d paths' % len(paths), True,
                   loc=m.loc, detail='%d direct effects' % n_eff, nontrivial=n_eff > 0)


# ---------------------------------------------------------------------------
# ManyToMany
def m2m_side(w, v):
    """'D' for self.data, 'I' for self.inv.data."""
    t = txt(w.expand(v))
    if t == 'self.data':
        return 'D'
    if t == 'self.inv.data':
        return 'I'
    return None


def is_fresh_set(w, v):
    e = w.expand(v)
    if isinstance(e, ast.Call) and call_name(e) in ('set', 'frozenset'):
        return True
    if isinstance(v, ast.Name):
        info = w.tokens.get(v.id)
        if info and info[0] in ('fresh', 'comp') and info[1] == 'set':
            return True
    return False


def moved_from_self(w, v):
    e = w.expand(v)
    return isinstance(e, ast.Call) and isinstance(e.func, ast.Attribute) and e.func.attr == 'pop' and \
        txt(e.func.value) in ('self.data', 'self.inv.data')


def m2m_effects(w, path):
    out = []
    for op in path.ops:
        v = op.val
        if op.kind == 'sub_store':
            s = m2m_side(w, v.value)
            if s:
                out.append((s + '_STORE', txt(v.slice), op.info, op))
        elif op.kind == 'sub_del':
            s = m2m_side(w, v.value)
            if s:
                out.append((s + '_DELKEY', txt(v.slice), None, op))
        elif op.kind == 'call' and isinstance(v.func, ast.Attribute):
            recv = w.expand(v.func.value)
            n = v.func.attr
            s = m2m_side(w, recv)
            if s:
                if n == 'pop' and v.args:
                    out.append((s + '_DELKEY', txt(v.args[0]), None, op))
                elif n == 'setdefault' and len(v.args) >= 2:
                    out.append((s + '_STORE', txt(v.args[0]), v.args[1], op))
                elif n in ('update', 'clear', 'popitem', '__setitem__'):
                    out.append((s + '_BULK', n, None, op))
            elif isinstance(recv, ast.Subscript):
                s2 = m2m_side(w, recv.value)
                if s2:
                    k = txt(recv.slice)
                    if n == 'add' and v.args:
                        out.append((s2 + '_ADD', k, txt(w.expand(v.args[0])), op))
                    elif n in ('remove', 'discard') and v.args:
                        out.append((s2 + '_DISCARD', k, txt(w.expand(v.args[0])), op))
                    elif n == 'update' and v.args:
                        out.append((s2 + '_UPDATE', k, v.args[0], op))
        elif op.kind == 'test':
            out.append(('TEST', txt(w.expand(v)), op.info, op))
    return out


def _mirror(text, a, b):
    """swap forward and inverse side: data <-> inv.data and the two parameter names a <-> b"""
    import re as _re
    t = text.replace('.inv.data', '.\x00').replace('.data', '.inv.data').replace('.\x00', '.data')
    t = _re.sub(r'\b%s\b' % _re.escape(a), '\x01', t)
    t = _re.sub(r'\b%s\b' % _re.escape(b), a, t)
    return t.replace('\x01', b)


def check_mirror(ctx, ci):
    """T25.mirror: ManyToMany keeps two mappings that are mirror images; in add / remove the statements for the inverse side
    are the statements for the forward side with data <-> inv.data and key <-> value swapped, and the bulk merge of another
    ManyToMany treats both sides alike (a step present for one side only leaves the two mappings out of step)."""
    for name in ('add', 'remove'):
        m = ci.own(name)
        if not isinstance(m, FuncInfo) or len(m.params) < 3:
            continue
        a, b = m.params[1], m.params[2]

        def sd(t):
            return 'inv' if t.endswith('.inv.data') else 'fwd' if t.endswith('.data') else None
        eff = set()
        for n in ast.walk(m.node):
            if isinstance(n, ast.Assign) and len(n.targets) == 1 and isinstance(n.targets[0], ast.Subscript) and sd(txt(n.targets[0].value)):
                eff.add(('init', sd(txt(n.targets[0].value)), txt(n.targets[0].slice)))
            elif isinstance(n, ast.Delete):
                for t in n.targets:
                    if isinstance(t, ast.Subscript) and sd(txt(t.value)):
                        eff.add(('del', sd(txt(t.value)), txt(t.slice)))
            elif isinstance(n, ast.Call) and isinstance(n.func, ast.Attribute) and n.func.attr in ('add', 'remove', 'discard') and n.args:
                r = n.func.value
                if isinstance(r, ast.Subscript) and sd(txt(r.value)):
                    eff.add((n.func.attr, sd(txt(r.value)), txt(r.slice), txt(n.args[0])))
                elif isinstance(r, ast.Call) and isinstance(r.func, ast.Attribute) and r.func.attr == 'setdefault' and sd(txt(r.func.value)) \
                        and r.args:
                    eff.add(('init', sd(txt(r.func.value)), txt(r.args[0])))
                    eff.add((n.func.attr, sd(txt(r.func.value)), txt(r.args[0]), txt(n.args[0])))
            elif isinstance(n, ast.Call) and isinstance(n.func, ast.Name) and n.func.id in m.module.functions and len(n.args) >= 3 and \
                    sd(txt(n.args[0])):
                # a shared private helper applied to one side: helper(<side mapping>, a, b)
                eff.add(('helper:' + n.func.id, sd(txt(n.args[0])), txt(n.args[1]), txt(n.args[2])))
        sw = {a: b, b: a}
        fwd = {(e[0],) + tuple(e[2:]) for e in eff if e[1] == 'fwd'}
        inv = {(e[0],) + tuple(sw.get(x, x) for x in e[2:]) for e in eff if e[1] == 'inv'}
        ok = bool(fwd) and fwd == inv
        det = 'forward-only: %s; inverse-only: %s' % (sorted(fwd - inv), sorted(inv - fwd)) if not ok else '%d effects per side' % len(fwd)
        ctx.ob('T25.mirror', m.fq, 'the inverse side is updated by the mirror image of the forward-side effects '
               '(data <-> inv.data, %s <-> %s)' % (a, b), ok, loc='%s:%d' % (m.module.relpath, m.node.lineno), detail=det)
    up = ci.own('update')
    if isinstance(up, FuncInfo):
        # the branch that merges another ManyToMany: loops over <other>.data and <other>.inv.data
        loops = [n for n in ast.walk(up.node) if isinstance(n, ast.For) and isinstance(n.iter, ast.Attribute) and n.iter.attr == 'data']
        fwd = [n for n in loops if not txt(n.iter).endswith('.inv.data')]
        inv = [n for n in loops if txt(n.iter).endswith('.inv.data')]
        def side(t):
            return 'inv' if t.endswith('.inv.data') else 'fwd' if t.endswith('.data') else None

        def loop_sig(loop):
            """effects of a merge loop: (effect, side written, how the value relates to the other object's set, guard)"""
            from rules.common import guard_atoms
            sigs = set()
            var = txt(loop.target)
            for n in ast.walk(loop):
                g = None
                if isinstance(n, ast.Assign) and len(n.targets) == 1 and isinstance(n.targets[0], ast.Subscript) and \
                        side(txt(n.targets[0].value)) and txt(n.targets[0].value).startswith('self.'):
                    v = n.value
                    src = None
                    kind = 'other'
                    if isinstance(v, ast.Call) and call_name(v) in ('set', 'frozenset') and len(v.args) == 1:
                        src, kind = v.args[0], 'copy'
                    elif isinstance(v, ast.SetComp) and len(v.generators) == 1 and not v.generators[0].ifs and \
                            txt(v.elt) == txt(v.generators[0].target):
                        src, kind = v.generators[0].iter, 'copy'
                    elif isinstance(v, ast.Call) and isinstance(v.func, ast.Attribute) and v.func.attr == 'copy' and not v.args:
                        src, kind = v.func.value, 'copy'
                    elif isinstance(v, ast.Subscript):
                        src, kind = v, 'alias'
                    sside = side(txt(src.value)) if isinstance(src, ast.Subscript) else None
                    g = ('store', side(txt(n.targets[0].value)), kind, sside)
                elif isinstance(n, ast.Call) and isinstance(n.func, ast.Attribute) and n.func.attr in ('update', '__ior__') and \
                        isinstance(n.func.value, ast.Subscript) and side(txt(n.func.value.value)) and txt(n.func.value.value).startswith('self.') \
                        and n.args and isinstance(n.args[0], ast.Subscript):
                    g = ('update', side(txt(n.func.value.value)), 'merge', side(txt(n.args[0].value)))
                if g is not None:
                    atoms = guard_atoms(up, n, var)
                    norm = frozenset(frozenset((a.replace('.inv.data', '.D').replace('.data', '.D'), tr) for a, tr in c) for c in atoms)
                    sigs.add(g + (norm,))
            return sigs

        def swap(sig):
            sw = {'fwd': 'inv', 'inv': 'fwd', None: None}
            return {(e, sw[s1], k, sw[s2], g) for e, s1, k, s2, g in sig}
        if fwd or inv:
            ok = len(fwd) == 1 and len(inv) == 1 and bool(loop_sig(fwd[0])) and swap(loop_sig(fwd[0])) == loop_sig(inv[0])
            ctx.ob('T25.mirror', up.fq, 'merging another ManyToMany updates data and inv.data by mirror-image loops', ok,
                   loc='%s:%d' % (up.module.relpath, (fwd or inv)[0].lineno),
                   detail='forward loops %d, inverse loops %d' % (len(fwd), len(inv)))
        else:
            pairs = [n for n in ast.walk(up.node) if isinstance(n, ast.For) and isinstance(n.iter, (ast.Tuple, ast.List)) and
                     len(n.iter.elts) == 2 and '.inv.data' in txt(n.iter.elts[1]) and '.data' in txt(n.iter.elts[0])]
            if pairs:
                ctx.ob('T25.mirror', up.fq, 'merging another ManyToMany runs one loop body over (forward, inverse) pairs: symmetric by '
                       'construction', True, loc='%s:%d' % (up.module.relpath, pairs[0].lineno))
            else:
                ctx.info('T25.mirror: no direct merge of another ManyToMany in update (goes through add)')


def check_manytomany(ctx, cls_fq):
    prog = ctx.program
    ci = prog.cls(cls_fq)
    ctx.saw('classes', cls_fq)
    check_mirror(ctx, ci)
    model = PlainModel(prog)
    for name in sorted(ci.members):
        m = ci.own(name)
        if not isinstance(m, FuncInfo) or name in ('__init__', '__repr__'):
            continue
        construct = '%s.%s' % (cls_fq, name)
        ctx.saw('functions', m.fq)
        w = Walker(prog, model)
        paths = [p for p in w.paths(m, recv=ci) if p.kind != 'cutoff']
        bad = {}
        n_eff = 0
        for p in paths:
            effs = m2m_effects(w, p)
            E = [e for e in effs if e[0] != 'TEST']
            n_eff += len(E)
            for kind, a, b, op in E:
                # T20: nothing read from another object is stored as a value set
                if kind.endswith('_STORE'):
                    if not (is_fresh_set(w, b) or moved_from_self(w, b)):
                        bad.setdefault(('T20', op.line), (op, p, 'T20', 'the set stored under key %s is neither freshly built nor moved out '
                                       'of this instance\'s own storage: `%s` (aliases another object\'s set)' % (a, w.text(b))))
                    elif moved_from_self(w, b):
                        # T21 guarded store of a moved set
                        cont = 'self.data' if kind[0] == 'D' else 'self.inv.data'
                        if not says(effs, op.seq, a, cont, False):
                            bad.setdefault(('T21', op.line), (op, p, 'T21', 'existing entry %s[%s] may be overwritten (its reverse '
                                           'entries become stale): the store is not guarded by `%s not in %s`' % (cont, a, a, cont)))
                if kind.endswith('_BULK') and b is None and a in ('update', 'popitem', '__setitem__'):
                    bad.setdefault(('bulk', op.line), (op, p, 'T2', 'bulk change of one side: %s' % a))
                if kind in ('D_ADD', 'I_ADD'):
                    o = 'I_ADD' if kind == 'D_ADD' else 'D_ADD'
                    if not any(x[0] == o and x[1] == b and x[2] == a for x in E) and name in ('add',):
                        bad.setdefault(('pair', op.line), (op, p, 'T2', 'pair (%s, %s) added to one side only' % (a, b)))
                if kind in ('D_DISCARD', 'I_DISCARD'):
                    o = 'I_DISCARD' if kind == 'D_DISCARD' else 'D_DISCARD'
                    if name == 'remove' and not any(x[0] == o and x[1] == b and x[2] == a for x in E):
                        bad.setdefault(('pair', op.line), (op, p, 'T2', 'pair (%s, %s) removed from one side only' % (a, b)))
                    cont = 'self.data' if kind[0] == 'D' else 'self.inv.data'
                    # emptiness test of the same set follows, or something is added to the same set
                    follow = [x for x in effs if x[3].seq > op.seq]
                    tested = any(x[0] == 'TEST' and x[1] in ('not %s[%s]' % (cont, a), '%s[%s]' % (cont, a),
                                                              'len(%s[%s]) == 0' % (cont, a)) for x in follow)
                    added = any(x[0] == kind[0] + '_ADD' and x[1] == a for x in follow)
                    # the test may be made through a local alias of the set: accept a test on any alias whose text expands to the set
                    if not (tested or added):
                        bad.setdefault(('empty', op.line), (op, p, 'T2', 'after removing from %s[%s] the set is neither tested for '
                                       'emptiness (to drop the key) nor refilled: empty entries may remain' % (cont, a)))
        for k, (op, p, rule, why) in sorted(bad.items(), key=lambda kv: str(kv[0])):
            ctx.ob(rule, construct, why, False, loc='%s:%d' % (m.module.relpath, op.line), path=p.describe())
        if not bad:
            ctx.ob('T2m', construct, 'set updates are paired across data / inv.data, stored sets are fresh or moved, '
                   'moved stores are guarded (%d paths)' % len(paths), True, loc=m.loc,
                   detail='%d direct effects' % n_eff, nontrivial=n_eff > 0)


# ---------------------------------------------------------------------------
# FrozenDict
ORDER_INSENSITIVE = {'frozenset', 'set', 'sorted', 'sum'}
ORDER_SENSITIVE = {'tuple', 'list', 'str', 'repr', 'iter'}


def check_frozendict(ctx, cls_fq):
    prog = ctx.program
    ci = prog.cls(cls_fq)
    ctx.saw('classes', cls_fq)
    model = PlainModel(prog)
    for name in DICT_MUTATORS:
        if name == '__init__':
            continue
        m = prog.resolve(ci, name)
        ok = False
        why = 'resolves to %r' % (m,)
        if isinstance(m, FuncInfo):
            w = Walker(prog, model)
            paths = w.paths(m, recv=ci)
            ok = bool(paths) and all(p.kind == 'raise' and p.outcome[1] == 'TypeError' for p in paths)
            touches = any(isinstance(n, ast.Call) and isinstance(n.func, ast.Attribute) and
                          isinstance(n.func.value, ast.Name) and n.func.value.id in ('dict', 'super')
                          for n in ast.walk(m.node))
            ok = ok and not touches
            why = '%s: %d paths, exits %s' % (m.qualname, len(paths), sorted({str(p.outcome[:2]) if p.kind == 'raise' else 'return' for p in paths}))
        ctx.ob('T1f', '%s.%s' % (cls_fq, name), 'mutating dict operation always raises TypeError and never touches the storage',
               ok, loc='%s:%d' % (ci.module.relpath, m.node.lineno if isinstance(m, FuncInfo) else ci.node.lineno), detail=why)
    # __hash__
    h = prog.resolve(ci, '__hash__')
    if not isinstance(h, FuncInfo):
        raise AnalysisError('anchor vanished: %s.__hash__' % cls_fq)
    ctx.saw('functions', h.fq)
    n_hash = 0
    hscope = [h]
    for n in ast.walk(h.node):        # private module-level helpers given the receiver (extracted hash computation)
        if isinstance(n, ast.Call) and isinstance(n.func, ast.Name) and n.func.id in h.module.functions and \
                n.func.id.startswith('_') and any(txt(a) == 'self' for a in n.args):
            hscope.append(h.module.functions[n.func.id])
    for n in [x for f in hscope for x in ast.walk(f.node)]:
        if isinstance(n, ast.Call) and call_name(n) == 'hash' and n.args:
            n_hash += 1
            arg = n.args[0]
            chain = []
            e = arg
            while isinstance(e, ast.Call):
                chain.append(call_name(e))
                e = e.args[0] if e.args else None
            src = txt(e) if e is not None else ''
            outer = chain[0] if chain else ''
            ok = outer in ORDER_INSENSITIVE and not (outer == 'sum' and False)
            if outer == 'sorted' or outer == 'tuple' and len(chain) > 1 and chain[1] == 'sorted':
                ok = True
            if outer in ORDER_SENSITIVE and not (len(chain) > 1 and chain[1] == 'sorted'):
                ok = False
            uses_items = any('items' in c for c in chain) or 'items' in src
            ctx.ob('T22', h.fq, 'hash derives from an order-insensitive aggregate of the items (`%s`)' % txt(arg),
                   ok and uses_items, loc='%s:%d' % (h.module.relpath, n.lineno),
                   detail='constructor chain: %s over %s' % (' <- '.join(chain) or '-', src))
    if n_hash == 0:
        ctx.unknown('T22', h.fq, 'no hash(...) call found', h.loc)
    # failure is cached and re-raised: no path returns a FrozenHashError instance
    w = Walker(prog, model)
    for p in w.paths(h, recv=ci):
        if p.kind == 'return':
            rv = txt(w.expand(p.outcome[1]))
            ctx.ob('T22c', h.fq, 'a normal return hands out the cached integer (errors are raised, on every call)',
                   'FrozenHashError(' not in rv, loc=h.loc, detail='returns %s' % rv[:60])
    # pickling / copying carries the items only, never the cached (per-process) hash
    for rn in ('__reduce_ex__', '__reduce__', '__getstate__'):
        rf = ci.own(rn)
        if isinstance(rf, FuncInfo):
            leaks = [n for n in ast.walk(rf.node) if (isinstance(n, ast.Attribute) and n.attr == '_hash') or
                     (isinstance(n, ast.Constant) and n.value == '_hash') or
                     (isinstance(n, ast.Attribute) and n.attr == '__dict__')]
            ctx.ob('T22r', rf.fq, 'the reduction does not carry the cached hash (string hashes are salted per process)', not leaks,
                   loc='%s:%d' % (rf.module.relpath, leaks[0].lineno if leaks else rf.node.lineno))
    # T8: non-mutating helpers do not write the receiver
    for name in ('updated', '__copy__', '__reduce_ex__', 'fromkeys'):
        m = prog.resolve(ci, name)
        if not isinstance(m, FuncInfo):
            ctx.unknown('T8f', '%s.%s' % (cls_fq, name), 'method not found', ci.module.relpath)
            continue
        bad = None
        for n in ast.walk(m.node):
            if isinstance(n, ast.Call) and isinstance(n.func, ast.Attribute) and n.func.attr in DICT_MUTATORS:
                recv = n.func.value
                if (isinstance(recv, ast.Name) and recv.id == 'dict' and n.args and txt(n.args[0]) == 'self') or \
                        (isinstance(recv, ast.Call) and call_name(recv) == 'super') or txt(recv) == 'self':
                    bad = n
            if isinstance(n, (ast.Subscript,)) and isinstance(n.ctx, (ast.Store, ast.Del)) and txt(n.value) == 'self':
                bad = n
        ctx.ob('T8f', '%s.%s' % (cls_fq, name), 'does not write the receiver (result built from a fresh dict)', bad is None,
               loc='%s:%d' % (m.module.relpath, bad.lineno if bad else m.node.lineno))


def check_no_empty_entry(ctx, cls_fq):
    """T2.empty: ManyToMany never leaves a key with an empty set behind.  An entry created on demand --
    `d.setdefault(k, set())` -- is filled on the spot: the call is the receiver of `.add(...)` / `.update(...)`, or its result is
    bound to a name whose next statement in the same block adds to it.  (A created entry that is filled only by a loop stays
    empty when the loop runs zero times: `m[k] = []`.)"""
    prog = ctx.program
    ci = prog.cls(cls_fq)
    scope = [m for m in ci.members.values() if isinstance(m, FuncInfo)]
    scope += [f for f in ci.module.functions.values() if f.name.startswith('_')]
    for m in scope:
        par = {}
        for x in ast.walk(m.node):
            for ch in ast.iter_child_nodes(x):
                par[ch] = x
        for c in ast.walk(m.node):
            if not (isinstance(c, ast.Call) and isinstance(c.func, ast.Attribute) and c.func.attr == 'setdefault' and len(c.args) == 2 and
                    isinstance(c.args[1], ast.Call) and call_name(c.args[1]) == 'set' and not c.args[1].args):
                continue
            up = par.get(c)
            ok = isinstance(up, ast.Attribute) and up.attr in ('add', 'update') and isinstance(par.get(up), ast.Call)
            if not ok and isinstance(up, ast.Assign) and len(up.targets) == 1 and isinstance(up.targets[0], ast.Name):
                nm = up.targets[0].id
                holder = par.get(up)
                for fld in ('body', 'orelse', 'finalbody'):
                    blk = getattr(holder, fld, None)
                    if isinstance(blk, list) and up in blk:
                        i = blk.index(up)
                        nxt = blk[i + 1] if i + 1 < len(blk) else None
                        ok = isinstance(nxt, ast.Expr) and isinstance(nxt.value, ast.Call) and isinstance(nxt.value.func, ast.Attribute) \
                            and nxt.value.func.attr in ('add', 'update') and txt(nxt.value.func.value) == nm
            ctx.ob('T2.empty', m.fq, 'an entry created on demand (setdefault(k, set())) is filled on the spot: no key is left with an '
                   'empty set', ok, loc='%s:%d' % (m.module.relpath, c.lineno), detail=txt(up)[:90] if up is not None else '')
