"""T10e ELEMENT CONSERVATION for helpers that regroup / filter an iterable.

Tokens are the elements drawn from the source (the loop variable of every iteration over the source or over an iterator
derived from it, and the result of a bulk draw such as `list(islice(src_iter, n))`).  Along every enumerated path each
token must be *accounted for* when the function ends:

  delivered   it was yielded / returned, directly or inside a collection it had been put into *before* that collection was
              yielded / returned (or the collection is returned at the end);
  dropped     it was never stored, and in its own iteration a test was evaluated that mentions it (or a value computed
              from it: `k = key(x)`; `if k not in seen`) -- a deliberate filter decision;

anything else is a silently lost element: stored in a collection that is re-bound or abandoned before being delivered,
or skipped without any test that looks at it.  Order of delivery is not decided here.
"""
import ast

from sa.paths import call_name
from rules.common import txt, paths_of, Quiet, strip_not

ADDERS = {'append', 'add', 'extend', 'appendleft', 'insert', 'update'}
WRAPPERS = {'list', 'tuple', 'iter', 'reversed', 'sorted', 'set', 'frozenset', 'enumerate', 'zip', 'bytes', 'bytearray'}


def element_conservation(ctx, prog, fn, source, rule='T10e', recv=None, max_report=1):
    # names derived from the source parameter (iterator = iter(src) ...)
    derived = {source}
    changed = True
    while changed:
        changed = False
        for n in ast.walk(fn.node):
            if isinstance(n, ast.Assign) and len(n.targets) == 1 and isinstance(n.targets[0], ast.Name) and \
                    n.targets[0].id not in derived and isinstance(n.value, (ast.Call, ast.Name)):
                v = n.value
                ok = isinstance(v, ast.Name) and v.id in derived
                if isinstance(v, ast.Call) and call_name(v) in ('iter', 'enumerate', 'zip', 'reversed') and \
                        any(isinstance(a, ast.Name) and a.id in derived for a in v.args):
                    ok = True
                if ok:
                    derived.add(n.targets[0].id)
                    changed = True
    w, paths = paths_of(prog, fn, recv=recv, model=Quiet(prog))
    tok_of = {}
    for nm, info in w.tokens.items():
        if info[0] == 'call' and len(info) > 2:
            tok_of[id(info[2])] = nm
    worst = None
    n_elems = 0
    n_paths = 0
    for p in paths:
        if p.kind not in ('return',):
            continue
        n_paths += 1
        elems = {}            # token -> dict(tested, held, delivered, iter)
        computed = {}         # value token -> set(element tokens)
        holders = {}          # holder token / name -> set(element tokens)
        cur_iter = 0
        ops = p.ops

        def toks(v):
            """element tokens a value carries (directly, via computed values, via holders)"""
            out = set()
            if v is None:
                return out
            for x in ast.walk(v):
                if isinstance(x, ast.Name):
                    if x.id in elems:
                        out.add(x.id)
                    out |= computed.get(x.id, set())
                    out |= holders.get(x.id, set())
                    info = w.tokens.get(x.id)
                    if info and info[0] == 'call' and x.id not in computed and x.id not in elems:
                        # an unexpanded call-result token: what its arguments carried when it was made
                        pass
            return out

        def src_derived(v):
            e = w.expand(v)
            return any(isinstance(x, ast.Name) and x.id in derived for x in ast.walk(e))
        infeasible = False
        for i, o in enumerate(ops):
            v = o.val
            if o.kind == 'iter_next' and o.info is True and src_derived(v):
                cur_iter += 1
                nxt = ops[i + 1] if i + 1 < len(ops) else None
                if nxt is not None and nxt.kind == 'name_store' and isinstance(nxt.val, ast.Name) and nxt.val.id.startswith('$e'):
                    elems[nxt.val.id] = {'tested': False, 'held': False, 'delivered': False, 'iter': cur_iter, 'node': o.node}
                    n_elems += 1
            elif o.kind == 'unpack' or (o.kind == 'name_store' and isinstance(v, ast.Subscript)):
                # tuple-unpacked loop targets: k, v = $eN  -> parts carry the element
                base = v
                while isinstance(base, ast.Subscript):
                    base = base.value
                if isinstance(base, ast.Name) and (base.id in elems or base.id in computed):
                    pass
            elif o.kind == 'call':
                tk = tok_of.get(id(o))
                f = v.func
                argt = set()
                for a in list(v.args) + [k.value for k in v.keywords]:
                    argt |= toks(a)
                if isinstance(f, ast.Attribute) and f.attr in ADDERS and v.args:
                    # X.append(v) / X.setdefault(k, []).append(v): the receiver (or what it was made from) holds the tokens
                    recv_e = f.value
                    names = [x.id for x in ast.walk(recv_e) if isinstance(x, ast.Name)]
                    # the holder is the outermost plain name / token of the receiver expression
                    hname = None
                    r = recv_e
                    while isinstance(r, (ast.Call, ast.Attribute, ast.Subscript)):
                        r = r.func if isinstance(r, ast.Call) else r.value
                    if isinstance(r, ast.Name):
                        hname = r.id
                    payload = set()
                    for a in v.args:
                        payload |= toks(a)
                    if hname is not None and payload:
                        # a setdefault(...)-created list belongs to the dict it was created in
                        t0 = w.tokens.get(hname)
                        if t0 and t0[0] == 'call' and isinstance(t0[1], ast.Call) and isinstance(t0[1].func, ast.Attribute) and \
                                t0[1].func.attr in ('setdefault', 'get', '__getitem__'):
                            r2 = t0[1].func.value
                            while isinstance(r2, (ast.Call, ast.Attribute, ast.Subscript)):
                                r2 = r2.func if isinstance(r2, ast.Call) else r2.value
                            if isinstance(r2, ast.Name):
                                hname = r2.id
                        holders.setdefault(hname, set()).update(payload)
                        for e in payload:
                            elems[e]['held'] = True
                if tk is not None:
                    # a bulk draw from the source is itself an element token; other calls carry what their arguments carried
                    draws = call_name(v) in ('itertools.islice', 'islice', 'next') and v.args and src_derived(v.args[0])
                    if draws:
                        elems[tk] = {'tested': False, 'held': False, 'delivered': False, 'iter': cur_iter, 'node': o.node}
                        n_elems += 1
                    elif argt:
                        computed[tk] = set(argt)
            elif o.kind == 'sub_store':
                payload = toks(o.info) | toks(v.slice)
                r = v.value
                while isinstance(r, (ast.Attribute, ast.Subscript)):
                    r = r.value
                if isinstance(r, ast.Name) and payload:
                    holders.setdefault(r.id, set()).update(payload)
                    for e in payload:
                        elems[e]['held'] = True
            elif o.kind == 'name_store' and isinstance(v, ast.Name) and v.id.startswith('$l'):
                info = w.tokens.get(v.id)
                if info and info[0] == 'fresh':
                    payload = set()
                    for x in info[3]:
                        payload |= toks(x)
                    if payload:
                        holders.setdefault(v.id, set()).update(payload)
                        for e in payload:
                            elems[e]['held'] = True
                elif info and info[0] == 'comp':
                    payload = toks(info[3]) if len(info) > 3 and isinstance(info[3], ast.AST) else set()
                    if payload:
                        holders.setdefault(v.id, set()).update(payload)
            elif o.kind == 'test' and isinstance(strip_not(v)[0], ast.Name) and holders.get(strip_not(v)[0].id) and \
                    (o.info != strip_not(v)[1]) is False:
                infeasible = True         # a collection that holds an element cannot test empty
                break
            elif o.kind == 'test':
                e, _neg = strip_not(v)
                for t in toks(e):
                    if t in elems:
                        elems[t]['tested'] = True
                # a test on a holder that is found empty tells nothing about elements; a test on a value computed from an
                # element counts for the element (handled by toks through `computed`)
            elif o.kind in ('yield', 'yield_from', 'return'):
                for t in toks(v):
                    if t in elems:
                        elems[t]['delivered'] = True
        if infeasible:
            continue
        lost = [(t, d) for t, d in elems.items() if not d['delivered'] and not (d['tested'] and not d['held'])]
        # a tested element that was also stored must be delivered through its holder
        if lost and worst is None:
            worst = (p, lost)
    construct = fn.fq
    if n_paths == 0 or n_elems == 0:
        ctx.unknown(rule, construct, 'no element of `%s` is drawn on any enumerated path' % source, fn.loc)
        return
    if worst:
        p, lost = worst
        t, d = lost[0]
        why = 'stored but the collection is never yielded / returned afterwards' if d['held'] else \
            'neither yielded, stored nor looked at by any test in its iteration'
        ctx.ob(rule, construct, 'every element drawn from `%s` is delivered, or dropped by a test that looks at it' % source, False,
               loc='%s:%d' % (fn.module.relpath, getattr(d['node'], 'lineno', fn.node.lineno)),
               detail='element of iteration %d is %s' % (d['iter'], why), path=p.describe())
    else:
        ctx.ob(rule, construct, 'every element drawn from `%s` is delivered, or dropped by a test that looks at it (%d paths, %d draws)'
               % (source, n_paths, n_elems), True, loc=fn.loc)
