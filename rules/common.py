"""Shared helpers for the small property-specific rules."""
import ast
import re._parser as sre_parse
import re._constants as sre_c

from sa.index import AnalysisError, FuncInfo
from sa.paths import Walker, Model, call_name
from sa.consteval import Folder, Unknown


def txt(v):
    if v is None:
        return ''
    try:
        return ' '.join(ast.unparse(v).split())
    except Exception:
        return ''


class Quiet(Model):
    """Nothing raises unless the rule says so (pure control-flow enumeration)."""

    def call_raises(self, walker, op, st):
        return ()


class PrivInl(Quiet):
    """Quiet, and extracted helper code is analysed in the caller's context: private methods called on `self`/`cls` and
    private module-level functions called by plain name are inlined."""

    def inline(self, walker, op, callee, st):
        nm = callee.name
        if not nm.startswith('_') or nm.startswith('__'):
            return False
        if callee.cls is None:
            return isinstance(op.val.func, ast.Name)
        rv = op.recv_val
        return isinstance(rv, ast.Name) and rv.id in ('self', 'cls')


def paths_of(prog, fn, recv=None, model=None):
    w = Walker(prog, model or Quiet(prog))
    ps = [p for p in w.paths(fn, recv=recv) if p.kind != 'cutoff']
    return w, ps


def loc(fn, node=None):
    return '%s:%d' % (fn.module.relpath, getattr(node, 'lineno', None) or fn.node.lineno)


def strip_not(e):
    neg = False
    while isinstance(e, ast.UnaryOp) and isinstance(e.op, ast.Not):
        neg = not neg
        e = e.operand
    return e, neg


def tests_on(w, path, upto_seq=None):
    """[(expanded test text, truth, op)] with leading `not`s folded into the truth."""
    out = []
    for o in path.ops:
        if o.kind != 'test':
            continue
        if upto_seq is not None and o.seq >= upto_seq:
            break
        e, neg = strip_not(w.expand(o.val))
        out.append((txt(e), o.info != neg, o))
    return out


def module_regex(prog, modname, varname):
    """(pattern string, flags text, compile call node) of `var = re.compile(...)[.attr]`."""
    mod = prog.module(modname)
    e = mod.const_expr(varname)
    if e is None:
        raise AnalysisError('anchor vanished: %s.%s' % (modname, varname))
    attr = None
    for _ in range(4):       # NAME = re.compile(...); PRED = NAME.search  (one or two levels of naming)
        if isinstance(e, ast.Attribute) and attr is None and not (isinstance(e.value, ast.Name) and e.value.id == 're'):
            attr = e.attr
            e = e.value
        elif isinstance(e, ast.Name) and mod.const_expr(e.id) is not None:
            e = mod.const_expr(e.id)
        else:
            break
    if not (isinstance(e, ast.Call) and call_name(e) == 're.compile' and e.args):
        raise AnalysisError('%s.%s is not re.compile(...)' % (modname, varname))
    try:
        pat = Folder(mod).fold(e.args[0])
    except Unknown as ex:
        raise AnalysisError('cannot fold pattern of %s.%s: %s' % (modname, varname, ex))
    flags = ' '.join(txt(a) for a in e.args[1:]) + ' '.join(txt(k.value) for k in e.keywords)
    return pat, flags, e, attr


def is_regex_method_name(prog, modname, name):
    """True when module-level `name` is a bound method of a compiled pattern (possibly through a named pattern)."""
    try:
        pat, flags, node, attr = module_regex(prog, modname, name)
    except AnalysisError:
        return False
    return attr is not None


def literal_alternatives(pattern, limit=4096):
    """Ordered list of the literal strings a pattern can match, for patterns made of
    literals, small classes, groups and alternation only."""
    p = sre_parse.parse(pattern)

    def seq(items):
        outs = ['']
        for op, av in items:
            if op is sre_c.LITERAL:
                alts = [chr(av)]
            elif op is sre_c.IN:
                alts = []
                for o, a in av:
                    if o is sre_c.LITERAL:
                        alts.append(chr(a))
                    elif o is sre_c.RANGE and a[1] - a[0] < 64:
                        alts.extend(chr(c) for c in range(a[0], a[1] + 1))
                    else:
                        raise AnalysisError('regex class item %s not a literal' % o)
            elif op is sre_c.SUBPATTERN:
                alts = seq(av[3])
            elif op is sre_c.BRANCH:
                alts = []
                for b in av[1]:
                    alts.extend(seq(b))
            elif op is sre_c.AT:
                alts = ['']
            else:
                raise AnalysisError('regex item %s is not part of a literal alternation' % op)
            outs = [a + b for a in outs for b in alts]
            if len(outs) > limit:
                raise AnalysisError('too many alternatives')
        return outs
    return seq(p)


def regex_skeleton(pattern):
    """(literal segments, group names, anchors) of a pattern that is a sequence of
    literals and named groups."""
    p = sre_parse.parse(pattern)
    names = {v: k for k, v in p.state.groupdict.items()}
    segs = ['']
    groups = []
    anchors = []
    for op, av in p:
        if op is sre_c.LITERAL:
            segs[-1] += chr(av)
        elif op is sre_c.SUBPATTERN:
            groups.append(names.get(av[0], str(av[0])))
            segs.append('')
        elif op is sre_c.AT:
            anchors.append(str(av))
        else:
            raise AnalysisError('regex item %s not part of a literal/group skeleton' % op)
    return segs, groups, anchors


def format_skeleton(e):
    """(literal segments, hole expressions) of a string-building expression:
    'lit {} lit'.format(a, b)  /  'lit %s' % (a,)  /  f'lit {a}'  /  concatenation."""
    if isinstance(e, ast.JoinedStr):
        segs, holes = [''], []
        for v in e.values:
            if isinstance(v, ast.Constant):
                segs[-1] += str(v.value)
            else:
                holes.append(v.value)
                segs.append('')
        return segs, holes
    if isinstance(e, ast.Call) and isinstance(e.func, ast.Attribute) and e.func.attr == 'format' and \
            isinstance(e.func.value, ast.Constant) and isinstance(e.func.value.value, str):
        import string
        segs, holes = [''], []
        auto = 0
        for lit, field, spec, conv in string.Formatter().parse(e.func.value.value):
            segs[-1] += lit
            if field is None:
                continue
            if field == '':
                idx = auto
                auto += 1
                holes.append(e.args[idx] if idx < len(e.args) else None)
            elif field.isdigit():
                holes.append(e.args[int(field)] if int(field) < len(e.args) else None)
            else:
                kw = {k.arg: k.value for k in e.keywords}
                holes.append(kw.get(field.split('.')[0].split('[')[0]))
            segs.append('')
        return segs, holes
    if isinstance(e, ast.BinOp) and isinstance(e.op, ast.Mod) and isinstance(e.left, ast.Constant) and \
            isinstance(e.left.value, str):
        import re
        parts = re.split(r'%[-#0 +]*\d*(?:\.\d+)?[sdr]', e.left.value)
        args = list(e.right.elts) if isinstance(e.right, ast.Tuple) else [e.right]
        parts = [p.replace('%%', '%') for p in parts]
        return parts, args
    if isinstance(e, ast.BinOp) and isinstance(e.op, ast.Add):
        ls, lh = format_skeleton(e.left)
        rs, rh = format_skeleton(e.right)
        return ls[:-1] + [ls[-1] + rs[0]] + rs[1:], lh + rh
    if isinstance(e, ast.Constant) and isinstance(e.value, str):
        return [e.value], []
    # a bare hole
    return ['', ''], [e]


def none_default_params(fn):
    a = fn.node.args
    pos = a.posonlyargs + a.args
    out = []
    for p, d in zip(pos[len(pos) - len(a.defaults):], a.defaults):
        if isinstance(d, ast.Constant) and d.value is None:
            out.append(p.arg)
    for p, d in zip(a.kwonlyargs, a.kw_defaults):
        if isinstance(d, ast.Constant) and d.value is None:
            out.append(p.arg)
    return out


def check_none_default(ctx, fn, param, rule='T19c', zero_valid=True):
    """A parameter whose default None means "not given" and for which 0 is a valid
    value must be tested with `is None`, not by truthiness, before being defaulted."""
    found = 0
    for n in ast.walk(fn.node):
        if isinstance(n, (ast.If, ast.IfExp)):
            e, neg = strip_not(n.test)
            cs = e.values if isinstance(e, ast.BoolOp) else [e]
            for c in cs:
                c2, _ = strip_not(c)
                if isinstance(c2, ast.Name) and c2.id == param:
                    # truthiness test of the parameter: does the branch (re)bind it?
                    body = n.body if isinstance(n, ast.If) else [n.body]
                    rebinding = any(isinstance(x, ast.Name) and x.id == param and isinstance(x.ctx, ast.Store)
                                    for st in (n.body + n.orelse if isinstance(n, ast.If) else [])
                                    for x in ast.walk(st))
                    early = isinstance(n, ast.If) and any(isinstance(st, ast.Return) for st in n.body)
                    if rebinding or early or isinstance(n, ast.IfExp):
                        found += 1
                        ctx.ob(rule, '%s(%s)' % (fn.fq, param), 'parameter `%s` (default None = "not given", 0 is a valid '
                               'value) is tested by truthiness: an explicit 0 is treated as omitted' % param, False,
                               loc=loc(fn, n), detail=txt(n.test))
                if isinstance(c2, ast.Compare) and txt(c2.left) == param and len(c2.ops) == 1 and \
                        isinstance(c2.ops[0], (ast.Is, ast.IsNot)) and txt(c2.comparators[0]) == 'None':
                    found += 1
                    ctx.ob(rule, '%s(%s)' % (fn.fq, param), 'parameter `%s` is recognised as omitted by `is None`' % param,
                           True, loc=loc(fn, n))
        # `param = param or <default>` / `x = param or <default>`: truthiness defaulting in expression form
        if isinstance(n, ast.BoolOp) and isinstance(n.op, ast.Or) and len(n.values) >= 2 and \
                isinstance(n.values[0], ast.Name) and n.values[0].id == param:
            found += 1
            ctx.ob(rule, '%s(%s)' % (fn.fq, param), 'parameter `%s` (default None = "not given", 0 is a valid value) is defaulted '
                   'with `or`: an explicit 0 is treated as omitted' % param, False, loc=loc(fn, n), detail=txt(n))
    if found == 0:
        ctx.ob(rule, '%s(%s)' % (fn.fq, param), 'no defaulting test on `%s` (nothing to check)' % param, True, loc=loc(fn),
               nontrivial=False)


def check_no_truthiness(ctx, fn, param, rule='T19t', why=''):
    """A parameter whose default None means "not given" while every other value -- falsy ones like 0, '' or False included --
    is data must be recognised by identity (`is None`), never by truthiness: `if not p`, `p and ...`, `bool(p)`, `x if p else y`
    treat an explicit falsy value as omitted.  Reports every boolean-context use of the bare parameter name."""
    bad = []

    def boolctx(e):
        # the bare name evaluated for its truth value
        if isinstance(e, ast.Name) and e.id == param:
            bad.append(e)
        elif isinstance(e, ast.UnaryOp) and isinstance(e.op, ast.Not):
            boolctx(e.operand)
        elif isinstance(e, ast.BoolOp):
            for v in e.values:
                boolctx(v)
    # a rebinding in the `param is None` branch gives the omitted parameter a default: later truthiness tests look at that
    # default and are not judged; a normalising rebind of a given value (`p = int(p)`) keeps falsy data falsy and is judged
    rebound = False
    for n in ast.walk(fn.node):
        if isinstance(n, ast.If) and any(isinstance(c, ast.Compare) and txt(c.left) == param and len(c.ops) == 1 and
                                         isinstance(c.ops[0], ast.Is) and txt(c.comparators[0]) == 'None' for c in ast.walk(n.test)):
            # (only an unconditional default: `if p is None: p = X`; a default given on some sub-branch leaves None possible)
            rebound = rebound or any(isinstance(st, ast.Assign) and any(isinstance(t, ast.Name) and t.id == param for t in st.targets)
                                     for st in n.body)
    for n in ast.walk(fn.node):
        if isinstance(n, (ast.If, ast.While, ast.IfExp, ast.Assert)):
            boolctx(n.test)
        elif isinstance(n, ast.comprehension):
            for i in n.ifs:
                boolctx(i)
        elif isinstance(n, ast.UnaryOp) and isinstance(n.op, ast.Not):
            boolctx(n.operand)
        elif isinstance(n, ast.BoolOp):
            for v in n.values[:-1]:
                boolctx(v)
        elif isinstance(n, ast.Call) and isinstance(n.func, ast.Name) and n.func.id == 'bool' and n.args:
            boolctx(n.args[0])
    construct = '%s(%s)' % (fn.fq, param)
    if rebound:
        ctx.info('%s: parameter `%s` of %s is rebound in the function; truthiness uses are not judged' % (rule, param, fn.fq))
        return
    seen = set()
    for e in bad:
        if e.lineno in seen:
            continue
        seen.add(e.lineno)
        ctx.ob(rule, construct, 'parameter `%s` (None = "not given"; any other value, falsy ones included, is data%s) is tested by '
               'truthiness: an explicit falsy value is treated as omitted' % (param, '; ' + why if why else ''), False, loc=loc(fn, e))
    if not bad:
        n_id = sum(1 for n in ast.walk(fn.node) if isinstance(n, ast.Compare) and txt(n.left) == param and len(n.ops) == 1 and
                   isinstance(n.ops[0], (ast.Is, ast.IsNot)) and txt(n.comparators[0]) == 'None')
        ctx.ob(rule, construct, 'parameter `%s` is never tested by truthiness (%d identity tests against None)' % (param, n_id), True,
               loc=fn.loc, nontrivial=n_id > 0)


def reaches(fn_node, target, env, folder, relevant):
    """Is the statement `target` of fn_node reached when the names in `env` have the given values?  A small evaluator over
    the statements that enclose or precede the target: assignments of foldable expressions extend env, an `if` whose test
    mentions a *relevant* name (one derived from env) decides the branch, other tests are taken towards the target, loops
    are entered.  Returns True / False; raises consteval.Unknown when a relevant test cannot be folded."""
    from sa.consteval import Unknown
    env = dict(env)
    rel = set(relevant)
    given = set(env)               # the names whose values are being tried: never re-bound by the walk

    def contains(st):
        return any(x is target for x in ast.walk(st))

    def names(e):
        return {x.id for x in ast.walk(e) if isinstance(x, ast.Name)}

    def assign(st):
        for t in st.targets if isinstance(st, ast.Assign) else []:
            if isinstance(t, ast.Name) and t.id in given:
                continue
            if isinstance(t, ast.Name):
                try:
                    env[t.id] = folder.fold(st.value, env=env)        # a concrete value under this env
                    rel.add(t.id)
                    continue
                except Unknown:
                    pass
                except Exception:
                    pass
                env.pop(t.id, None)
                rel.discard(t.id)

    def run_block(stmts):
        for st in stmts:
            if st is target:
                return True
            if contains(st):
                if isinstance(st, ast.If):
                    inside_body = any(contains(x) for x in st.body)
                    if names(st.test) & rel:
                        v = bool(folder.fold(st.test, env=env))
                        if v != inside_body:
                            return False
                    return run_block(st.body if inside_body else st.orelse)
                for field in ('body', 'orelse', 'finalbody'):
                    blk = getattr(st, field, None)
                    if isinstance(blk, list) and any(contains(x) for x in blk if isinstance(x, ast.AST)):
                        return run_block(blk)
                if isinstance(st, ast.Try):
                    for h in st.handlers:
                        if any(contains(x) for x in h.body):
                            return run_block(h.body)
                return True
            if isinstance(st, ast.Assign):
                assign(st)
            elif isinstance(st, ast.If) and names(st.test) & rel:
                try:
                    v = bool(folder.fold(st.test, env=env))
                except Unknown:
                    v = None
                if v is None:
                    for x in ast.walk(st):
                        if isinstance(x, ast.Name) and isinstance(x.ctx, ast.Store):
                            env.pop(x.id, None)
                            rel.discard(x.id)
                else:
                    r = run_block(st.body if v else st.orelse)
                    if r is not None:
                        return r
            else:
                for x in ast.walk(st):
                    if isinstance(x, ast.Name) and isinstance(x.ctx, ast.Store) and x.id in env and x.id not in relevant:
                        env.pop(x.id, None)
                        rel.discard(x.id)
        return None
    r = run_block(fn_node.body)
    return bool(r)


def check_default_returned(ctx, prog, fn, recv=None, rule='T14.get', param='default'):
    """get(key, default) / setdefault(key, default): on every normal path the function returns either what a lookup in the
    container produced, or the caller's `default` -- never a constant of its own (an implicit None on the miss path answers
    get(k, 0) with None)."""
    if param not in fn.params:
        raise AnalysisError('anchor vanished: parameter %s of %s' % (param, fn.fq))
    w, paths = paths_of(prog, fn, recv=recv, model=TryRaises(prog, fn))
    bad = None
    n = 0
    for p in paths:
        if p.kind != 'return':
            continue
        n += 1
        v = p.outcome[1]
        e = w.expand(v) if v is not None else None
        ok = e is not None and not (isinstance(e, ast.Constant)) and (
            txt(e) == param or any(isinstance(x, (ast.Subscript, ast.Call)) for x in ast.walk(e)) or
            (isinstance(e, ast.Name) and e.id.startswith('$')))
        if not ok and bad is None:
            bad = (p, txt(e) if e is not None else 'None (implicit)')
    if n == 0:
        ctx.unknown(rule, fn.fq, 'no normal return path', fn.loc)
        return
    ctx.ob(rule, fn.fq, 'every answer is the looked-up value or the caller\'s `%s` (never a constant of the function\'s own)' % param,
           bad is None, loc=fn.loc, detail='returns %s' % bad[1] if bad else '%d return paths' % n,
           path=bad[0].describe() if bad else None)


def check_get_none_presence(ctx, fn, rule='T26', receivers=None):
    """`X.get(k)` with no (or a None) default cannot tell "absent" from "present with value None".
    Using its result in a comparison / None-test to decide presence or equality is wrong whenever
    None is a legal value. Fires on such uses in fn (optionally only for the given receiver names)."""
    aliases = {}
    for n in ast.walk(fn.node):
        if isinstance(n, ast.Assign) and len(n.targets) == 1 and isinstance(n.targets[0], ast.Name) and \
                isinstance(n.value, ast.Attribute) and n.value.attr == 'get':
            aliases[n.targets[0].id] = txt(n.value.value)
    par = {}
    for n in ast.walk(fn.node):
        for c in ast.iter_child_nodes(n):
            par[c] = n
    found = 0
    for n in ast.walk(fn.node):
        if not isinstance(n, ast.Call):
            continue
        recv = None
        if isinstance(n.func, ast.Attribute) and n.func.attr == 'get':
            recv = txt(n.func.value)
        elif isinstance(n.func, ast.Name) and n.func.id in aliases:
            recv = aliases[n.func.id]
        if recv is None or (receivers is not None and recv not in receivers):
            continue
        dflt = n.args[1] if len(n.args) > 1 else next((k.value for k in n.keywords if k.arg == 'default'), None)
        if dflt is not None and not (isinstance(dflt, ast.Constant) and dflt.value is None):
            continue            # a real sentinel default
        # how is the result used?
        uses = []
        p = par.get(n)
        if isinstance(p, ast.Compare):
            uses.append(p)
        elif isinstance(p, ast.Assign) and len(p.targets) == 1 and isinstance(p.targets[0], ast.Name):
            v = p.targets[0].id
            for c in ast.walk(fn.node):
                if isinstance(c, ast.Compare) and any(isinstance(x, ast.Name) and x.id == v for x in [c.left] + c.comparators) \
                        and any(isinstance(o, (ast.Is, ast.IsNot, ast.Eq, ast.NotEq)) for o in c.ops):
                    uses.append(c)
        for u in uses:
            found += 1
            ctx.ob(rule, fn.fq, 'the result of `%s` (None when the key is absent) is compared in `%s`: an absent key and a key '
                   'whose value is None are indistinguishable' % (txt(n), txt(u)), False, loc=loc(fn, u))
    if found == 0:
        ctx.ob(rule, fn.fq, 'no presence/equality decision is taken on a None-defaulted .get() result', True, loc=loc(fn), nontrivial=False)


def _dnf(e, truth=True):
    """DNF of a test expression as a list of conjunctions, each a list of (atom node, truth)."""
    if isinstance(e, ast.UnaryOp) and isinstance(e.op, ast.Not):
        return _dnf(e.operand, not truth)
    if isinstance(e, ast.BoolOp):
        is_and = isinstance(e.op, ast.And) == truth          # De Morgan under negation
        parts = [_dnf(v, truth) for v in e.values]
        if is_and:
            out = [[]]
            for pt in parts:
                out = [a + b for a in out for b in pt]
                if len(out) > 256:
                    raise AnalysisError('guard too large for DNF')
            return out
        return [c for pt in parts for c in pt]
    return [[(e, truth)]]


def guard_dnf(fn, node):
    """DNF of the conjunction of the enclosing if/while conditions under which `node` (inside fn) executes."""
    par = {}
    for n in ast.walk(fn.node):
        for c in ast.iter_child_nodes(n):
            par[c] = n
    out = [[]]
    cur = node
    while cur in par:
        p = par[cur]
        if isinstance(p, (ast.If, ast.While)) and cur is not p.test:
            if any(cur is st for st in p.body):
                d = _dnf(p.test, True)
            elif isinstance(p, ast.If) and any(cur is st for st in p.orelse):
                d = _dnf(p.test, False)
            else:
                d = [[]]
            out = [b + a for a in out for b in d]          # outer conditions first (evaluation order)
            if len(out) > 256:
                raise AnalysisError('guard too large for DNF')
        elif isinstance(p, ast.IfExp) and cur is not p.test:
            d = _dnf(p.test, cur is p.body)
            out = [b + a for a in out for b in d]
        cur = p
    return out


def string_values(fn, extra_fns=()):
    """String values a function mentions: literal constants plus module-level names that fold to a str
    (a literal moved into a module constant keeps its meaning)."""
    out = []
    folder = Folder(fn.module)
    for f in (fn,) + tuple(extra_fns):
        local = {a.arg for a in ast.walk(f.node) if isinstance(a, ast.arg)} | \
                {n.id for n in ast.walk(f.node) if isinstance(n, ast.Name) and isinstance(n.ctx, ast.Store)}
        for n in ast.walk(f.node):
            if isinstance(n, ast.Constant) and isinstance(n.value, str):
                out.append((n.value, n))
            elif isinstance(n, ast.Name) and isinstance(n.ctx, ast.Load) and n.id not in local and n.id in f.module.assigns:
                try:
                    v = folder.name(n.id)
                except Unknown:
                    continue
                if isinstance(v, str):
                    out.append((v, n))
    return out


def _listed_call(e):
    """The call C when e is list(C) / [x for x in C] / list(x for x in C) / list(iter(C)), else None."""
    if isinstance(e, ast.Call) and call_name(e) in ('list', 'iter') and len(e.args) == 1 and not e.keywords:
        inner = e.args[0]
        if isinstance(inner, ast.Call):
            return _listed_call(inner) or inner
        return _listed_call(inner)
    if isinstance(e, (ast.ListComp, ast.GeneratorExp)) and len(e.generators) == 1 and not e.generators[0].ifs and \
            isinstance(e.generators[0].target, ast.Name) and isinstance(e.elt, ast.Name) and e.elt.id == e.generators[0].target.id:
        it = e.generators[0].iter
        return it if isinstance(it, ast.Call) else None
    return None


def list_delegation(prog, f, g, recv=None):
    """[(bound args of the g(...) call, path)] for every normal return path of f whose value is the list of one g(...) call;
    a return path of another shape yields (None, path)."""
    w, paths = paths_of(prog, f, recv=recv)
    out = []
    for p in paths:
        if p.kind != 'return':
            continue
        e = w.expand(p.outcome[1]) if p.outcome[1] is not None else None

        def through_comp(x):
            # an identity comprehension recorded by the walker: [v for v in IT] with IT already copy-propagated
            if isinstance(x, ast.Name) and w.tokens.get(x.id, ('',))[0] == 'comp':
                _, kind, node, itv, _vs = w.tokens[x.id]
                if kind in ('list', 'gen') and _listed_call(node) is not None or (
                        kind in ('list', 'gen') and len(node.generators) == 1 and not node.generators[0].ifs and
                        isinstance(node.elt, ast.Name) and txt(node.elt) == txt(node.generators[0].target)):
                    return w.expand(itv), kind
            return None, None
        c = _listed_call(e)
        if c is None:
            it, kind = through_comp(e)
            if it is None and isinstance(e, ast.Call) and call_name(e) == 'list' and len(e.args) == 1:
                it, kind = through_comp(e.args[0])
                kind = 'list' if it is not None else None
            if it is not None and kind == 'list' and isinstance(it, ast.Call):
                c = it
        if c is None or call_name(c) != g.name:
            out.append((None, p))
            continue
        got = {}
        params = g.params
        for i, a in enumerate(c.args):
            if isinstance(a, ast.Starred):
                got['*'] = txt(a.value)
            elif i < len(params):
                got[params[i]] = txt(a)
        for k in c.keywords:
            got[k.arg if k.arg is not None else '**'] = txt(k.value)
        out.append((got, p))
    return out


def check_identity_only(ctx, fn, param, rule, why):
    """An arbitrary object (it may define __bool__/__len__) is examined by identity tests only: a truthiness test of
    `param` (if param / not param / param and ... / param or ...) decides on the object's own notion of truth."""
    par = {}
    for n in ast.walk(fn.node):
        for c in ast.iter_child_nodes(n):
            par[c] = n
    bad = []
    for n in ast.walk(fn.node):
        if isinstance(n, ast.Name) and n.id == param and isinstance(n.ctx, ast.Load):
            p = par.get(n)
            c = n
            while isinstance(p, ast.UnaryOp) and isinstance(p.op, ast.Not):
                c, p = p, par.get(p)
            if isinstance(p, ast.BoolOp):
                # an operand of and/or is truth-tested unless it is the last operand of a value-position expression
                last = p.values[-1] is c
                q, cc = par.get(p), p
                while isinstance(q, (ast.BoolOp, ast.UnaryOp)):
                    cc, q = q, par.get(q)
                in_test = isinstance(q, (ast.If, ast.While, ast.IfExp)) and q.test is cc
                if not last or in_test:
                    bad.append(n)
            elif isinstance(p, (ast.If, ast.While, ast.IfExp)) and p.test is c:
                bad.append(n)
            elif c is not n:            # `not param` in value position
                bad.append(n)
    ctx.ob(rule, '%s(%s)' % (fn.fq, param), '`%s` is examined by identity (`is None`) only, never by truthiness: %s' % (param, why),
           not bad, loc=loc(fn, bad[0]) if bad else loc(fn), detail='truthiness test at line %d' % bad[0].lineno if bad else '')


def returned_values(prog, f, recv=None, model=None):
    """[(expanded value of the return, path)] for every normal return path of f (locals and call results substituted)."""
    w, paths = paths_of(prog, f, recv=recv, model=model)
    out = []
    for p in paths:
        if p.kind == 'return':
            v = p.outcome[1]
            out.append((w.expand(v, literals=True) if v is not None else None, p, w))
    return out


def require_fields(prog, cls_fq, names):
    """The state fields a property's anchors name must exist in the class (assigned through `self.<name>` somewhere in the
    class or a repository base, or defined at class level).  A renamed / removed anchor makes the rules meaningless, so it is
    an ANALYSIS-ERROR (exit 2), never a verdict."""
    ci = prog.cls(cls_fq)
    have = set()
    for c in prog.mro(ci):
        node = getattr(c, 'node', None)
        if node is None:
            continue
        have |= set(getattr(c, 'members', {}) or {})
        for n in ast.walk(node):
            if isinstance(n, ast.Attribute) and isinstance(n.ctx, ast.Store) and isinstance(n.value, ast.Name) and \
                    n.value.id in ('self', 'cls'):
                have.add(n.attr)
            elif isinstance(n, ast.Assign) and n in node.body:
                have |= {t.id for t in n.targets if isinstance(t, ast.Name)}
    missing = [n for n in names if n not in have]
    if missing:
        raise AnalysisError('anchor vanished: field(s) %s of %s, named in the property, are no longer assigned anywhere in the class'
                            % (', '.join(missing), cls_fq))


def require_members(prog, cls_fq, names):
    """Methods / hooks that the property's anchors name must be defined in the class (or a repository base)."""
    ci = prog.cls(cls_fq)
    missing = [n for n in names if not isinstance(prog.resolve(ci, n), FuncInfo)]
    if missing:
        raise AnalysisError('anchor vanished: method(s) %s of %s, named in the property' % (', '.join(missing), cls_fq))


def require_module_names(prog, modname, names):
    """Module-level constants / functions / classes that the property's anchors name must still be bound."""
    mod = prog.module(modname)
    missing = [n for n in names if n not in mod.assigns and n not in mod.functions and n not in getattr(mod, 'classes', {})]
    if missing:
        raise AnalysisError('anchor vanished: module-level name(s) %s of %s, named in the property' % (', '.join(missing), modname))


_FLIP = {ast.Lt: ast.Gt, ast.Gt: ast.Lt, ast.LtE: ast.GtE, ast.GtE: ast.LtE}


def cmp_text(e, subject=None):
    """Text of a test with single comparisons oriented canonically: the subject (a name) on the left if it takes part,
    otherwise constants on the right; `a < b` and `b > a` give the same text."""
    e = ast.fix_missing_locations(ast.parse(ast.unparse(e), mode='eval').body)

    class N(ast.NodeTransformer):
        def visit_Compare(self, n):
            self.generic_visit(n)
            if len(n.ops) != 1:
                return n
            l, r, op = n.left, n.comparators[0], n.ops[0]
            swap = False
            if subject is not None and isinstance(r, ast.Name) and r.id == subject and not (isinstance(l, ast.Name) and l.id == subject):
                swap = True
            elif subject is None and isinstance(l, ast.Constant) and not isinstance(r, ast.Constant):
                swap = True
            if swap and (type(op) in _FLIP or isinstance(op, (ast.Eq, ast.NotEq, ast.Is, ast.IsNot))):
                n.left, n.comparators = r, [l]
                n.ops = [_FLIP.get(type(op), type(op))()]
            return n
    return txt(N().visit(e))


def guard_atoms(fn, node, var):
    """Canonical form of the condition under which `node` executes, restricted to the atoms that mention `var`:
    a frozenset (disjunction) of frozensets (conjunctions) of (atom text with var written X, truth).  Insensitive to
    nesting (`if a and b` vs `if a: if b`), De Morgan rewrites and the orientation of comparisons."""
    out = set()
    for conj in guard_dnf(fn, node):
        atoms = set()
        for a, truth in conj:
            if any(isinstance(x, ast.Name) and x.id == var for x in ast.walk(a)):
                e, neg = strip_not(a)
                t = cmp_text(e, var)
                # `X is not None` (true)  ==  `X is None` (false)
                tr = truth != neg
                for pos, negt in ((' is not ', ' is '), (' != ', ' == '), (' not in ', ' in ')):
                    if pos in t:
                        t, tr = t.replace(pos, negt), not tr
                        break
                import re as _re
                atoms.add((_re.sub(r'\b%s\b' % _re.escape(var), 'X', t), tr))
        out.add(frozenset(atoms))
    return frozenset(out)


class TryRaises(Quiet):
    """Exception edges exactly where the code expects them: a call or subscript lexically inside a `try` body may raise
    what that try's handlers name (nothing raises elsewhere)."""

    def __init__(self, program, fn, helpers=False):
        super().__init__(program)
        self.where = {}
        self.inherited = {}
        self.helpers = helpers
        fns = with_helpers(program, fn) if helpers else [fn]
        for t in [x for f in fns for x in ast.walk(f.node)]:
            if isinstance(t, ast.Try):
                types = []
                for h in t.handlers:
                    if h.type is None:
                        types.append('Exception')
                    elif isinstance(h.type, ast.Tuple):
                        types += [txt(x).split('.')[-1] for x in h.type.elts]
                    else:
                        types.append(txt(h.type).split('.')[-1])
                for st in t.body:
                    for n in ast.walk(st):
                        self.where.setdefault(id(n), [])
                        for ty in types:
                            if ty not in self.where[id(n)]:
                                self.where[id(n)].append(ty)

    def inline(self, walker, op, callee, st):
        if not self.helpers or not callee.name.startswith('_') or callee.name.startswith('__'):
            return False
        ok = isinstance(op.val.func, ast.Name) if callee.cls is None else \
            (isinstance(op.recv_val, ast.Name) and op.recv_val.id in ('self', 'cls'))
        if ok:
            tys = self.where.get(id(op.node))
            if tys:
                # the call stands inside a try: what the handlers expect is raised by the lookups of the inlined helper
                self.inherited[id(callee)] = list(tys)
        return ok

    def sub_raises(self, walker, op, st):
        tys = self._types(op)
        if not tys and op.fn is not None and id(op.fn) in self.inherited and op.kind == 'sub_load':
            tys = tuple('KeyError' if t in ('Exception', 'BaseException', 'LookupError') else t for t in self.inherited[id(op.fn)])
        return tys

    def _types(self, op):
        tys = self.where.get(id(op.node), ())
        return tuple('KeyError' if t in ('Exception', 'BaseException', 'LookupError') else t for t in tys)

    def call_raises(self, walker, op, st):
        return self._types(op)


def check_sentinel_default(ctx, prog, fn, recv=None, rule='T14.default', model=None):
    """A parameter `default=<SENTINEL>` means "no default given".  On every path:
      * returning the parameter itself requires that the path established `default is not SENTINEL`;
      * raising after the path established `default is not SENTINEL` (a default WAS given) is wrong when the raise is the
        function's own KeyError/IndexError for "missing" (the default must be used instead).
    Decided on the tests the path took; paths that never test the sentinel are left alone."""
    a = fn.node.args
    pos = a.posonlyargs + a.args
    cands = []
    for p_, d in zip(pos[len(pos) - len(a.defaults):], a.defaults):
        if isinstance(d, ast.Name) and d.id.isupper() and d.id.startswith('_') and p_.arg == 'default':
            cands.append((p_.arg, d.id))
    if not cands:
        return 0
    if model is None:
        model = TryRaises(prog, fn)
    w, paths = paths_of(prog, fn, recv=recv, model=model)
    n = 0
    for param, sent in cands:
        for p in paths:
            given = None
            for t, truth, o in tests_on(w, p):
                src = o.node
                if isinstance(src, ast.Name):           # a named condition (`no_default = default is SENTINEL`) stands for its value
                    src = w.expand(o.val)
                e, neg = strip_not(src) if isinstance(src, ast.AST) else (None, False)
                tt = cmp_text(e, param) if e is not None else t
                tr = (o.info != neg)
                if tt == '%s is %s' % (param, sent):
                    given = not tr
                elif tt == '%s is not %s' % (param, sent):
                    given = tr
            if p.kind == 'return' and p.outcome[1] is not None and txt(p.outcome[1]) == param:
                n += 1
                ctx.ob(rule, fn.fq, 'the `%s` parameter is returned only on paths that established a default was given '
                       '(`%s is not %s`)' % (param, param, sent), given is True, loc=fn.loc, path=p.describe() if given is not True else None)
            elif p.kind == 'raise' and given is True and p.outcome[1] in ('KeyError', 'IndexError') and \
                    any(o.kind == 'raise' and o.depth == 0 for o in p.ops[-2:]):
                n += 1
                ctx.ob(rule, fn.fq, 'with a default given, the function does not raise its own "missing" error', False, loc=fn.loc,
                       path=p.describe())
    return n


def params_read(ctx, fn, rule='T19p', why='no accepted input is silently dropped'):
    """Every named parameter of fn is read somewhere in its body."""
    a_ = fn.node.args
    pnames = [x.arg for x in a_.posonlyargs + a_.args + a_.kwonlyargs] + ([a_.vararg.arg] if a_.vararg else []) + \
        ([a_.kwarg.arg] if a_.kwarg else [])
    used = {n.id for n in ast.walk(fn.node) if isinstance(n, ast.Name) and isinstance(n.ctx, ast.Load)}
    for pn in pnames:
        if pn in ('self', 'cls') or pn.startswith('_'):
            continue
        ctx.ob(rule, fn.fq, 'parameter `%s` is read by the function (%s)' % (pn, why), pn in used, loc=loc(fn))


def with_helpers(prog, fn, ci=None, depth=2):
    """fn plus the private helpers it calls (methods of self resolved through ci, module-level functions called by plain
    name), transitively up to `depth` levels: the scope in which an extracted piece of fn's body may live."""
    out = [fn]
    frontier = [fn]
    for _ in range(depth):
        nxt = []
        for f in frontier:
            for n in ast.walk(f.node):
                if not isinstance(n, ast.Call):
                    continue
                h = None
                if isinstance(n.func, ast.Attribute) and txt(n.func.value) in ('self', 'cls') and n.func.attr.startswith('_') and \
                        not n.func.attr.startswith('__') and ci is not None:
                    h = prog.resolve(ci, n.func.attr)
                elif isinstance(n.func, ast.Name) and n.func.id.startswith('_') and n.func.id in f.module.functions:
                    h = f.module.functions[n.func.id]
                if isinstance(h, FuncInfo) and h not in out:
                    out.append(h)
                    nxt.append(h)
        frontier = nxt
    return out


def check_not_memoised(ctx, fns, rule='T20.nocache'):
    """A function whose every call must hand out its own fresh list / generator is not wrapped in a memoising decorator
    (functools.lru_cache / cache and look-alikes): a cache hands the *same* mutable object to every caller with equal
    arguments, so one caller's in-place edit shows up in the next caller's result."""
    import ast as _ast
    for f in fns:
        bad = None
        for d in getattr(f.node, 'decorator_list', []):
            e = d.func if isinstance(d, _ast.Call) else d
            name = e.attr if isinstance(e, _ast.Attribute) else (e.id if isinstance(e, _ast.Name) else '')
            if 'cache' in name.lower() or 'memo' in name.lower():
                bad = d
        # name = lru_cache(...)(name) at module level
        for st in f.module.tree.body:
            if isinstance(st, _ast.Assign) and len(st.targets) == 1 and isinstance(st.targets[0], _ast.Name) and st.targets[0].id == f.name \
                    and isinstance(st.value, _ast.Call) and any(isinstance(a, _ast.Name) and a.id == f.name for a in st.value.args):
                t = txt(st.value.func).lower()
                if 'cache' in t or 'memo' in t:
                    bad = st
        ctx.ob(rule, f.fq, 'every call returns its own fresh result (the function is not memoised: a cached list would be shared between '
               'callers)', bad is None, loc=f.loc if bad is None else '%s:%d' % (f.module.relpath, bad.lineno),
               detail=txt(bad)[:80] if bad is not None else '')


def check_sources_in_order(ctx, up, rule='T9.srcorder', what='update()'):
    """A bulk operation feeds its sources as they come: neither the positional source nor the keyword items pass through a
    re-keying or re-ordering constructor (dict / set / frozenset / sorted / reversed / OrderedDict / Counter) on their way to
    the stores: such a copy collapses repeated keys (a count or a recency refresh is lost) or merges two sources by replacement."""
    kw = up.node.args.kwarg.arg if up.node.args.kwarg else None
    params = [p for p in up.params if p not in ('self', 'cls')]
    srcs = set(params[:1]) | ({kw} if kw else set())
    bad = None
    for c in ast.walk(up.node):
        if isinstance(c, ast.Call) and (call_name(c) or '').split('.')[-1] in ('dict', 'set', 'frozenset', 'sorted', 'reversed', 'OrderedDict',
                                                                               'Counter'):
            fed = list(c.args) + [k.value for k in c.keywords]
            if any(isinstance(x, ast.Name) and x.id in srcs for a in fed for x in ast.walk(a)):
                bad = bad or c
    ctx.ob(rule, up.fq, 'the sources of %s reach the stores in their own order, repeats included (no dict()/set()/sorted() copy in '
           'between)' % what, bad is None, loc=up.loc if bad is None else '%s:%d' % (up.module.relpath, bad.lineno),
           detail=txt(bad) if bad is not None else '')


def check_no_counted_lookup(ctx, fn, rule='T8.eq', what='comparison'):
    """An observer (`__eq__`, `__ne__`, `__contains__`, ...) does not read the receiver through the instrumented lookup
    `self[k]` / `self.get(k)` / `self.setdefault`: those count hits and misses and (LRU) refresh recency."""
    bad = None
    for n in ast.walk(fn.node):
        if isinstance(n, ast.Subscript) and isinstance(n.value, ast.Name) and n.value.id == 'self' and isinstance(n.ctx, ast.Load):
            bad = bad or n
        if isinstance(n, ast.Call) and isinstance(n.func, ast.Attribute) and isinstance(n.func.value, ast.Name) and n.func.value.id == 'self' \
                and n.func.attr in ('get', 'setdefault', '__getitem__'):
            bad = bad or n
    ctx.ob(rule, fn.fq, 'the %s does not read the receiver through the counted lookup (self[k] / self.get(k)): a read-only operation '
           'leaves the counters and the recency order alone' % what, bad is None,
           loc=fn.loc if bad is None else '%s:%d' % (fn.module.relpath, bad.lineno), detail=txt(bad) if bad is not None else '')
