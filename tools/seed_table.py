#!/venv/bin/python
"""Regenerate /verif/seeded/README.md from the meta.json files."""
import glob, json, os
rows = []
for d in sorted(glob.glob('/verif/seeded/*/meta.json')):
    m = json.load(open(d))
    name = os.path.basename(os.path.dirname(d))
    what = (m.get('what_it_needs') or '').strip().splitlines()
    first = next((l.strip('-* #') for l in what if l.strip() and not l.startswith('#')), '')[:150]
    rules = []
    for p, v in (m.get('checks') or {}).items():
        for l in v.get('report', []):
            if l.strip().startswith('rule '):
                r = l.strip().split()[1]
                if r not in rules:
                    rules.append(r)
    rows.append((name, m['property'], m.get('kind', 'defect'), ('not silent (documented limitation)' if m.get('kind') == 'refactoring-unsupported' else (('silent' if m.get('silent') else 'NOISY') if m.get('kind') == 'refactoring' else ('DETECTED' if m.get('detected') else 'missed'))), ', '.join(rules), first))
with open('/verif/seeded/README.md', 'w') as f:
    f.write('# Seeded changes (from independent sub-agents; each confirmed in a scratch worktree)\n\n')
    f.write('| seed | property | kind | verdict of the check | rule(s) that fired | what was changed |\n|---|---|---|---|---|---|\n')
    for r in rows:
        f.write('| %s | %s | %s | %s | %s | %s |\n' % r)
    det = sum(1 for r in rows if r[3] == 'DETECTED' and r[2] == 'defect')
    tot = sum(1 for r in rows if r[2] == 'defect')
    f.write('\n%d of %d seeded defects are reported by the property\'s own quick check.\n' % (det, tot))
print(open('/verif/seeded/README.md').read()[-400:])
