#!/venv/bin/python
"""Confirm a seeded defect produced by a sub-agent and file it under /verif/seeded/.

usage: seed_verify.py <PROP> <worktree> <mK> [--name NAME]

1. in the scratch worktree: apply the patch, run the pinned suite (must pass), run the demo (must fail);
   revert, run the demo (must pass);
2. copy patch.diff / demo.py / meta.json to /verif/seeded/<PROP>-<mK>/;
3. apply the patch to /repo, run the property's quick check, record the verdict, undo (git checkout -- .).
"""
import json, os, shutil, subprocess, sys

def sh(cmd, cwd=None, timeout=1200):
    p = subprocess.run(cmd, shell=True, cwd=cwd, capture_output=True, text=True, timeout=timeout)
    return p.returncode, (p.stdout + p.stderr)

prop, wt, mk = sys.argv[1:4]
out = os.path.join(wt, 'out')
patch = os.path.join(out, mk + '.diff')
demo = os.path.join(out, mk + '_demo.py')
note = os.path.join(out, mk + '.md')
assert os.path.exists(patch) and os.path.exists(demo), 'missing patch/demo'
meta = {'property': prop, 'source': 'independent sub-agent given only the property text and a scratch worktree'}
sh('git checkout -- .', cwd=wt)
rc, o = sh('git apply --check %s' % patch, cwd=wt)
assert rc == 0, 'patch does not apply: ' + o
sh('git apply %s' % patch, cwd=wt)
rc, o = sh('/venv/bin/python -m pytest -q -p no:cacheprovider --timeout=900 2>&1 | tail -3', cwd=wt)
meta['suite_with_patch'] = o.strip().splitlines()[-1] if o.strip() else ''
rc1, o1 = sh('/venv/bin/python %s' % demo, cwd=wt, timeout=600)
meta['demo_exit_with_patch'] = rc1
sh('git checkout -- .', cwd=wt)
rc0, o0 = sh('/venv/bin/python %s' % demo, cwd=wt, timeout=600)
meta['demo_exit_clean'] = rc0
ok = ('passed' in meta['suite_with_patch'] and 'failed' not in meta['suite_with_patch'] and rc1 != 0 and rc0 == 0)
meta['confirmed'] = ok
meta['what_it_needs'] = open(note).read() if os.path.exists(note) else ''
dest = '/verif/seeded/%s-%s' % (prop, mk)
print(json.dumps({k: v for k, v in meta.items() if k != 'what_it_needs'}, indent=1))
if not ok:
    print('NOT CONFIRMED; not kept')
    sys.exit(1)
os.makedirs(dest, exist_ok=True)
shutil.copy(patch, os.path.join(dest, 'patch.diff'))
shutil.copy(demo, os.path.join(dest, 'demo.py'))
# run our checks against it
import fcntl
_lock = open('/tmp/verif-repo.lock', 'w')          # /repo is patched in place: one filing at a time
fcntl.flock(_lock, fcntl.LOCK_EX)
rc, o = sh('git -C /repo status --porcelain')
assert not o.strip(), '/repo not clean'
rc, o = sh('git -C /repo apply %s' % patch)
assert rc == 0, o
try:
    verdicts = {}
    for p in sorted(set([prop] + sys.argv[4:])):
        rc, o = sh('/venv/bin/python /verif/check %s --tier quick' % p, cwd='/verif')
        lines = [l for l in o.splitlines() if l.startswith(('VIOLATION', '  rule', 'ANALYSIS-ERROR'))]
        verdicts[p] = {'exit': rc, 'report': lines[:6]}
finally:
    sh('git -C /repo checkout -- .')
    # evidence files were rewritten against the patched tree: regenerate on the clean tree
    for p in verdicts:
        sh('/venv/bin/python /verif/check %s --tier quick' % p, cwd='/verif')
meta['ran'] = ['pinned suite in scratch worktree with patch', 'demo with patch', 'demo on clean tree',
               'check quick on /repo with patch applied, then git checkout -- .']
meta['checks'] = verdicts
meta['detected'] = any(v['exit'] == 1 for v in verdicts.values())
json.dump(meta, open(os.path.join(dest, 'meta.json'), 'w'), indent=1)
print('DETECTED' if meta['detected'] else 'MISSED', json.dumps(verdicts, indent=1)[:1500])
