#!/venv/bin/python
"""Re-run the property check on every filed seeded change (applied to /repo, then undone) and refresh meta.json."""
import glob, json, os, subprocess, sys

def sh(cmd, cwd=None):
    p = subprocess.run(cmd, shell=True, cwd=cwd, capture_output=True, text=True, timeout=1200)
    return p.returncode, p.stdout + p.stderr

only = sys.argv[1:]
rc, o = sh('git -C /repo status --porcelain')
assert not o.strip(), '/repo not clean'
touched = set()
bad = []
for d in sorted(glob.glob('/verif/seeded/*/')):
    name = os.path.basename(d.rstrip('/'))
    if only and not any(name.startswith(x) for x in only):
        continue
    meta = json.load(open(d + 'meta.json'))
    prop = meta['property']
    rc, o = sh('git -C /repo apply %spatch.diff' % d)
    if rc != 0:
        print(name, 'PATCH DOES NOT APPLY', o[:100])
        bad.append(name)
        continue
    FILEPROPS = {'cacheutils': ['C02', 'C03', 'C20'], 'dictutils': ['C01', 'C17'], 'urlutils': ['C01', 'C06', 'C07'],
                 'iterutils': ['C08', 'C09', 'C15'], 'strutils': ['C14', 'C19'], 'fileutils': ['C04', 'C05'],
                 'jsonutils': ['C19'], 'queueutils': ['C10'], 'listutils': ['C10'], 'setutils': ['C11'],
                 'socketutils': ['C12'], 'tbutils': ['C16'], 'ioutils': ['C18']}
    others = []
    if meta.get('kind') == 'refactoring':
        import re
        for f in re.findall(r'^\+\+\+ b/boltons/(\w+)\.py', open(d + 'patch.diff').read(), re.M):
            others += [x for x in FILEPROPS.get(f, []) if x != prop]
    try:
        rc, o = sh('/venv/bin/python /verif/check %s --tier quick' % prop, cwd='/verif')
        for x in sorted(set(others)):
            rc2, o2 = sh('/venv/bin/python /verif/check %s --tier quick' % x, cwd='/verif')
            touched.add(x)
            if rc2 != 0:
                rc = rc or rc2
                o += '\n[also %s] ' % x + o2
    finally:
        sh('git -C /repo checkout -- .')
    touched.add(prop)
    lines = [l for l in o.splitlines() if l.startswith(('VIOLATION', '  rule', 'ANALYSIS-ERROR'))]
    meta['checks'] = {prop: {'exit': rc, 'report': lines[:6]}}
    if meta.get('kind') == 'refactoring':
        meta['silent'] = rc == 0
        verdict = 'SILENT' if rc == 0 else 'NOISY exit=%d %s' % (rc, lines[:2])
        if rc != 0:
            bad.append(name)
    else:
        meta['detected'] = rc == 1
        verdict = 'DETECTED' if rc == 1 else 'missed exit=%d' % rc
    json.dump(meta, open(d + 'meta.json', 'w'), indent=1)
    print(name, verdict)
for p in sorted(touched):
    sh('/venv/bin/python /verif/check %s --tier quick' % p, cwd='/verif')
print('needs attention:', bad)
