#!/venv/bin/python
"""Re-run the property check on every filed seeded change and refresh meta.json.

usage: recheck_seeded.py [name prefixes ...] [--jobs N]
  --jobs 1 (default): each patch is applied to /repo itself, checked, and undone (git checkout -- .)
  --jobs N          : N scratch worktrees of /repo under /tmp/recheck_wt (removed afterwards) are used in parallel, the
                      check reading the worktree through VERIF_REPO; evidence files are regenerated on /repo at the end.
"""
import glob, json, os, re, subprocess, sys
from concurrent.futures import ThreadPoolExecutor
import queue

FILEPROPS = {'cacheutils': ['C02', 'C03', 'C20'], 'dictutils': ['C01', 'C17'], 'urlutils': ['C01', 'C06', 'C07'],
             'iterutils': ['C08', 'C09', 'C15'], 'strutils': ['C14', 'C19'], 'fileutils': ['C04', 'C05'],
             'jsonutils': ['C19'], 'queueutils': ['C10'], 'listutils': ['C10'], 'setutils': ['C11'],
             'socketutils': ['C12'], 'tbutils': ['C16'], 'ioutils': ['C18']}


def sh(cmd, cwd=None, env=None):
    e = dict(os.environ)
    if env:
        e.update(env)
    p = subprocess.run(cmd, shell=True, cwd=cwd, capture_output=True, text=True, timeout=2400, env=e)
    return p.returncode, p.stdout + p.stderr


args = sys.argv[1:]
jobs = 1
if '--jobs' in args:
    i = args.index('--jobs')
    jobs = int(args[i + 1])
    del args[i:i + 2]
only = args
rc, o = sh('git -C /repo status --porcelain')
assert not o.strip(), '/repo not clean'
roots = queue.Queue()
wts = []
if jobs == 1:
    roots.put('/repo')
else:
    os.makedirs('/tmp/recheck_wt', exist_ok=True)
    for i in range(jobs):
        wt = '/tmp/recheck_wt/%d' % i
        sh('git -C /repo worktree remove --force %s' % wt)
        rc, o = sh('git -C /repo worktree add --detach %s HEAD' % wt)
        assert rc == 0, o
        wts.append(wt)
        roots.put(wt)
touched = set()
bad = []
import threading
_plocks = {}
_pl = threading.Lock()


def checked(prop, env):
    # one run of a property's check at a time: the check rewrites that property's evidence and replay files
    with _pl:
        lk = _plocks.setdefault(prop, threading.Lock())
    with lk:
        return sh('/venv/bin/python /verif/check %s --tier quick' % prop, cwd='/verif', env=env)


def one(d):
    name = os.path.basename(d.rstrip('/'))
    meta = json.load(open(d + 'meta.json'))
    prop = meta['property']
    root = roots.get()
    others = []
    try:
        rc, o = sh('git -C %s apply %spatch.diff' % (root, d))
        if rc != 0:
            return name, 'PATCH DOES NOT APPLY ' + o[:100], True, set()
        if meta.get('kind') in ('refactoring', 'refactoring-unsupported'):
            for f in re.findall(r'^\+\+\+ b/boltons/(\w+)\.py', open(d + 'patch.diff').read(), re.M):
                others += [x for x in FILEPROPS.get(f, []) if x != prop]
        env = {'VERIF_REPO': root}
        try:
            rc, o = checked(prop, env)
            for x in sorted(set(others)):
                rc2, o2 = checked(x, env)
                if rc2 != 0:
                    rc = rc or rc2
                    o += '\n[also %s] ' % x + o2
        finally:
            sh('git -C %s checkout -- .' % root)
    finally:
        roots.put(root)
    lines = [l for l in o.splitlines() if l.startswith(('VIOLATION', '  rule', 'ANALYSIS-ERROR'))]
    meta['checks'] = {prop: {'exit': rc, 'report': lines[:6]}}
    is_bad = False
    if meta.get('kind') == 'refactoring-unsupported':
        meta['silent'] = rc == 0
        verdict = 'LIMITATION (documented): %s' % ('now silent' if rc == 0 else 'exit=%d' % rc)
    elif meta.get('kind') == 'refactoring':
        meta['silent'] = rc == 0
        verdict = 'SILENT' if rc == 0 else 'NOISY exit=%d %s' % (rc, lines[:2])
        is_bad = rc != 0
    else:
        meta['detected'] = rc == 1
        verdict = 'DETECTED' if rc == 1 else 'missed exit=%d' % rc
    json.dump(meta, open(d + 'meta.json', 'w'), indent=1)
    return name, verdict, is_bad, set([prop] + others)


dirs = [d for d in sorted(glob.glob('/verif/seeded/*/')) if os.path.exists(d + 'meta.json') and
        (not only or any(os.path.basename(d.rstrip('/')).startswith(x) for x in only))]
try:
    with ThreadPoolExecutor(jobs) as ex:
        for name, verdict, is_bad, props in ex.map(one, dirs):
            print(name, verdict, flush=True)
            touched |= props
            if is_bad:
                bad.append(name)
finally:
    for wt in wts:
        sh('git -C /repo worktree remove --force %s' % wt)
    if wts:
        sh('git -C /repo worktree prune')
for p in sorted(touched):
    sh('/venv/bin/python /verif/check %s --tier quick' % p, cwd='/verif')
print('needs attention:', bad)
