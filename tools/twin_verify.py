#!/venv/bin/python
"""Confirm a benign refactoring from a sub-agent and run the checks on it.
usage: twin_verify.py <PROP> <worktree> <rK>"""
import json, os, shutil, subprocess, sys

def sh(cmd, cwd=None, timeout=1200):
    p = subprocess.run(cmd, shell=True, cwd=cwd, capture_output=True, text=True, timeout=timeout)
    return p.returncode, (p.stdout + p.stderr)

prop, wt, rk = sys.argv[1:4]
patch = os.path.join(wt, 'out', rk + '.diff')
note = os.path.join(wt, 'out', rk + '.md')
assert os.path.exists(patch), 'missing ' + patch
sh('git checkout -- .', cwd=wt)
rc, o = sh('git apply --check %s' % patch, cwd=wt)
assert rc == 0, 'patch does not apply: ' + o
sh('git apply %s' % patch, cwd=wt)
rc, o = sh('/venv/bin/python -m pytest -q -p no:cacheprovider --timeout=900 2>&1 | tail -3', cwd=wt)
suite = o.strip().splitlines()[-1] if o.strip() else ''
sh('git checkout -- .', cwd=wt)
meta = {'property': prop, 'kind': 'refactoring', 'suite_with_patch': suite,
        'source': 'independent sub-agent asked for behaviour-preserving refactorings (property text + scratch worktree only)',
        'what_it_needs': open(note).read() if os.path.exists(note) else ''}
ok = 'passed' in suite and 'failed' not in suite
if not ok:
    print('suite does not pass with this refactoring; not kept:', suite)
    sys.exit(1)
import fcntl
_lock = open('/tmp/verif-repo.lock', 'w')          # /repo is patched in place: one filing at a time
fcntl.flock(_lock, fcntl.LOCK_EX)
rc, o = sh('git -C /repo status --porcelain')
assert not o.strip(), '/repo not clean'
rc, o = sh('git -C /repo apply %s' % patch)
assert rc == 0, o
verdicts = {}
try:
    props = [prop] + sys.argv[4:]
    for p in props:
        rc, o = sh('/venv/bin/python /verif/check %s --tier quick' % p, cwd='/verif')
        lines = [l for l in o.splitlines() if l.startswith(('VIOLATION', '  rule', 'ANALYSIS-ERROR'))]
        verdicts[p] = {'exit': rc, 'report': lines[:6], 'what': [l.strip() for l in o.splitlines() if l.startswith('  ') and not l.startswith('  rule')][:4]}
finally:
    sh('git -C /repo checkout -- .')
    for p in verdicts:
        sh('/venv/bin/python /verif/check %s --tier quick' % p, cwd='/verif')
meta['checks'] = verdicts
meta['silent'] = all(v['exit'] == 0 for v in verdicts.values())
meta['ran'] = ['pinned suite in scratch worktree with patch', 'check quick on /repo with patch applied, then git checkout -- .']
dest = '/verif/seeded/%s-%s' % (prop, rk)
os.makedirs(dest, exist_ok=True)
shutil.copy(patch, os.path.join(dest, 'patch.diff'))
json.dump(meta, open(os.path.join(dest, 'meta.json'), 'w'), indent=1)
print(prop, rk, 'SILENT' if meta['silent'] else 'NOISY', json.dumps(verdicts)[:900] if not meta['silent'] else '')
