#!/venv/bin/python
"""Coverage map of the rules: small single-site *defect-like* edits in the functions a property's anchors name.

For every mutant (statement deleted, condition negated, comparison boundary moved, integer literal off by one,
`except` narrowed ...):
  1. is it reported by the property's quick check (in-memory overlay)?
  2. if not: does the pinned test-suite still pass with it (scratch worktrees outside /repo and /verif)?
Mutants that pass the suite and are not reported are written to <out>/survivors_<PROP>.txt for review: each is either
equivalent / irrelevant to the property, value-level (declined), or a gap worth a rule.

usage: mutant_sweep.py PROP [PROP ...] [--out DIR] [--jobs N] [--no-suite]
Development tool: it is not part of any registered check.
"""
import ast
import json
import os
import re
import subprocess
import sys
from concurrent.futures import ProcessPoolExecutor, ThreadPoolExecutor

HERE = os.path.dirname(os.path.dirname(os.path.abspath(__file__)))
sys.path.insert(0, HERE)
sys.dont_write_bytecode = True
from sa.index import REPO                                    # noqa: E402
from selftest.autotwins import PROPFILES, failing, _fn_source, _splice, _replace_stmt    # noqa: E402


def anchor_functions(prop):
    names = set()
    for l in open(os.path.join(HERE, 'properties.jsonl')):
        d = json.loads(l)
        if d['id'] != prop:
            continue
        for sec in ('state', 'mechanism'):
            for a in d['anchors'][sec]:
                w = a['where'].split(':', 1)[-1]
                for tok in re.findall(r'[A-Za-z_][A-Za-z_0-9.]*(?:/[A-Za-z_][A-Za-z_0-9]*)*', w):
                    parts = tok.split('/')
                    head = parts[0].split('.')
                    for i, part in enumerate(parts):
                        names.add(part.split('.')[-1])
                    names.update(head)
    return names


def mutants_of(src, fn):
    lines = src.splitlines(keepends=True)
    fsrc = _fn_source(lines, fn)
    base = ast.parse(fsrc)
    nodes = list(ast.walk(base))
    sites = []
    for i, n in enumerate(nodes):
        if isinstance(n, (ast.Expr, ast.Assign, ast.AugAssign)) and not (isinstance(n, ast.Expr) and isinstance(n.value, ast.Constant)):
            sites.append(('del-stmt', i))
        if isinstance(n, (ast.If, ast.While)) and not isinstance(n.test, ast.Constant):
            sites.append(('neg-cond', i))
        if isinstance(n, ast.Compare) and len(n.ops) == 1 and type(n.ops[0]) in (ast.Lt, ast.LtE, ast.Gt, ast.GtE):
            sites.append(('cmp-bound', i))
        if isinstance(n, ast.Compare) and len(n.ops) == 1 and type(n.ops[0]) in (ast.Is, ast.IsNot, ast.Eq, ast.NotEq, ast.In, ast.NotIn):
            sites.append(('cmp-neg', i))
        if isinstance(n, ast.ExceptHandler) and n.type is not None and ast.unparse(n.type) in ('Exception', 'BaseException'):
            sites.append(('narrow-exc', i))
        if isinstance(n, ast.Return) and n.value is not None and not isinstance(n.value, ast.Constant):
            sites.append(('ret-none', i))
        if isinstance(n, (ast.Break, ast.Continue)):
            sites.append(('del-jump', i))
        if isinstance(n, ast.BoolOp):
            sites.append(('boolop', i))
    for kind, idx in sites:
        tree = ast.parse(fsrc)
        tn = list(ast.walk(tree))
        n = tn[idx]
        orig = nodes[idx]
        line = fn.lineno + getattr(orig, 'lineno', 1) - 1
        try:
            otext = ast.unparse(orig).split('\n')[0][:90]
        except Exception:
            otext = ''
        if kind in ('del-stmt', 'del-jump'):
            if not _replace_stmt(tree, n, [ast.Pass()]):
                continue
        elif kind == 'neg-cond':
            n.test = ast.UnaryOp(op=ast.Not(), operand=n.test)
        elif kind == 'cmp-bound':
            n.ops = [{ast.Lt: ast.LtE, ast.LtE: ast.Lt, ast.Gt: ast.GtE, ast.GtE: ast.Gt}[type(n.ops[0])]()]
        elif kind == 'cmp-neg':
            n.ops = [{ast.Is: ast.IsNot, ast.IsNot: ast.Is, ast.Eq: ast.NotEq, ast.NotEq: ast.Eq, ast.In: ast.NotIn,
                      ast.NotIn: ast.In}[type(n.ops[0])]()]
        elif kind == 'narrow-exc':
            n.type = ast.Name(id='ValueError', ctx=ast.Load())
        elif kind == 'ret-none':
            n.value = None
        elif kind == 'boolop':
            n.op = ast.Or() if isinstance(n.op, ast.And) else ast.And()
        ast.fix_missing_locations(tree)
        try:
            yield kind, line, otext, _splice(src, fn, tree)
        except Exception:
            continue


def detect(args):
    prop, rel, desc, newsrc = args
    try:
        ast.parse(newsrc)
    except SyntaxError:
        return desc, 'syntax', None
    res = failing(prop, {rel: newsrc})
    return desc, ('reported' if res and not res[0].startswith(('ANALYSIS-ERROR', 'INTERNAL', 'DEFICIT')) else
                  'analysis-error' if res else 'silent'), (res[0][:100] if res else None)


def suite(slot, rel, newsrc):
    wt = '/tmp/msweep/wt%d' % slot
    path = os.path.join(wt, rel)
    orig = open(path, encoding='utf-8').read()
    try:
        open(path, 'w', encoding='utf-8').write(newsrc)
        p = subprocess.run('/venv/bin/python -m pytest -q -x -p no:cacheprovider --timeout=120 2>&1 | tail -1', shell=True, cwd=wt,
                           capture_output=True, text=True, timeout=900)
        last = p.stdout.strip().splitlines()[-1] if p.stdout.strip() else ''
        return 'passed' in last and 'failed' not in last and 'error' not in last
    except subprocess.TimeoutExpired:
        return False
    finally:
        open(path, 'w', encoding='utf-8').write(orig)


def main(argv):
    props = [a for a in argv if re.fullmatch(r'C\d\d', a)]
    out = argv[argv.index('--out') + 1] if '--out' in argv else '/tmp/msweep/out'
    jobs = int(argv[argv.index('--jobs') + 1]) if '--jobs' in argv else 16
    nsuite = 8
    os.makedirs(out, exist_ok=True)
    if '--no-suite' not in argv:
        for i in range(nsuite):
            wt = '/tmp/msweep/wt%d' % i
            if not os.path.isdir(wt):
                subprocess.run(['git', '-C', REPO, 'worktree', 'add', '--detach', wt, 'HEAD'], check=True, capture_output=True)
    for prop in props:
        names = anchor_functions(prop)
        todo = []
        for m in PROPFILES[prop]:
            rel = 'boltons/%s.py' % m
            src = open(os.path.join(REPO, rel), encoding='utf-8').read()
            tree = ast.parse(src)
            for n in ast.walk(tree):
                if isinstance(n, ast.FunctionDef) and n.name in names:
                    for kind, line, otext, newsrc in mutants_of(src, n):
                        todo.append((prop, rel, '%s:%d %s %s | %s' % (rel, line, n.name, kind, otext), newsrc))
        print('%s: %d mutants in %d anchor functions' % (prop, len(todo), len({t[2].split()[1] for t in todo})), flush=True)
        silent = []
        counts = {}
        with ProcessPoolExecutor(max_workers=jobs) as ex:
            for (p_, rel, desc, newsrc), (d2, verdict, why) in zip(todo, ex.map(detect, todo, chunksize=4)):
                counts[verdict] = counts.get(verdict, 0) + 1
                if verdict == 'silent':
                    silent.append((rel, desc, newsrc))
        print('   ', counts, flush=True)
        survivors = []
        if '--no-suite' in argv:
            survivors = silent
        else:
            import itertools
            slots = list(range(nsuite))
            import queue
            q = queue.Queue()
            for sl in slots:
                q.put(sl)

            def run(item):
                rel, desc, newsrc = item
                sl = q.get()
                try:
                    return item, suite(sl, rel, newsrc)
                finally:
                    q.put(sl)
            with ThreadPoolExecutor(max_workers=nsuite) as tex:
                for item, ok in tex.map(run, silent):
                    if ok:
                        survivors.append(item)
        with open(os.path.join(out, 'survivors_%s.txt' % prop), 'w') as f:
            for rel, desc, newsrc in survivors:
                f.write(desc + '\n')
        print('    %d silent, %d of them also pass the suite -> %s/survivors_%s.txt' % (len(silent), len(survivors), out, prop), flush=True)
    return 0


if __name__ == '__main__':
    sys.exit(main(sys.argv[1:]))
