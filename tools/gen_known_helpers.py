#!/venv/bin/python
"""Record the private function / method names that exist in boltons today (per module) in sa/known_helpers.json.

The second view of sa/views.py (helpers inlined) inlines only private helpers that are *not* in this list, i.e. helpers a
later change introduced: statements moved into new helpers are put back where the rules look for them, while the helpers
the rules were written against stay calls.  A stale list only changes which helpers the fallback view inlines; it is not
consulted by any rule and the first view never depends on it.  Development tool (run after a `fix:` commit that adds or
renames a private helper)."""
import ast
import glob
import json
import os
import sys

HERE = os.path.dirname(os.path.dirname(os.path.abspath(__file__)))
root = sys.argv[1] if len(sys.argv) > 1 else os.environ.get('VERIF_REPO', '/repo')
out = {}
for p in sorted(glob.glob(os.path.join(root, 'boltons', '*.py'))):
    tree = ast.parse(open(p, encoding='utf-8').read())
    names = sorted({n.name for n in ast.walk(tree) if isinstance(n, (ast.FunctionDef, ast.AsyncFunctionDef)) and
                    n.name.startswith('_') and not n.name.startswith('__')})
    if names:
        out[os.path.basename(p)[:-3]] = names
json.dump(out, open(os.path.join(HERE, 'sa', 'known_helpers.json'), 'w'), indent=1, sort_keys=True)
print(sum(len(v) for v in out.values()), 'private helpers in', len(out), 'modules')
