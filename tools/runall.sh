#!/bin/bash
# run every claimed quick check on the current tree, validate evidence + manifest
cd /verif
/venv/bin/python tools/mkmanifest.py > /dev/null
rc=0
for p in $(/venv/bin/python -c "import json;print(' '.join(c['property_id'] for c in json.load(open('MANIFEST.json'))['checks']))"); do
  out=$(/venv/bin/python /verif/check $p --tier ${1:-quick} 2>&1); code=$?
  echo "$p exit=$code $(echo "$out" | tail -1)"
  if [ $code -ne 0 ]; then rc=1; echo "$out" | head -20; fi
done
python3-vt - <<'PY'
import json,jsonschema,glob
jsonschema.validate(json.load(open('/verif/MANIFEST.json')),json.load(open('/root/.vp/MANIFEST.schema.json')))
s=json.load(open('/root/.vp/EVIDENCE.schema.json'))
for f in sorted(glob.glob('/verif/evidence/C*.json')): jsonschema.validate(json.load(open(f)),s)
print('manifest + evidence schema-valid')
PY
git -C /repo status --porcelain | head -3
exit $rc
