#!/venv/bin/python
"""Regenerate /verif/MANIFEST.json from props/*.py (SPEC + MANIFEST dicts)."""
import importlib, json, os, sys
HERE = os.path.dirname(os.path.dirname(os.path.abspath(__file__)))
sys.path.insert(0, HERE)
sys.dont_write_bytecode = True

NOT_APPLICABLE = {
    'C13': ('funcutils.wraps/FunctionBuilder generates source text at run time from an arbitrary '
            "function's argspec and compiles it; the property quantifies over all signatures and call "
            'shapes of the *generated* function, which no static rule over boltons/funcutils.py can '
            'bound without evaluating the generator (concretely or symbolically) - outside this '
            'technique family. See DESIGN.md section 6.'),
}
PENDING = 'check not built yet (build in progress); see DESIGN.md'

props = [json.loads(l)['id'] for l in open(os.path.join(HERE, 'properties.jsonl'))]
checks, na, served = [], [], []
for p in props:
    path = os.path.join(HERE, 'props', p + '.py')
    if p in NOT_APPLICABLE or not os.path.exists(path):
        na.append({'property_id': p, 'reason': NOT_APPLICABLE.get(p, PENDING)})
        continue
    mod = importlib.import_module('props.' + p)
    M = getattr(mod, 'MANIFEST', {})
    served.append(p)
    checks.append({
        'property_id': p,
        'quick_cmd': '/venv/bin/python /verif/check %s --tier quick' % p,
        'thorough_cmd': '/venv/bin/python /verif/check %s --tier thorough' % p,
        'evidence_file': '/verif/evidence/%s.json' % p,
        'replay_cmd_template': '/venv/bin/python /verif/check %s --explain {path}' % p,
        'engine': 'sa',
        'level_claimed': {'category': 'other',
                          'text': M.get('text', mod.SPEC['explanation']),
                          'design_ref': M.get('design_ref', 'DESIGN.md section 5, ' + p)},
        'level_note': M.get('note', '; '.join(mod.SPEC.get('trusted_base', []) + mod.SPEC.get('assumptions', []))),
        'technique': M.get('technique', 'static analysis'),
    })
m = {
    'version': 1,
    'setup_cmd': 'true',
    'hooks': {'guard': 'BOLTONS_VERIF',
              'enable': 'none needed: the checks parse /repo/boltons/*.py; no hooks or instrumentation exist',
              'baseline_off_cmd': 'cd /repo && /venv/bin/python -m pytest -ra -q -p no:cacheprovider --timeout=900 --continue-on-collection-errors',
              'source_commits': [], 'add_only': True},
    'engines': [{'name': 'sa', 'path': '/verif/sa', 'serves_properties': served,
                 'kind_free_text': 'repository-specific static analysis: ast program index with MRO/alias/callee '
                                   'resolution, path-sensitive typestate and pairing rules over enumerated CFG paths '
                                   '(exception edges, receiver-sensitive inlining), constant-table and regex-AST folding'}],
    'checks': checks,
    'not_applicable': na,
    'notes': 'All checks are static (no code of boltons is imported or run). Exit 0 ok / KNOWN-FINDING, 1 VIOLATION, '
             '2 ANALYSIS-ERROR (the analysis could not run; never a verdict). Thorough = quick + self-test of the '
             'checker on in-memory mutants and behaviour-preserving twins.',
}
json.dump(m, open(os.path.join(HERE, 'MANIFEST.json'), 'w'), indent=1)
print('claimed:', served, 'n/a:', [x['property_id'] for x in na])
