#!/venv/bin/python
"""Command-line front end of selftest/autotwins.py (automatic behaviour-preserving single-site rewrites).
usage: twin_probe.py [PROP ...] [--kinds rename,cmpflip,...] [--params] [--jobs N]"""
import os
import sys
sys.path.insert(0, os.path.dirname(os.path.dirname(os.path.abspath(__file__))))
sys.dont_write_bytecode = True
from selftest.autotwins import main      # noqa: E402

if __name__ == '__main__':
    sys.exit(main(sys.argv[1:]))
