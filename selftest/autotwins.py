#!/venv/bin/python
"""Automatic benign twins: apply ONE behaviour-preserving rewrite at a time inside one function and check that the
property's rules stay silent.  A rule that fires (or loses its anchor) under such a rewrite is keyed on a name or on a
syntactic shape instead of a role / value.

kinds (default: all):
  rename    one local variable (with --params also one parameter of a private function) gets a new name
  cmpflip   one comparison `a < b` becomes `b > a` (also <=, >=, >, ==, !=)
  ifswap    one `if c: A else: B` becomes `if not c: B else: A`
  elif      one `elif c:` becomes `else:` + nested `if c:`
  rettemp   one `return EXPR` becomes `_rt = EXPR; return _rt`
  hoist     one str/bytes/int literal of the function moves into a module-level constant
  augassign one `x += <number>` becomes `x = x + <number>` (and -=), plain names only
  nestif    one `if a and b: S` (no else) becomes `if a:` + nested `if b: S`
  elseret   one `if c: ...return` followed by statements becomes `if c: ...return  else: <the statements>`
  while1    one `while True:` becomes `while 1:` (or back)
  demorgan  one `not (a and b)` / `not (a or b)` in a test is distributed; one `a and b` test becomes `not (not a or not b)`
  kw2pos    one call of a module-level function passes a keyword argument positionally when the signature allows it
  ifexp     one `if c: t = A else: t = B` becomes `t = A if c else B`, or the reverse for `t = A if c else B`
  methalias one call `self.m(...)` of a method defined in the same class, or `x.append/extend/add/pop(...)` on a local
            container created once at the top of the function, goes through a local bound to the bound method beforehand
  attralias every read of one `self.attr` that is assigned only in __init__ goes through a local bound at the function's top
  retifexp  one `if c: return A else: return B` (or `if c: return A` + `return B`) becomes `return A if c else B`
  tupassign two consecutive independent simple assignments `a = x; b = y` become `a, b = x, y`

usage: twin_probe.py [PROP ...] [--kinds rename,cmpflip,...] [--params] [--jobs N]
Nothing is written to /repo: every variant is an in-memory overlay.
"""
import ast
import importlib
import os
import sys
from concurrent.futures import ProcessPoolExecutor

HERE = os.path.dirname(os.path.dirname(os.path.abspath(__file__)))
sys.path.insert(0, HERE)
sys.dont_write_bytecode = True
from sa.index import Program, AnalysisError, REPO    # noqa: E402
from sa.report import Ctx                            # noqa: E402

PROPFILES = {'C01': ['dictutils', 'urlutils'], 'C02': ['cacheutils'], 'C03': ['cacheutils'], 'C04': ['fileutils'],
             'C05': ['fileutils'], 'C06': ['urlutils'], 'C07': ['urlutils'], 'C08': ['iterutils'], 'C09': ['iterutils'],
             'C10': ['queueutils', 'listutils'], 'C11': ['setutils'], 'C12': ['socketutils'], 'C14': ['strutils'],
             'C15': ['iterutils'], 'C16': ['tbutils'], 'C17': ['dictutils'], 'C18': ['ioutils'], 'C19': ['strutils', 'jsonutils'],
             'C20': ['cacheutils']}


class Ren(ast.NodeTransformer):
    def __init__(self, old, new, root):
        self.old, self.new, self.root = old, new, root

    def visit_Name(self, n):
        if n.id == self.old:
            n.id = self.new
        return n

    def visit_arg(self, n):
        if n.arg == self.old:
            n.arg = self.new
        return n

    def _nested(self, n):
        # a nested function that rebinds the name as its own parameter/local is left alone only if it declares it as a param
        if n is not self.root and any(a.arg == self.old for a in ast.walk(n.args) if isinstance(a, ast.arg)):
            return n
        return self.generic_visit(n)

    visit_FunctionDef = visit_Lambda = _nested


def function_nodes(tree):
    for n in ast.walk(tree):
        if isinstance(n, ast.FunctionDef):
            yield n


def locals_of(fn, with_params):
    params = {a.arg for a in ast.walk(fn.args) if isinstance(a, ast.arg)}
    declared = set()
    for n in ast.walk(fn):
        if isinstance(n, (ast.Global, ast.Nonlocal)):
            declared |= set(n.names)
    names = set()
    for n in ast.walk(fn):
        if isinstance(n, ast.Name) and isinstance(n.ctx, ast.Store):
            names.add(n.id)
    names -= declared
    out = sorted(names - params)
    if with_params and fn.name.startswith('_') and not (fn.name.startswith('__') and fn.name.endswith('__')):
        out += sorted(p for p in params if p not in ('self', 'cls'))
    return out


def _fn_source(lines, fn):
    seg = lines[fn.lineno - 1:fn.end_lineno]
    return ''.join(l[fn.col_offset:] if l.strip() else l for l in seg)


def _splice(src, fn, node, prelude=''):
    lines = src.splitlines(keepends=True)
    text = ast.unparse(node)
    ind = ' ' * fn.col_offset
    new_lines = [ind + l + '\n' for l in text.splitlines()]
    out = ''.join(lines[:fn.lineno - 1] + new_lines + lines[fn.end_lineno:])
    if prelude:
        # module-level constant: put it after the last top-level import
        tree = ast.parse(out)
        last = 0
        for st in tree.body:
            if isinstance(st, (ast.Import, ast.ImportFrom)) or (isinstance(st, ast.Expr) and isinstance(st.value, ast.Constant)):
                last = st.end_lineno
            elif isinstance(st, ast.Try):
                last = max(last, st.end_lineno) if any(isinstance(x, (ast.Import, ast.ImportFrom)) for x in ast.walk(st)) else last
        ol = out.splitlines(keepends=True)
        out = ''.join(ol[:last] + [prelude + '\n'] + ol[last:])
    return out


def variant(src, fn, old, new):
    lines = src.splitlines(keepends=True)
    node = Ren(old, new, fn).visit(ast.parse(_fn_source(lines, fn)))
    return _splice(src, fn, node)


FLIP = {ast.Lt: ast.Gt, ast.Gt: ast.Lt, ast.LtE: ast.GtE, ast.GtE: ast.LtE, ast.Eq: ast.Eq, ast.NotEq: ast.NotEq}


def _pure(e):
    return not any(isinstance(x, (ast.Call, ast.Yield, ast.YieldFrom, ast.Await, ast.NamedExpr)) for x in ast.walk(e))


MODFUNCS = {}
INIT_ONLY_ATTRS = set()      # attribute names assigned (module-wide) only inside __init__ / __new__
CLASS_METHODS = {}           # lineno of a method -> names of the methods defined in its class


def _replace_stmt(tree, node, repl):
    for par in ast.walk(tree):
        for field in ('body', 'orelse', 'finalbody'):
            blk = getattr(par, field, None)
            if isinstance(blk, list) and node in blk:
                j = blk.index(node)
                blk[j:j + 1] = repl
                return True
        if isinstance(par, ast.Try):
            for h in par.handlers:
                if node in h.body:
                    j = h.body.index(node)
                    h.body[j:j + 1] = repl
                    return True
    return False


def shape_variants(src, fn, kinds):
    """(kind, description, new module source) for every single-site rewrite of the requested kinds in fn."""
    lines = src.splitlines(keepends=True)
    fsrc = _fn_source(lines, fn)
    base = ast.parse(fsrc)
    sites = []
    seen_attr = set()
    for i, n in enumerate(ast.walk(base)):
        if 'cmpflip' in kinds and isinstance(n, ast.Compare) and len(n.ops) == 1 and type(n.ops[0]) in FLIP and \
                _pure(n.left) and _pure(n.comparators[0]):
            sites.append(('cmpflip', i))
        if 'ifswap' in kinds and isinstance(n, ast.If) and n.orelse and not (len(n.orelse) == 1 and isinstance(n.orelse[0], ast.If)):
            sites.append(('ifswap', i))
        if 'elif' in kinds and isinstance(n, ast.If) and len(n.orelse) == 1 and isinstance(n.orelse[0], ast.If):
            sites.append(('elif', i))
        if 'rettemp' in kinds and isinstance(n, ast.Return) and n.value is not None and not isinstance(n.value, (ast.Name, ast.Constant)):
            sites.append(('rettemp', i))
        if 'hoist' in kinds and isinstance(n, ast.Constant) and isinstance(n.value, (str, bytes, int)) and \
                not isinstance(n.value, bool) and n.value not in ('', b'', 0, 1, -1):
            sites.append(('hoist', i))
    for i, n in enumerate(ast.walk(base)):
        if 'augassign' in kinds and isinstance(n, ast.AugAssign) and isinstance(n.target, ast.Name) and isinstance(n.op, (ast.Add, ast.Sub)) \
                and isinstance(n.value, ast.Constant) and isinstance(n.value.value, (int, float)):
            sites.append(('augassign', i))
        if 'nestif' in kinds and isinstance(n, ast.If) and not n.orelse and isinstance(n.test, ast.BoolOp) and isinstance(n.test.op, ast.And):
            sites.append(('nestif', i))
        if 'while1' in kinds and isinstance(n, ast.While) and isinstance(n.test, ast.Constant) and n.test.value in (True, 1):
            sites.append(('while1', i))
        if 'demorgan' in kinds and isinstance(n, (ast.If, ast.While)) and isinstance(n.test, ast.BoolOp) and all(_pure(v) for v in n.test.values):
            sites.append(('demorgan', i))
        if 'elseret' in kinds:
            for field in ('body', 'orelse', 'finalbody'):
                blk = getattr(n, field, None)
                if isinstance(blk, list):
                    for j, st in enumerate(blk[:-1]):
                        if isinstance(st, ast.If) and not st.orelse and st.body and isinstance(st.body[-1], (ast.Return, ast.Raise, ast.Continue, ast.Break)):
                            sites.append(('elseret:%s:%d' % (field, j), i))
        if 'ifexp' in kinds and isinstance(n, ast.If) and len(n.body) == 1 and len(n.orelse) == 1 and \
                isinstance(n.body[0], ast.Assign) and isinstance(n.orelse[0], ast.Assign) and \
                [ast.unparse(t) for t in n.body[0].targets] == [ast.unparse(t) for t in n.orelse[0].targets]:
            sites.append(('ifexp', i))
        if 'ifexp' in kinds and isinstance(n, ast.Assign) and isinstance(n.value, ast.IfExp):
            sites.append(('ifexp-rev', i))
        if 'kw2pos' in kinds and isinstance(n, ast.Call) and isinstance(n.func, ast.Name) and n.func.id in MODFUNCS and n.keywords:
            sites.append(('kw2pos', i))
        if 'methalias' in kinds and isinstance(n, ast.Call) and isinstance(n.func, ast.Attribute) and isinstance(n.func.value, ast.Name):
            sites.append(('methalias', i))
        if 'attralias' in kinds and isinstance(n, ast.Attribute) and isinstance(n.ctx, ast.Load) and isinstance(n.value, ast.Name) and \
                n.value.id == 'self' and n.attr in INIT_ONLY_ATTRS and n.attr not in seen_attr:
            seen_attr.add(n.attr)
            sites.append(('attralias', i))
        if 'retifexp' in kinds:
            for field in ('body', 'orelse', 'finalbody'):
                blk = getattr(n, field, None)
                if isinstance(blk, list):
                    for j, st in enumerate(blk):
                        if isinstance(st, ast.If) and len(st.body) == 1 and isinstance(st.body[0], ast.Return) and st.body[0].value is not None:
                            if len(st.orelse) == 1 and isinstance(st.orelse[0], ast.Return) and st.orelse[0].value is not None:
                                sites.append(('retifexp:%s:%d:else' % (field, j), i))
                            elif not st.orelse and j + 1 < len(blk) and isinstance(blk[j + 1], ast.Return) and blk[j + 1].value is not None:
                                sites.append(('retifexp:%s:%d:next' % (field, j), i))
        if 'tupassign' in kinds:
            for field in ('body', 'orelse', 'finalbody'):
                blk = getattr(n, field, None)
                if isinstance(blk, list):
                    for j in range(len(blk) - 1):
                        a, b = blk[j], blk[j + 1]
                        if all(isinstance(x, ast.Assign) and len(x.targets) == 1 and isinstance(x.targets[0], ast.Name) and _pure(x.value)
                               for x in (a, b)) and a.targets[0].id != b.targets[0].id and \
                                a.targets[0].id not in {y.id for y in ast.walk(b.value) if isinstance(y, ast.Name)}:
                            sites.append(('tupassign:%s:%d' % (field, j), i))
    # docstrings and f-string parts are not hoistable
    skip_ids = set()
    for n in ast.walk(base):
        if isinstance(n, (ast.FunctionDef, ast.ClassDef, ast.Module)) and n.body and isinstance(n.body[0], ast.Expr) and \
                isinstance(n.body[0].value, ast.Constant):
            skip_ids.add(id(n.body[0].value))
        if isinstance(n, ast.JoinedStr):
            skip_ids |= {id(v) for v in ast.walk(n) if isinstance(v, ast.Constant)}
    for kind, idx in sites:
        tree = ast.parse(fsrc)
        nodes = list(ast.walk(tree))
        n = nodes[idx]
        orig = list(ast.walk(base))[idx]
        prelude = ''
        if kind == 'cmpflip':
            n.left, n.comparators, n.ops = n.comparators[0], [n.left], [FLIP[type(n.ops[0])]()]
            what = 'line %d: %s' % (fn.lineno + orig.lineno - 1, ast.unparse(orig))
        elif kind == 'ifswap':
            n.test = ast.UnaryOp(op=ast.Not(), operand=n.test)
            n.body, n.orelse = n.orelse, n.body
            what = 'line %d: if %s' % (fn.lineno + orig.lineno - 1, ast.unparse(orig.test))
        elif kind == 'elif':
            what = 'line %d: elif %s' % (fn.lineno + orig.lineno - 1, ast.unparse(orig.orelse[0].test))
            inner = n.orelse[0]
            n.orelse = [ast.Pass(), inner]      # a leading `pass` stops unparse from folding it back into elif
        elif kind == 'rettemp':
            what = 'line %d: return %s' % (fn.lineno + orig.lineno - 1, ast.unparse(orig.value)[:60])
            tmp = ast.Assign(targets=[ast.Name(id='_rt_tw', ctx=ast.Store())], value=n.value, lineno=n.lineno)
            ret = ast.Return(value=ast.Name(id='_rt_tw', ctx=ast.Load()))
            # replace the statement inside its parent's statement list
            done = False
            for par in ast.walk(tree):
                for field in ('body', 'orelse', 'finalbody'):
                    blk = getattr(par, field, None)
                    if isinstance(blk, list) and n in blk:
                        j = blk.index(n)
                        blk[j:j + 1] = [tmp, ret]
                        done = True
                if isinstance(par, ast.Try):
                    for h in par.handlers:
                        if n in h.body:
                            j = h.body.index(n)
                            h.body[j:j + 1] = [tmp, ret]
                            done = True
            if not done:
                continue
        elif kind == 'augassign':
            what = 'line %d: %s' % (fn.lineno + orig.lineno - 1, ast.unparse(orig))
            repl = ast.Assign(targets=[ast.Name(id=n.target.id, ctx=ast.Store())],
                              value=ast.BinOp(left=ast.Name(id=n.target.id, ctx=ast.Load()), op=n.op, right=n.value), lineno=n.lineno)
            if not _replace_stmt(tree, n, [repl]):
                continue
        elif kind == 'nestif':
            what = 'line %d: if %s' % (fn.lineno + orig.lineno - 1, ast.unparse(orig.test))
            first, rest = n.test.values[0], n.test.values[1:]
            inner_test = rest[0] if len(rest) == 1 else ast.BoolOp(op=ast.And(), values=rest)
            n.body = [ast.If(test=inner_test, body=n.body, orelse=[])]
            n.test = first
        elif kind == 'while1':
            what = 'line %d: while %s' % (fn.lineno + orig.lineno - 1, ast.unparse(orig.test))
            n.test = ast.Constant(value=1 if n.test.value is True else True)
        elif kind == 'demorgan':
            what = 'line %d: %s' % (fn.lineno + orig.lineno - 1, ast.unparse(orig.test))
            other = ast.Or() if isinstance(n.test.op, ast.And) else ast.And()
            n.test = ast.UnaryOp(op=ast.Not(), operand=ast.BoolOp(op=other, values=[ast.UnaryOp(op=ast.Not(), operand=v)
                                                                                      for v in n.test.values]))
        elif kind.startswith('elseret'):
            _, field, j = kind.split(':')
            blk = getattr(n, field)
            st = blk[int(j)]
            what = 'line %d: if %s ... then fall through' % (fn.lineno + st.lineno - 1, ast.unparse(st.test)[:50])
            st.orelse = blk[int(j) + 1:]
            del blk[int(j) + 1:]
            kind = 'elseret'
        elif kind == 'ifexp':
            what = 'line %d: if %s: assign / else: assign' % (fn.lineno + orig.lineno - 1, ast.unparse(orig.test)[:50])
            repl = ast.Assign(targets=n.body[0].targets, value=ast.IfExp(test=n.test, body=n.body[0].value, orelse=n.orelse[0].value),
                              lineno=n.lineno)
            if not _replace_stmt(tree, n, [repl]):
                continue
        elif kind == 'ifexp-rev':
            what = 'line %d: %s' % (fn.lineno + orig.lineno - 1, ast.unparse(orig)[:60])
            import copy as _copy
            a1 = ast.Assign(targets=n.targets, value=n.value.body, lineno=n.lineno)
            a2 = ast.Assign(targets=_copy.deepcopy(n.targets), value=n.value.orelse, lineno=n.lineno)
            repl = ast.If(test=n.value.test, body=[a1], orelse=[a2])
            if not _replace_stmt(tree, n, [repl]):
                continue
            kind = 'ifexp'
        elif kind == 'kw2pos':
            params = MODFUNCS[n.func.id]
            npos = len(n.args)
            if any(isinstance(a, ast.Starred) for a in n.args) or npos >= len(params) or not n.keywords or \
                    n.keywords[0].arg != params[npos]:
                continue
            what = 'line %d: %s(... %s=...)' % (fn.lineno + orig.lineno - 1, n.func.id, n.keywords[0].arg)
            n.args.append(n.keywords[0].value)
            del n.keywords[0]
        elif kind == 'methalias':
            f0 = tree.body[0]
            recv, meth = n.func.value.id, n.func.attr
            params = {a.arg for a in ast.walk(f0.args) if isinstance(a, ast.arg)}
            stores = [x for x in ast.walk(f0) if isinstance(x, ast.Name) and x.id == recv and isinstance(x.ctx, (ast.Store, ast.Del))]
            doc = 1 if (f0.body and isinstance(f0.body[0], ast.Expr) and isinstance(f0.body[0].value, ast.Constant)) else 0
            alias = ast.Assign(targets=[ast.Name(id='_tw_bound', ctx=ast.Store())], value=ast.Attribute(
                value=ast.Name(id=recv, ctx=ast.Load()), attr=meth, ctx=ast.Load()), lineno=f0.lineno)
            if recv == 'self' and recv in params and not stores and meth in CLASS_METHODS.get(fn.lineno, ()):
                f0.body.insert(doc, alias)
            elif recv not in params and len(stores) == 1 and meth in ('append', 'extend', 'add', 'pop', 'update', 'discard'):
                # a container created once by a top-level statement of the function, before this call
                mk = [j for j, st in enumerate(f0.body) if isinstance(st, ast.Assign) and len(st.targets) == 1 and
                      isinstance(st.targets[0], ast.Name) and st.targets[0].id == recv and
                      (isinstance(st.value, (ast.List, ast.Set, ast.Dict)) or
                       (isinstance(st.value, ast.Call) and isinstance(st.value.func, ast.Name) and
                        st.value.func.id in ('list', 'set', 'dict', 'deque') and not st.value.args))]
                if not mk or f0.body[mk[0]].lineno >= n.lineno:
                    continue
                f0.body.insert(mk[0] + 1, alias)
            else:
                continue
            what = 'line %d: %s.%s(...) through a local' % (fn.lineno + orig.lineno - 1, recv, meth)
            n.func = ast.Name(id='_tw_bound', ctx=ast.Load())
        elif kind == 'attralias':
            f0 = tree.body[0]
            if f0.name in ('__init__', '__new__') or 'self' not in {a.arg for a in f0.args.args}:
                continue
            if any(isinstance(x, ast.Name) and x.id == 'self' and isinstance(x.ctx, (ast.Store, ast.Del)) for x in ast.walk(f0)):
                continue
            attr = n.attr
            what = 'line %d: self.%s read through a local' % (fn.lineno + orig.lineno - 1, attr)

            class _R(ast.NodeTransformer):
                def visit_Attribute(self, a):
                    self.generic_visit(a)
                    if isinstance(a.ctx, ast.Load) and isinstance(a.value, ast.Name) and a.value.id == 'self' and a.attr == attr:
                        return ast.Name(id='_tw_attr', ctx=ast.Load())
                    return a
            doc = 1 if (f0.body and isinstance(f0.body[0], ast.Expr) and isinstance(f0.body[0].value, ast.Constant)) else 0
            f0.body = f0.body[:doc] + [_R().visit(st) for st in f0.body[doc:]]
            f0.body.insert(doc, ast.Assign(targets=[ast.Name(id='_tw_attr', ctx=ast.Store())], value=ast.Attribute(
                value=ast.Name(id='self', ctx=ast.Load()), attr=attr, ctx=ast.Load()), lineno=f0.lineno))
        elif kind.startswith('retifexp'):
            _, field, j, form = kind.split(':')
            blk = getattr(n, field)
            st = blk[int(j)]
            what = 'line %d: if %s: return ...' % (fn.lineno + st.lineno - 1, ast.unparse(st.test)[:50])
            other = st.orelse[0].value if form == 'else' else blk[int(j) + 1].value
            repl = ast.Return(value=ast.IfExp(test=st.test, body=st.body[0].value, orelse=other), lineno=st.lineno)
            blk[int(j):int(j) + (1 if form == 'else' else 2)] = [repl]
            kind = 'retifexp'
        elif kind.startswith('tupassign'):
            _, field, j = kind.split(':')
            blk = getattr(n, field)
            a, b = blk[int(j)], blk[int(j) + 1]
            what = 'line %d: %s; %s' % (fn.lineno + a.lineno - 1, ast.unparse(a)[:30], ast.unparse(b)[:30])
            repl = ast.Assign(targets=[ast.Tuple(elts=[a.targets[0], b.targets[0]], ctx=ast.Store())],
                              value=ast.Tuple(elts=[a.value, b.value], ctx=ast.Load()), lineno=a.lineno)
            blk[int(j):int(j) + 2] = [repl]
            kind = 'tupassign'
        elif kind == 'hoist':
            if id(orig) in skip_ids:
                continue
            cname = '_TW_CONST'
            what = 'line %d: literal %r' % (fn.lineno + orig.lineno - 1, orig.value)
            prelude = '%s = %r' % (cname, n.value)
            repl = ast.Name(id=cname, ctx=ast.Load())
            for par in ast.walk(tree):
                for field, val in ast.iter_fields(par):
                    if val is n:
                        setattr(par, field, repl)
                    elif isinstance(val, list):
                        for j, x in enumerate(val):
                            if x is n:
                                val[j] = repl
        ast.fix_missing_locations(tree)
        try:
            yield kind, what, _splice(src, fn, tree, prelude)
        except Exception:
            continue


def failing(prop, overlay):
    from sa.views import evaluate
    ctx, err, view = evaluate(prop, overlay=overlay, quiet=True)
    if isinstance(err, AnalysisError):
        return ['ANALYSIS-ERROR ' + str(err)[:160]]
    if err is not None:
        return ['INTERNAL %s %s' % (type(err).__name__, str(err)[:160])]
    keys = sorted({o.key for o in ctx.failures()})
    if not keys and ctx.deficits:
        return ['DEFICIT ' + '; '.join(ctx.deficits)[:200]]
    return keys


def job(args):
    prop, rel, fname, lineno, old, overlay = args
    try:
        ast.parse(overlay[rel])
    except SyntaxError as e:
        return prop, rel, fname, lineno, old, ['SKIP variant does not parse: %s' % e]
    return prop, rel, fname, lineno, old, failing(prop, overlay)


ALL_KINDS = {'rename', 'cmpflip', 'ifswap', 'elif', 'rettemp', 'hoist', 'augassign', 'nestif', 'elseret', 'while1', 'demorgan',
             'kw2pos', 'ifexp', 'methalias', 'attralias', 'retifexp', 'tupassign'}


def variants_for(prop, kinds=None, with_params=True):
    """[(description, overlay)] - every single-site rewrite of the requested kinds in the modules the property analyses."""
    kinds = set(kinds or ALL_KINDS)
    out = []
    for m in PROPFILES[prop]:
        rel = 'boltons/%s.py' % m
        src = open(os.path.join(REPO, rel), encoding='utf-8').read()
        tree = ast.parse(src)
        MODFUNCS.clear()
        for st in tree.body:
            if isinstance(st, ast.FunctionDef) and not st.args.vararg and not st.args.posonlyargs:
                MODFUNCS[st.name] = [a.arg for a in st.args.args]
        INIT_ONLY_ATTRS.clear()
        CLASS_METHODS.clear()
        stored_in = {}
        dyn = False
        for f_ in [x for x in ast.walk(tree) if isinstance(x, (ast.FunctionDef, ast.AsyncFunctionDef))]:
            for x in ast.walk(f_):
                if isinstance(x, ast.Attribute) and isinstance(x.ctx, (ast.Store, ast.Del)):
                    stored_in.setdefault(x.attr, set()).add(f_.name)
                elif isinstance(x, ast.Call) and isinstance(x.func, ast.Name) and x.func.id in ('setattr', 'delattr'):
                    dyn = True
        if not dyn:
            INIT_ONLY_ATTRS.update(a for a, fs in stored_in.items() if fs <= {'__init__', '__new__'})
        for c in [x for x in ast.walk(tree) if isinstance(x, ast.ClassDef)]:
            names = {m_.name for m_ in c.body if isinstance(m_, ast.FunctionDef) and
                     not any(isinstance(d, ast.Name) and d.id in ('property', 'staticmethod', 'classmethod', 'cachedproperty') or
                             isinstance(d, ast.Attribute) for d in m_.decorator_list)}
            for m_ in c.body:
                if isinstance(m_, ast.FunctionDef):
                    CLASS_METHODS[m_.lineno] = names
        for fn in function_nodes(tree):
            if 'rename' in kinds:
                for old in locals_of(fn, with_params):
                    try:
                        v = variant(src, fn, old, old + '_rn')
                    except Exception:
                        continue
                    out.append(('%s:%d %s: rename `%s`' % (rel, fn.lineno, fn.name, old), {rel: v}))
            for kind, what, v in shape_variants(src, fn, kinds - {'rename'}):
                out.append(('%s:%d %s: %s %s' % (rel, fn.lineno, fn.name, kind, what), {rel: v}))
    return out


def main(argv):
    with_params = '--params' in argv
    jobs = 16
    if '--jobs' in argv:
        jobs = int(argv[argv.index('--jobs') + 1])
    kinds = set(ALL_KINDS)
    if '--kinds' in argv:
        kinds = set(argv[argv.index('--kinds') + 1].split(','))
    props = [a for a in argv if a.startswith('C') and len(a) == 3] or sorted(PROPFILES)
    todo = []
    for prop in props:
        base = failing(prop, None)
        if base:
            print(prop, 'baseline is not clean:', base[:2])
            continue
        for what, overlay in variants_for(prop, kinds, with_params):
            rel = next(iter(overlay))
            todo.append((prop, rel, '', 0, what, overlay))
    print('%d variants' % len(todo))
    noisy = 0
    with ProcessPoolExecutor(max_workers=jobs) as ex:
        for prop, rel, fname, lineno, what, res in ex.map(job, todo, chunksize=4):
            if res and res[0].startswith('SKIP'):
                continue
            if res:
                noisy += 1
                print('NOISY %s %s  -> %s' % (prop, what, res[0][:170]))
    print('%d noisy of %d' % (noisy, len(todo)))
    return 1 if noisy else 0


if __name__ == '__main__':
    sys.exit(main(sys.argv[1:]))
