from .runner import sub, subs

F = 'boltons/fileutils.py'

FLUSH_BLOCK = """                try:
                    # Ensure data is flushed and synced to disk before closing
                    self.part_file.flush()
                    os.fsync(self.part_file.fileno())
                finally:
                    self.part_file.close()
"""


def cases():
    return [
        {'name': 'write-straight-to-destination', 'kind': 'mutant', 'expect': 'C04.O',
         'edit': sub(F, "        fd = os.open(self.part_path, self.open_flags, file_perms)",
                        "        fd = os.open(self.dest_path, self.open_flags & ~os.O_EXCL, file_perms)")},
        {'name': 'enter-returns-handle-on-destination', 'kind': 'mutant', 'expect': 'C04.O',
         'edit': sub(F, "        self.setup()\n        return self.part_file",
                        "        self.setup()\n        return open(self.dest_path, self.mode)")},
        {'name': 'rename-before-close', 'kind': 'mutant', 'expect': 'C04.O4',
         'edit': subs(F, [(FLUSH_BLOCK, """                # Ensure data is flushed and synced to disk before closing
                self.part_file.flush()
                os.fsync(self.part_file.fileno())
"""), ("            if not exc_type:\n                atomic_rename(self.part_path, self.dest_path,\n                              overwrite=self.overwrite)\n",
       "            if not exc_type:\n                atomic_rename(self.part_path, self.dest_path,\n                              overwrite=self.overwrite)\n            self.part_file.close()\n")])},
        {'name': 'drop-flush', 'kind': 'mutant', 'expect': 'C04.O4',
         'edit': sub(F, "                    self.part_file.flush()\n", "")},
        {'name': 'drop-fsync', 'kind': 'mutant', 'expect': 'C04.O4',
         'edit': sub(F, "                    os.fsync(self.part_file.fileno())\n", "                    pass\n")},
        {'name': 'fsync-before-flush', 'kind': 'mutant', 'expect': 'C04.O4',
         'edit': sub(F, "                    self.part_file.flush()\n                    os.fsync(self.part_file.fileno())\n",
                        "                    os.fsync(self.part_file.fileno())\n                    self.part_file.flush()\n")},
        {'name': 'fsync-of-directory-instead', 'kind': 'mutant', 'expect': 'C04.O4',
         'edit': sub(F, "                    os.fsync(self.part_file.fileno())\n",
                        "                    dirfd = os.open(self.dest_dir, os.O_RDONLY)\n                    os.fsync(dirfd)\n                    os.close(dirfd)\n")},
        {'name': 'o_excl-removed', 'kind': 'mutant', 'expect': 'C04.O1',
         'edit': sub(F, "_TEXT_OPENFLAGS = os.O_RDWR | os.O_CREAT | os.O_EXCL", "_TEXT_OPENFLAGS = os.O_RDWR | os.O_CREAT")},
        {'name': 'o_trunc-instead-of-excl', 'kind': 'mutant', 'expect': 'C04.O1',
         'edit': sub(F, "_TEXT_OPENFLAGS = os.O_RDWR | os.O_CREAT | os.O_EXCL", "_TEXT_OPENFLAGS = os.O_RDWR | os.O_CREAT | os.O_TRUNC")},
        {'name': 'binary-flags-lose-excl', 'kind': 'mutant', 'expect': 'C04.O1',
         'edit': sub(F, "_BIN_OPENFLAGS = _TEXT_OPENFLAGS\n", "_BIN_OPENFLAGS = os.O_RDWR | os.O_CREAT\n")},
        {'name': 'part-file-in-tmp', 'kind': 'mutant', 'expect': 'C04.O2',
         'edit': sub(F, "            self.part_path = dest_path + '.part'",
                        "            self.part_path = os.path.join('/tmp', os.path.basename(dest_path) + '.part')")},
        {'name': 'part-dir-from-cwd', 'kind': 'mutant', 'expect': 'C04.O2',
         'edit': sub(F, "            self.part_path = os.path.join(self.dest_dir, self.part_filename)",
                        "            self.part_path = os.path.join(os.getcwd(), self.part_filename)")},
        {'name': 'publish-even-when-body-raised', 'kind': 'mutant', 'expect': 'C04.O4g',
         'edit': sub(F, "            if not exc_type:\n                atomic_rename(", "            if True:\n                atomic_rename(")},
        {'name': 'publish-guard-inverted-for-keyboardinterrupt', 'kind': 'mutant', 'expect': 'C04.O4g',
         'edit': sub(F, "            if not exc_type:\n                atomic_rename(",
                        "            if not exc_type or not issubclass(exc_type, Exception):\n                atomic_rename(")},
        {'name': 'remove-destination-before-rename', 'kind': 'mutant', 'expect': 'C04.O5',
         'edit': sub(F, "        if overwrite:\n            os.rename(src, dst)\n        else:\n            os.link(src, dst)",
                        "        if overwrite:\n            if os.path.lexists(dst):\n                os.unlink(dst)\n            os.rename(src, dst)\n        else:\n            os.link(src, dst)")},
        {'name': 'copy-instead-of-rename', 'kind': 'mutant', 'expect': 'C04.O5',
         'edit': sub(F, "        if overwrite:\n            os.rename(src, dst)\n        else:\n            os.link(src, dst)",
                        "        if overwrite:\n            shutil.copyfile(src, dst)\n            os.unlink(src)\n        else:\n            os.link(src, dst)")},
        {'name': 'link-without-unlink', 'kind': 'mutant', 'expect': 'C04.O6',
         'edit': sub(F, "            os.link(src, dst)\n            os.unlink(src)\n        return\n\n\n_atomic_rename", "            os.link(src, dst)\n        return\n\n\n_atomic_rename")},
        {'name': 'truncate-destination-in-setup', 'kind': 'mutant', 'expect': 'C04.O5',
         'edit': sub(F, "        self._open_part_file()\n        return\n",
                        "        self._open_part_file()\n        if self.overwrite and os.path.lexists(self.dest_path):\n            os.truncate(self.dest_path, 0)\n        return\n")},
        {'name': 'atomic_save-drops-kwargs', 'kind': 'mutant', 'expect': 'C04.T17',
         'edit': sub(F, "    return AtomicSaver(dest_path, **kwargs)", "    return AtomicSaver(dest_path)")},
        {'name': 'write-after-sync', 'kind': 'mutant', 'expect': 'C04.O4',
         'edit': sub(F, "                    os.fsync(self.part_file.fileno())\n",
                        "                    os.fsync(self.part_file.fileno())\n                    self.part_file.write(self.part_file.newlines or '')\n")},
        # ---- twins --------------------------------------------------------
        {'name': 'twin-fsync-via-local-fd', 'kind': 'twin',
         'edit': sub(F, "                    os.fsync(self.part_file.fileno())\n",
                        "                    fd = self.part_file.fileno()\n                    os.fsync(fd)\n")},
        {'name': 'twin-sync-helper-method', 'kind': 'twin',
         'edit': subs(F, [("                    self.part_file.flush()\n                    os.fsync(self.part_file.fileno())\n",
                           "                    self._sync_part_file()\n"),
                          ("    def __enter__(self):\n        self.setup()",
                           "    def _sync_part_file(self):\n        f = self.part_file\n        f.flush()\n        os.fsync(f.fileno())\n\n    def __enter__(self):\n        self.setup()")])},
        {'name': 'twin-exc-type-is-none', 'kind': 'twin',
         'edit': sub(F, "            if not exc_type:\n                atomic_rename(", "            if exc_type is None:\n                atomic_rename(")},
        {'name': 'twin-part-path-fstring', 'kind': 'twin',
         'edit': sub(F, "            self.part_path = dest_path + '.part'", "            self.part_path = f'{dest_path}.part'")},
        {'name': 'twin-os-replace', 'kind': 'twin',
         'edit': sub(F, "        if overwrite:\n            os.rename(src, dst)\n        else:\n            os.link(src, dst)",
                        "        if overwrite:\n            os.replace(src, dst)\n        else:\n            os.link(src, dst)")},
        {'name': 'twin-flags-literal', 'kind': 'twin',
         'edit': sub(F, "_TEXT_OPENFLAGS = os.O_RDWR | os.O_CREAT | os.O_EXCL", "_TEXT_OPENFLAGS = os.O_EXCL | os.O_CREAT | os.O_RDWR")},
    ]
