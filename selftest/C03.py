import re
from .runner import sub, subs, read, Skip

F = 'boltons/cacheutils.py'


def _drop_each_lock():
    """One mutant per `with self._lock:` inside LRI/LRU: replaced by `if True:`."""
    src = read(F)
    start = src.index('class LRI(dict)')
    end = src.index('### Cached decorator')
    out = []
    for m in re.finditer(r'^( +)with self\._lock:\n', src[start:end], re.M):
        a = start + m.start()
        b = start + m.end()
        line = src.count('\n', 0, a) + 1
        # name of the enclosing def
        defs = list(re.finditer(r'^    def (\w+)\(', src[:a], re.M))
        cls = 'LRU' if src.rfind('class LRU(LRI)', 0, a) != -1 else 'LRI'
        name = '%s.%s' % (cls, defs[-1].group(1))
        new = src[:a] + m.group(1) + 'if True:\n' + src[b:]
        out.append({'name': 'drop-lock:%s@%d' % (name, line), 'kind': 'mutant',
                    'edit': (lambda s=new: {F: s}), 'expect': 'T6'})
    return out


def cases():
    cs = _drop_each_lock()
    cs += [
        {'name': 'hoist-store-out-of-lock', 'kind': 'mutant', 'expect': 'T6a',
         'edit': sub(F, "                link[VALUE] = value\n            super().__setitem__(key, value)\n        return",
                        "                link[VALUE] = value\n        super().__setitem__(key, value)\n        return")},
        {'name': 'split-critical-section', 'kind': 'mutant', 'expect': 'T6b',
         'edit': sub(F, "        with self._lock:\n            super().clear()\n            self._init_ll()",
                        "        with self._lock:\n            super().clear()\n        with self._lock:\n            self._init_ll()")},
        {'name': 'non-reentrant-lock', 'kind': 'mutant', 'expect': 'T6e',
         'edit': sub(F, "    from threading import RLock\n", "    from threading import Lock as RLock\n")},
        {'name': 'new-unlocked-public-method', 'kind': 'mutant', 'expect': 'T6a',
         'edit': sub(F, "    def __ne__(self, other):\n        return not (self == other)\n\n    def __repr__(self):\n        cn = self.__class__.__name__\n        val_map = super().__repr__()",
                        "    def __ne__(self, other):\n        return not (self == other)\n\n    def touch(self, key):\n        self._link_lookup[key][VALUE] = None\n\n    def __repr__(self):\n        cn = self.__class__.__name__\n        val_map = super().__repr__()")},
        {'name': 'copy-without-lock', 'kind': 'mutant', 'expect': 'T6a',
         'edit': sub(F, "        with self._lock:\n            items = self._get_flattened_ll()[1:]\n",
                        "        items = self._get_flattened_ll()[1:]\n")},
        {'name': 'copy-via-update-of-live-dict', 'kind': 'mutant', 'expect': 'T6',
         'edit': sub(F, "        with self._lock:\n            items = self._get_flattened_ll()[1:]\n        return self.__class__(max_size=self.max_size, values=items)",
                        "        return self.__class__(max_size=self.max_size, values=self)")},
        {'name': 'ior-inherited-again', 'kind': 'mutant', 'expect': 'T6.inherited',
         'edit': sub(F, "    def __ior__(self, other):", "    def _unused_ior(self, other):")},
        {'name': 'lock-replaced-in-clear', 'kind': 'mutant', 'expect': 'T6f',
         'edit': sub(F, "            super().clear()\n            self._init_ll()",
                        "            super().clear()\n            self._init_ll()\n            self._lock = RLock()")},
        {'name': 'fresh-lock-per-call', 'kind': 'mutant', 'expect': 'T6a',
         'edit': sub(F, "    def popitem(self):\n        with self._lock:", "    def popitem(self):\n        with RLock():")},
        {'name': 'unlocked-fast-path-in-getitem', 'kind': 'mutant', 'expect': 'T6',
         'edit': sub(F, "    def __getitem__(self, key):\n        with self._lock:\n            try:\n                link = self._link_lookup[key]",
                        "    def __getitem__(self, key):\n        if key in self._link_lookup and not self.on_miss:\n            self.hit_count += 1\n            return self._link_lookup[key][VALUE]\n        with self._lock:\n            try:\n                link = self._link_lookup[key]")},
        {'name': 'get-reads-storage-unlocked-after-op', 'kind': 'mutant', 'expect': 'T6',
         'edit': sub(F, "        except KeyError:\n            self.soft_miss_count += 1\n            return default\n\n    def __delitem__",
                        "        except KeyError:\n            self.soft_miss_count += 1\n            if key in self:\n                return dict.__getitem__(self, key)\n            return default\n\n    def __delitem__")},
        # ---- twins -------------------------------------------------------
        {'name': 'twin-acquire-try-finally', 'kind': 'twin',
         'edit': sub(F, "        with self._lock:\n            super().__delitem__(key)\n            self._remove_from_ll(key)",
                        "        self._lock.acquire()\n        try:\n            super().__delitem__(key)\n            self._remove_from_ll(key)\n        finally:\n            self._lock.release()")},
        {'name': 'twin-helper-extraction', 'kind': 'twin',
         'edit': sub(F, "        with self._lock:\n            super().clear()\n            self._init_ll()",
                        "        with self._lock:\n            self._do_clear()\n\n    def _do_clear(self):\n        dict.clear(self)\n        self._init_ll()")},
        {'name': 'twin-lock-alias', 'kind': 'twin',
         'edit': sub(F, "    def popitem(self):\n        with self._lock:", "    def popitem(self):\n        lock = self._lock\n        with lock:")},
        {'name': 'twin-rename-locals', 'kind': 'twin',
         'edit': subs(F, [("            item = super().popitem()\n            self._remove_from_ll(item[0])\n            return item",
                           "            pair = super().popitem()\n            self._remove_from_ll(pair[0])\n            return pair")])},
    ]
    return cs
