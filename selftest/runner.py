"""Self-test of the checkers: mutants must be reported, twins must stay silent.

Mutants/twins are in-memory overlays of the current working tree's sources
(nothing is written to /repo, nothing is executed)."""
import ast
import importlib
import os
import sys
import time
import traceback
from concurrent.futures import ProcessPoolExecutor

HERE = os.path.dirname(os.path.dirname(os.path.abspath(__file__)))
if HERE not in sys.path:
    sys.path.insert(0, HERE)

from sa.index import Program, AnalysisError, REPO    # noqa: E402
from sa.report import Ctx                             # noqa: E402


class Skip(Exception):
    pass


def read(rel):
    with open(os.path.join(REPO, rel), encoding='utf-8') as f:
        return f.read()


def sub(rel, old, new, count=1):
    """Edit: replace the unique occurrence of `old` in file rel."""
    def edit():
        src = read(rel)
        if src.count(old) != count:
            raise Skip('anchor text occurs %d times in %s (expected %d): %r'
                       % (src.count(old), rel, count, old[:50]))
        return {rel: src.replace(old, new)}
    return edit


def multi(*edits):
    def edit():
        out = {}
        for e in edits:
            for rel, src in e().items():
                if rel in out:
                    # chain edits on the same file
                    raise Skip('multi edits on one file must use subs()')
                out[rel] = src
        return out
    return edit


def subs(rel, pairs):
    def edit():
        src = read(rel)
        for old, new in pairs:
            if src.count(old) != 1:
                raise Skip('anchor text occurs %d times in %s: %r' % (src.count(old), rel, old[:50]))
            src = src.replace(old, new)
        return {rel: src}
    return edit


def apply_unified_diff(diff_text):
    """Apply a git unified diff to the current sources in memory -> overlay {rel: new source}."""
    import re
    overlay = {}
    files = re.split(r'^diff --git ', diff_text, flags=re.M)[1:]
    for f in files:
        m = re.search(r'^\+\+\+ [ab]/(.+)$', f, re.M)
        if not m:
            raise Skip('cannot read file name in diff')
        rel = m.group(1).strip()
        src = overlay.get(rel, read(rel)).split('\n')
        hunks = re.split(r'^@@ .*?@@.*$', f, flags=re.M)[1:]
        heads = re.findall(r'^@@ -(\d+)(?:,\d+)? \+\d+(?:,\d+)? @@', f, re.M)
        shift = 0
        for head, h in zip(heads, hunks):
            lines = h.split('\n')[1:]
            if lines and lines[-1] == '':
                lines = lines[:-1]
            old = [l[1:] for l in lines if l[:1] in (' ', '-')]
            new = [l[1:] for l in lines if l[:1] in (' ', '+')]
            start = int(head) - 1 + shift
            pos = None
            for delta in sorted(range(-60, 61), key=abs):
                i = start + delta
                if 0 <= i and src[i:i + len(old)] == old:
                    pos = i
                    break
            if pos is None:
                raise Skip('hunk at line %s of %s does not apply to the current tree' % (head, rel))
            src[pos:pos + len(old)] = new
            shift += len(new) - len(old)
        overlay[rel] = '\n'.join(src)
    return overlay


def seeded_cases(prop):
    """Confirmed seeded defects (from independent sub-agents) that the checks are known to detect."""
    import glob
    import json
    out = []
    for d in sorted(glob.glob(os.path.join(HERE, 'seeded', prop + '-*'))):
        try:
            meta = json.load(open(os.path.join(d, 'meta.json')))
            diff = open(os.path.join(d, 'patch.diff')).read()
        except OSError:
            continue
        if meta.get('kind') == 'refactoring-unsupported':
            continue                      # a documented limitation (DESIGN 11): filed for the record, not replayed
        if meta.get('kind') == 'refactoring':
            # a confirmed behaviour-preserving refactoring: the check must stay silent
            out.append({'name': 'refactoring:' + os.path.basename(d), 'kind': 'twin',
                        'edit': (lambda t=diff: apply_unified_diff(t))})
            continue
        if not meta.get('detected'):
            continue
        out.append({'name': 'seeded:' + os.path.basename(d), 'kind': 'mutant', 'expect': None,
                    'edit': (lambda t=diff: apply_unified_diff(t))})
    return out


def _failing_keys(prop, overlay):
    # the same decision procedure as ./check: view 1, then the helpers-inlined view if view 1 is not clean (sa/views.py)
    from sa.views import evaluate
    ctx, err, _view = evaluate(prop, overlay=overlay, quiet=True)
    if err is not None:
        raise err
    keys = sorted({o.key for o in ctx.failures()})
    if not keys and ctx.deficits:
        raise AnalysisError('; '.join(ctx.deficits))
    return keys


def _run_case(args):
    prop, name, kind, overlay = args
    # the self-test exercises the rules at the quick tier's bounds (the deeper bounds of the thorough tier apply to the tree itself)
    import sa.paths as _P
    _P.Model.loop_unroll = _P.LOOP_UNROLL
    _P.Model.max_paths = _P.MAX_PATHS
    try:
        return name, kind, 'ok', _failing_keys(prop, overlay)
    except AnalysisError as e:
        return name, kind, 'analysis-error', str(e)
    except Exception:
        return name, kind, 'crash', traceback.format_exc()[-600:]


def cases_for(prop):
    try:
        mod = importlib.import_module('selftest.' + prop)
        own = list(mod.cases())
    except ModuleNotFoundError:
        own = []
    return own + seeded_cases(prop) + auto_twin_cases(prop)


def auto_twin_cases(prop):
    """Automatic twins (selftest/autotwins.py): every single-site behaviour-preserving rewrite of the functions in the
    modules the property analyses.  Skipped when VERIF_AUTOTWINS=0."""
    if os.environ.get('VERIF_AUTOTWINS', '1') == '0':
        return []
    try:
        from selftest import autotwins
        vs = autotwins.variants_for(prop)
    except Exception:
        return []
    return [{'name': 'auto:' + what, 'kind': 'twin', 'edit': (lambda o=overlay: o)} for what, overlay in vs]


def run_selftest(prop, seed=0, verbose=False, jobs=16):
    t0 = time.time()
    cases = cases_for(prop)
    if not cases:
        return True, 'SELFTEST %s: no cases defined' % prop
    base = set(_failing_keys(prop, None))
    todo, skipped = [], []
    for c in cases:
        try:
            overlay = c['edit']()
            for rel, src in overlay.items():
                ast.parse(src)      # a mutant must still compile
        except Skip as e:
            skipped.append((c['name'], str(e)))
            continue
        except SyntaxError as e:
            skipped.append((c['name'], 'edit does not compile: %s' % e))
            continue
        todo.append((c, (prop, c['name'], c['kind'], overlay)))
    results = {}
    unrun = 0
    # hand-written cases, filed seeds and filed refactorings come first in `cases`; the automatic twins last.  A time budget
    # (VERIF_SELFTEST_BUDGET seconds, default 900) bounds the run: what it cuts off is counted, never reported as passed.
    try:
        budget = float(os.environ.get('VERIF_SELFTEST_BUDGET', '900'))
    except ValueError:
        budget = 900.0
    if todo:
        ex = ProcessPoolExecutor(max_workers=min(jobs, len(todo)))
        try:
            futs = [(c, ex.submit(_run_case, t)) for c, t in todo]
            for c, f in futs:
                if time.time() - t0 > budget:
                    if f.done():
                        results[c['name']] = (c, f.result())
                    else:
                        f.cancel()
                        unrun += 1
                    continue
                results[c['name']] = (c, f.result())
        finally:
            ex.shutdown(wait=True, cancel_futures=True)
    bad = []
    n_m = n_t = 0
    for name, (c, (_, kind, status, payload)) in results.items():
        if kind == 'mutant':
            n_m += 1
            if status != 'ok':
                # an analysis error on a mutant is acceptable only if declared
                if c.get('expect') == 'ANALYSIS-ERROR' and status == 'analysis-error':
                    continue
                bad.append('mutant %s: %s %s' % (name, status, payload if isinstance(payload, str) else ''))
                continue
            new = [k for k in payload if k not in base]
            exp = c.get('expect')
            hit = [k for k in new if exp is None or k.startswith(exp)]
            if not hit:
                bad.append('mutant %s NOT reported (expected rule %s; new failures: %s)'
                           % (name, exp, new[:3]))
            elif verbose:
                print('  mutant %-40s -> %s' % (name, hit[0][:110]))
        else:
            n_t += 1
            if status != 'ok':
                bad.append('twin %s: %s %s' % (name, status, payload if isinstance(payload, str) else ''))
                continue
            new = [k for k in payload if k not in base]
            if new:
                bad.append('twin %s raised a false alarm: %s' % (name, new[:3]))
            elif verbose:
                print('  twin   %-40s silent' % name)
    summary = ['SELFTEST %s: %d mutants reported, %d twins silent, %d skipped, %d failed (%.1fs)'
               % (prop, n_m - sum(1 for b in bad if b.startswith('mutant')),
                  n_t - sum(1 for b in bad if b.startswith('twin')), len(skipped), len(bad),
                  time.time() - t0)]
    if unrun:
        summary.append('  not run (time budget of %.0fs reached): %d cases, all of them automatic twins at the end of the list' % (budget, unrun))
    for s in skipped:
        summary.append('  skipped %s: %s' % s)
    for b in bad:
        summary.append('  FAILED ' + b)
    # a skipped case is not a failure of the checker (the tree changed under the
    # anchor text); an unreported mutant / noisy twin is.
    return not bad, '\n'.join(summary)


if __name__ == '__main__':
    from selftest.runner import run_selftest      # one module identity for Skip
    props = sys.argv[1:] or sorted(f[:-3] for f in os.listdir(os.path.join(HERE, 'props'))
                                   if f.startswith('C') and f.endswith('.py'))
    rc = 0
    for p in props:
        ok, s = run_selftest(p, verbose=True)
        print(s)
        rc |= (not ok)
    sys.exit(rc)
