from .runner import sub, subs

F = 'boltons/fileutils.py'
UNLINK = """            if self.rm_part_on_exc:
                try:
                    os.unlink(self.part_path)
                except Exception:
                    pass  # avoid masking original error
"""


def cases():
    return [
        {'name': 'no-cleanup-when-flush-fails (original defect)', 'kind': 'mutant', 'expect': 'C05.R1',
         'edit': sub(F, "        except Exception:\n            # could not write out the part file or save the destination file\n" + UNLINK + "            raise\n",
                        "        except OSError:\n            raise\n")},
        {'name': 'no-cleanup-when-body-raises', 'kind': 'mutant', 'expect': 'C05.R1',
         'edit': sub(F, """        if exc_type:
            if self.rm_part_on_exc:
                try:
                    os.unlink(self.part_path)
                except Exception:
                    pass  # avoid masking original error
        return
""", """        return
""")},
        {'name': 'no-cleanup-after-chmod-fails (original defect)', 'kind': 'mutant', 'expect': 'C05.R1',
         'edit': sub(F, "            if self.rm_part_on_exc:\n                try:\n                    os.unlink(self.part_path)\n                except Exception:\n                    pass  # avoid masking original error\n            raise\n        return\n\n    def setup",
                        "            raise\n        return\n\n    def setup")},
        {'name': 'setup-cleanup-only-on-oserror-from-chmod', 'kind': 'mutant', 'expect': 'C05.R1',
         'edit': subs(F, [("            if do_chmod:\n                os.chmod(self.part_path, file_perms)\n        except Exception:",
                           "        except OSError:\n            os.close(fd)\n            raise\n        try:\n            if do_chmod:\n                os.chmod(self.part_path, file_perms)\n        except Exception:")])},
        {'name': 'swallow-publish-error', 'kind': 'mutant', 'expect': 'C05.R2',
         'edit': sub(F, "                except Exception:\n                    pass  # avoid masking original error\n            raise\n        if exc_type:",
                        "                except Exception:\n                    pass  # avoid masking original error\n        if exc_type:")},
        {'name': 'exit-returns-true', 'kind': 'mutant', 'expect': 'C05.R2',
         'edit': sub(F, "                    pass  # avoid masking original error\n        return\n\n\ndef iter_find_files", "                    pass  # avoid masking original error\n        return True\n\n\ndef iter_find_files")},
        {'name': 'exit-returns-rm-flag', 'kind': 'mutant', 'expect': 'C05.R2',
         'edit': sub(F, "                    pass  # avoid masking original error\n        return\n\n\ndef iter_find_files", "                    pass  # avoid masking original error\n        return self.rm_part_on_exc and exc_type is not None\n\n\ndef iter_find_files")},
        {'name': 'unconditional-part-unlink-in-setup', 'kind': 'mutant', 'expect': 'C05.R4',
         'edit': sub(F, "        if self.overwrite_part and os.path.lexists(self.part_path):", "        if os.path.lexists(self.part_path):")},
        {'name': 'early-refusal-removed', 'kind': 'mutant', 'expect': 'C05.R3',
         'edit': sub(F, "            if not self.overwrite:\n                raise OSError(errno.EEXIST,\n                              'Overwrite disabled and file already exists',\n                              self.dest_path)\n",
                        "            pass\n")},
        {'name': 'early-refusal-after-create', 'kind': 'mutant', 'expect': 'C05.R3',
         'edit': subs(F, [("        if os.path.lexists(self.dest_path):\n            if not self.overwrite:", "        self._open_part_file()\n        if os.path.lexists(self.dest_path):\n            if not self.overwrite:"),
                          ("            os.unlink(self.part_path)\n        self._open_part_file()\n        return", "            os.unlink(self.part_path)\n        return")])},
        {'name': 'rename-in-no-overwrite-branch', 'kind': 'mutant', 'expect': 'C05.R5',
         'edit': sub(F, "            os.link(src, dst)\n            os.unlink(src)\n        return\n\n\n_atomic_rename", "            os.rename(src, dst)\n        return\n\n\n_atomic_rename")},
        {'name': 'exit-always-overwrites', 'kind': 'mutant', 'expect': 'C05.R5',
         'edit': sub(F, "                atomic_rename(self.part_path, self.dest_path,\n                              overwrite=self.overwrite)", "                atomic_rename(self.part_path, self.dest_path,\n                              overwrite=True)")},
        {'name': 'check-exists-then-rename', 'kind': 'mutant', 'expect': 'C05.R5',
         'edit': sub(F, "            os.link(src, dst)\n            os.unlink(src)\n        return\n\n\n_atomic_rename",
                        "            if os.path.lexists(dst):\n                raise OSError(errno.EEXIST, 'exists', dst)\n            os.rename(src, dst)\n        return\n\n\n_atomic_rename")},
        {'name': 'umask-default-chmodded', 'kind': 'mutant', 'expect': 'C05.R6',
         'edit': sub(F, "                file_perms = self._default_file_perms\n                do_chmod = False  # respect the umask", "                file_perms = self._default_file_perms")},
        {'name': 'explicit-perms-ignored-when-dest-exists', 'kind': 'mutant', 'expect': 'C05.R6',
         'edit': sub(F, "        if file_perms is None:\n            try:", "        if file_perms is None or os.path.lexists(self.dest_path):\n            try:")},
        {'name': 'no-chmod-for-copied-perms', 'kind': 'mutant', 'expect': 'C05.R6',
         'edit': sub(F, "                file_perms = stat.S_IMODE(stat_res.st_mode)", "                file_perms = stat.S_IMODE(stat_res.st_mode)\n                do_chmod = False")},
        {'name': 'fd-leak-on-fdopen-failure', 'kind': 'mutant', 'expect': 'C05.R1c',
         'edit': sub(F, "                if part_file is not None:\n                    part_file.close()\n                else:\n                    os.close(fd)",
                        "                if part_file is not None:\n                    part_file.close()")},
        # ---- twins ----------------------------------------------------------
        {'name': 'twin-cleanup-helper', 'kind': 'twin',
         'edit': subs(F, [("        except Exception:\n            # could not write out the part file or save the destination file\n" + UNLINK + "            raise\n",
                           "        except Exception:\n            self._rm_part()\n            raise\n"),
                          ("    def __enter__(self):\n        self.setup()",
                           "    def _rm_part(self):\n        if self.rm_part_on_exc:\n            try:\n                os.unlink(self.part_path)\n            except Exception:\n                pass\n\n    def __enter__(self):\n        self.setup()")])},
        {'name': 'twin-except-baseexception', 'kind': 'twin',
         'edit': sub(F, "        except Exception:\n            # could not write out the part file", "        except BaseException:\n            # could not write out the part file")},
        {'name': 'twin-return-none-explicit', 'kind': 'twin',
         'edit': sub(F, "                    pass  # avoid masking original error\n        return\n\n\ndef iter_find_files", "                    pass  # avoid masking original error\n        return None\n\n\ndef iter_find_files")},
        {'name': 'twin-refusal-single-condition', 'kind': 'twin',
         'edit': sub(F, "        if os.path.lexists(self.dest_path):\n            if not self.overwrite:\n                raise OSError(errno.EEXIST,\n                              'Overwrite disabled and file already exists',\n                              self.dest_path)",
                        "        if not self.overwrite and os.path.lexists(self.dest_path):\n            raise OSError(errno.EEXIST,\n                          'Overwrite disabled and file already exists',\n                          self.dest_path)")},
    ]
