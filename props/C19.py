"""C19 -- line readers (structural clauses)."""
import ast
from sa.index import AnalysisError, FuncInfo
from sa.paths import call_name
from rules.common import txt, module_regex, literal_alternatives, paths_of, loc, tests_on

REQUIRED = ['\r\n', '\n', '\r', '\x0b', '\x0c', '\x85', chr(0x2028), chr(0x2029)]
SPLITLINES = REQUIRED + ['\x1c', '\x1d', '\x1e']

SPEC = {
    'explanation': (
        'T12: strutils._line_ending_re is parsed with re._parser and expanded to its ordered list of literal '
        'alternatives; decided: every line break required by C19 (\\r\\n \\n \\r \\v \\f \\x85 U+2028 U+2029) is an '
        'alternative, every alternative is a str.splitlines boundary (so the pattern never splits anywhere else), no '
        'alternative is shadowed by an earlier proper prefix (\\r\\n before \\r), the compile flags do not change '
        'literal meaning; iter_splitlines scans with that pattern and indent() delegates line splitting to '
        'iter_splitlines; JSONLIterator.next tests emptiness on a whitespace-stripped line (blank lines are skipped in '
        'forward mode too, where lines keep their newline) and json.loads failures are skipped only under '
        'ignore_errors. Not decided: the tail logic of iter_splitlines, reverse_iter_lines block-boundary handling '
        '(value-level; known defects on inputs like "abc\\n" are not reachable by a structural rule).'
        ' T12.one: iter_splitlines holds no partial second table of line-break characters. T14.jsonl: the ignore_errors handler around json.loads is broad.'
        ' T17: every result of indent() is built from iter_splitlines(text).'
        ' T10.tail: iter_splitlines yields the text after the last break. The ignore_errors handler re-raises exactly when ignore_errors is false.'),
    'decided': ['tail yielded', 'ignore_errors polarity', 'indent never bypasses the splitter', 'single line-break table', 'broad ignore_errors handler', 'line-ending alternation == required set, subset of splitlines boundaries, longest first',
                'indent delegates to iter_splitlines', 'JSONLIterator blank-line / error skipping discipline'],
    'declined': ['iter_splitlines tail arithmetic', 'reverse_iter_lines block boundaries', 'JSONLIterator seek alignment'],
    'trusted_base': ['re._parser of this interpreter', 'str.splitlines boundary table (enumerated on CPython 3.12)'],
    'assumptions': [],
    'exhaustive': True,
}
SPEC['explanation'] += ' T9.whole: every pass of the block loop of reverse_iter_lines looks at the whole buffer (new block + carry-over) before going on.'
SPEC['decided'] += ['block loop examines the whole buffer']
SPEC['explanation'] += ' T10.empty: without line breaks only a non-empty text is yielded. T7.defer: reverse_iter_lines emits lines only from a buffer established not to start at a line break. T9.decode: inside the block loop only complete lines are decoded. T9.sync: a descriptor-level size query is preceded by a flush.'
SPEC['decided'] += ['empty text yields nothing', 'deferred emission guard', 'decode only complete lines', 'flush before fstat']
SPEC['explanation'] += ' T19t: JSONLIterator recognises an omitted rel_seek by identity (0.0 is a position).'
SPEC['decided'] += ['rel_seek 0.0 is data']
SPEC['explanation'] += ' T20.nocache: the functions that build a fresh list / dict / generator per call are not memoised.'
SPEC['decided'] += ['results are fresh per call (no memoising decorator)']
MANIFEST = {
    'technique': 'regex-AST extraction of the line-ending alternation compared with a frozen boundary table; delegation and guard-shape checks',
    'text': ('Decides that the set of recognised line breaks is exactly right (the \\x2028 typo class of defect), that '
             'indent shares it, and that JSONLIterator skips blank lines on a stripped line. The behaviour of the '
             'scanners over all texts and block sizes is not decided (partial).'),
    'note': 'Trusted: re._parser, the str.splitlines boundary table.',
}


def run(ctx):
    from rules.common import check_not_memoised as _cnm
    _cnm(ctx, [ctx.program.func(n) for n in ['strutils.iter_splitlines', 'jsonutils.reverse_iter_lines']])
    prog = ctx.program
    pat, flags, node, attr = module_regex(prog, 'strutils', '_line_ending_re')
    mod = prog.module('strutils')
    where = '%s:%d' % (mod.relpath, node.lineno)
    alts = literal_alternatives(pat)
    ctx.extra['alternatives'] = [a.encode('unicode_escape').decode() for a in alts]
    for r in REQUIRED:
        ctx.ob('T12.req', 'strutils._line_ending_re', 'line break %r is recognised' % r, r in alts, loc=where,
               detail='alternatives: %s' % ctx.extra['alternatives'])
    for a in alts:
        ctx.ob('T12.only', 'strutils._line_ending_re', 'alternative %r is a str.splitlines boundary (never splits elsewhere)' % a,
               a in SPLITLINES, loc=where)
    for i, a in enumerate(alts):
        shadow = [b for b in alts[:i] if a.startswith(b) and a != b]
        ctx.ob('T12.order', 'strutils._line_ending_re', 'alternative %r is not shadowed by an earlier proper prefix' % a,
               not shadow, loc=where, detail='shadowed by %r' % shadow if shadow else '')
    ctx.ob('T12.flags', 'strutils._line_ending_re', 'compile flags leave literal alternatives literal',
           not any(f in flags for f in ('VERBOSE', 're.X', 'IGNORECASE', 're.I')), loc=where, detail=flags)
    # iter_splitlines scans with that pattern; indent delegates
    isl = prog.func('strutils.iter_splitlines')
    # in iter_splitlines itself or in a private module-level helper it calls (the scan may be extracted)
    scan_scope = [isl] + [prog.module('strutils').functions[n.func.id] for n in ast.walk(isl.node)
                          if isinstance(n, ast.Call) and isinstance(n.func, ast.Name) and n.func.id.startswith('_')
                          and n.func.id in prog.module('strutils').functions]
    uses = any(isinstance(n, ast.Call) and txt(n.func) in ('_line_ending_re.finditer', '_line_ending_re.split',
                                                            '_line_ending_re.search') for f_ in scan_scope for n in ast.walk(f_.node))
    ctx.ob('T12.use', isl.fq, 'iter_splitlines scans with _line_ending_re', uses, loc=isl.loc)
    # one table of line breaks only: iter_splitlines itself holds no second, hard-coded list of break characters
    breaks = set(''.join(SPLITLINES))
    lits = [n for n in ast.walk(isl.node) if isinstance(n, ast.Constant) and isinstance(n.value, str) and n.value
            and set(n.value) & breaks and not (isl.node.body and isinstance(isl.node.body[0], ast.Expr) and n is isl.node.body[0].value)]
    have = set(''.join(n.value for n in lits)) & breaks
    ctx.ob('T12.one', isl.fq, 'iter_splitlines decides from the pattern\'s matches; if it names line-break characters itself, it names '
           'all of them (a partial second table disagrees with _line_ending_re)', not lits or have == breaks,
           loc=loc(isl, lits[0]) if lits else isl.loc, detail='literal breaks %r lack %r' % (sorted(have), sorted(breaks - have)))
    ind = prog.func('strutils.indent')
    calls = [n for n in ast.walk(ind.node) if isinstance(n, ast.Call) and call_name(n) == 'iter_splitlines']
    other = [n for n in ast.walk(ind.node) if isinstance(n, ast.Call) and isinstance(n.func, ast.Attribute)
             and n.func.attr in ('splitlines', 'split') and txt(n.func.value) == 'text']
    ctx.ob('T17', ind.fq, 'indent() splits lines with iter_splitlines(text) only', bool(calls) and not other and
           all(txt(c.args[0]) == 'text' for c in calls if c.args), loc=ind.loc)
    wi_, ipaths = paths_of(prog, ind)
    rets = [p for p in ipaths if p.kind == 'return']
    through = all(any(o.kind == 'call' and call_name(o.val) == 'iter_splitlines' for o in p.ops) for p in rets)
    ctx.ob('T17', ind.fq, 'every result of indent() is built from iter_splitlines(text) (no input short-cuts the line splitting)',
           bool(rets) and through, loc=ind.loc,
           path=next((p.describe() for p in rets if not any(o.kind == 'call' and call_name(o.val) == 'iter_splitlines' for o in p.ops)), None))
    # JSONLIterator.next
    nx = prog.func('jsonutils.JSONLIterator.next')
    ci = prog.cls('jsonutils.JSONLIterator')
    from rules.common import PrivInl as _PI19
    w, paths = paths_of(prog, nx, recv=ci, model=_PI19(prog))
    n_tests = 0
    for p in paths:
        for t, truth, o in tests_on(w, p):
            # the emptiness test that skips a line
            e = w.expand(o.val)
            core = e
            while isinstance(core, ast.UnaryOp):
                core = core.operand
            if isinstance(core, ast.Call) or isinstance(core, ast.Name):
                src = txt(core)
                if 'next(self._line_iter)' in src:
                    n_tests += 1
                    ok = any(s in src for s in ('.lstrip()', '.strip()'))
                    ctx.ob('T9.blank', nx.fq, 'the blank-line test is made on a whitespace-stripped line (a line that is only '
                           'a newline is skipped, not handed to json.loads)', ok, loc=loc(nx, o.node), detail=src)
    if n_tests == 0:
        ctx.unknown('T9.blank', nx.fq, 'no emptiness test of the line read from the line iterator found', nx.loc)
    # errors skipped only under ignore_errors
    handlers = [n for n in ast.walk(nx.node) if isinstance(n, ast.ExceptHandler)]
    ok = bool(handlers)
    for h in handlers:
        reraises = any(isinstance(x, ast.Raise) for x in ast.walk(h))
        guarded = any(isinstance(x, ast.If) and 'ignore_errors' in txt(x.test) for x in ast.walk(h))
        # corrupt input makes json.loads raise more than ValueError (RecursionError on deep nesting, ...)
        broad = h.type is None or txt(h.type) in ('Exception', 'BaseException')
        ok = ok and reraises and guarded and broad
    # polarity, per handler: the statements that re-raise are reached only with ignore_errors false, and a path that swallows
    # the error (falls out of the handler / continues) only with ignore_errors true
    from rules.common import guard_atoms
    for h in handlers:
        for x in ast.walk(h):
            if isinstance(x, ast.Raise):
                ga = guard_atoms(nx, x, 'self')
                # every way to reach the raise has ignore_errors established false
                pol = bool(ga) and all(any(a == 'X.ignore_errors' and tr is False for a, tr in conj) for conj in ga)
                ok = ok and pol
        swallow = [st for st in ast.walk(h) if isinstance(st, (ast.Continue, ast.Pass)) or
                   (isinstance(st, ast.Return) and st.value is None)]
        for x in swallow:
            ga = guard_atoms(nx, x, 'self')
            inside_if = any(conj for conj in ga)
            if inside_if:
                ok = ok and all(any(a == 'X.ignore_errors' and tr is True for a, tr in conj) for conj in ga if conj)
    ctx.ob('T14.jsonl', nx.fq, 'undecodable lines are skipped only when ignore_errors is set (otherwise re-raised)', ok, loc=nx.loc)
    # iter_splitlines: the text after the last line break is yielded too (an open-ended slice of the text, after the scan loop)
    tails = [n for n in ast.walk(isl.node) if isinstance(n, (ast.Yield,)) and n.value is not None]
    loops_ = [n for n in ast.walk(isl.node) if isinstance(n, ast.For)]
    after = [y for y in tails if loops_ and y.lineno > loops_[0].end_lineno]

    def open_tail(e):
        if isinstance(e, ast.Subscript) and isinstance(e.slice, ast.Slice) and e.slice.upper is None and e.slice.lower is not None:
            return txt(e.value) == isl.params[0]
        if isinstance(e, ast.Name):
            defs = [a.value for a in ast.walk(isl.node) if isinstance(a, ast.Assign) and len(a.targets) == 1 and txt(a.targets[0]) == e.id]
            return len(defs) == 1 and open_tail(defs[0])
        return False
    ctx.ob('T10.tail', isl.fq, 'the text after the last line break is yielded as well (a yield of text[<end of last break>:] after the '
           'scan loop)', any(open_tail(y.value) for y in after), loc=isl.loc,
           detail='yields after the loop: %s' % [txt(y.value) for y in after])
    # T10.empty: a text without any line break yields at most its (non-empty) self: on the paths where the scan loop finds no
    # break at all, every yield is preceded by a truth test of the very value it yields ('' must give no line, as
    # ''.splitlines() == [])
    wi, ipaths = paths_of(prog, isl)
    n_zero = 0
    bad0 = None
    for p in ipaths:
        its = [o for o in p.ops if o.kind == 'iter_next']
        if not its or its[0].info is not False:
            continue
        n_zero += 1
        ts = tests_on(wi, p)
        for y in [o for o in p.ops if o.kind == 'yield']:
            ve = wi.expand(y.val) if y.val is not None else None
            v = txt(ve) if ve is not None else None
            seen = any(t == v and truth and x.seq < y.seq for t, truth, x in ts)
            if not seen and isinstance(ve, ast.Subscript) and isinstance(ve.slice, ast.Slice) and ve.slice.upper is None and \
                    ve.slice.step is None and ve.slice.lower is not None:
                # X[A:] is non-empty exactly when A < len(X) (A >= 0): the length test does as well as the truth test
                A, L = txt(ve.slice.lower), 'len(%s)' % txt(ve.value)
                yes = ('%s < %s' % (A, L), '%s > %s' % (L, A))
                no = ('%s >= %s' % (A, L), '%s <= %s' % (L, A))
                seen = any(x.seq < y.seq and ((t in yes and truth) or (t in no and not truth)) for t, truth, x in ts)
            if not seen and bad0 is None:
                bad0 = (p, y)
    if n_zero == 0:
        ctx.unknown('T10.empty', isl.fq, 'no path on which the scan loop finds no line break', isl.loc)
    else:
        ctx.ob('T10.empty', isl.fq, 'without any line break only a non-empty text is yielded (every yield on those paths follows a truth '
               'test of the yielded value)', bad0 is None, loc=loc(isl, bad0[1].node) if bad0 else isl.loc,
               path=bad0[0].describe() if bad0 else None)
    # T7.defer: reverse_iter_lines emits lines from a buffer only when the buffer does not *start* at a line break (the break may
    # be half of a \r\n cut by the block boundary, or belong to a blank line): every pass that yields lines has established that
    # the first piece of the split buffer is non-empty, or that the first byte is neither \n nor \r
    ril0 = prog.func('jsonutils.reverse_iter_lines')
    wr0, rp0 = paths_of(prog, ril0)
    from sa.consteval import Folder as _Fo, Unknown as _Un
    fo = _Fo(prog.module('jsonutils'))
    n_emit = 0
    bad_e = None
    for p in rp0:
        marks = [o.seq for o in p.ops if o.kind == 'loop_iter'] + [10 ** 9]
        for a, b in zip(marks, marks[1:]):
            seg = [o for o in p.ops if a < o.seq < b]
            ys = [o for o in seg if o.kind == 'yield']
            sp = [o for o in seg if o.kind == 'call' and isinstance(o.val.func, ast.Attribute) and o.val.func.attr in ('splitlines', 'split')]
            if not ys or not sp:
                continue
            tok = [nm for nm, info in wr0.tokens.items() if info[0] == 'call' and len(info) > 2 and info[2] is sp[0]]
            if not tok:
                continue
            # only passes that emit pieces of the split
            sp_txt = txt(wr0.expand(sp[0].val))
            if not any(o.kind == 'iter_start' and o.val is not None and (tok[0] in txt(o.val) or sp_txt in txt(wr0.expand(o.val)))
                       for o in seg):
                continue
            n_emit += 1
            buf = txt(sp[0].val.func.value)
            ok = False
            def _atoms(e, truth):
                # a named condition stands for its value; a true conjunction makes every conjunct true, a false disjunction every
                # disjunct false
                e = wr0.expand(e) if isinstance(e, ast.Name) else e
                while isinstance(e, ast.UnaryOp) and isinstance(e.op, ast.Not):
                    e, truth = e.operand, not truth
                if isinstance(e, ast.BoolOp) and ((isinstance(e.op, ast.And) and truth) or (isinstance(e.op, ast.Or) and not truth)):
                    out = []
                    for v in e.values:
                        out += _atoms(v, truth)
                    return out
                return [(e, truth)]
            atoms_ = []
            for o in seg:
                if o.kind != 'test' or o.seq > ys[-1].seq:
                    continue
                atoms_ += _atoms(o.val, o.info is True)
            for e, truth in atoms_:
                t = txt(e)
                first = '%s[0]' % tok[0]
                if t == first and truth:
                    ok = True
                if isinstance(e, ast.Compare) and len(e.ops) == 1:
                    l, r, opn = txt(e.left), e.comparators[0], type(e.ops[0]).__name__
                    if txt(r) == first and opn in ('Eq', 'NotEq'):          # `b'' == lines[0]`
                        l, r = first, e.left
                    if l == first and opn in ('Eq', 'NotEq'):
                        try:
                            if fo.fold(r) in (b'', ''):
                                ok = ok or (opn == 'Eq' and not truth) or (opn == 'NotEq' and truth)
                        except (_Un, Exception):
                            pass
                    bq = buf.replace(' ', '')
                    if l.replace(' ', '') in ('%s[:1]' % bq, '(%s)[:1]' % bq, '%s[0:1]' % bq, '(%s)[0:1]' % bq) and opn in ('In', 'NotIn'):
                        try:
                            cs = set(fo.fold(r))
                        except (_Un, Exception):
                            cs = set()
                        if ({b'\n', b'\r'} <= cs or {'\n', '\r'} <= cs) and ((opn == 'In' and not truth) or (opn == 'NotIn' and truth)):
                            ok = True
            if not ok and bad_e is None:
                bad_e = (p, ys[0])
    if n_emit == 0:
        ctx.unknown('T7.defer', ril0.fq, 'no pass of the block loop that yields pieces of the split buffer', ril0.loc)
    else:
        ctx.ob('T7.defer', ril0.fq, 'lines are emitted from the buffer only after it was established not to start at a line break '
               '(first piece of the split non-empty, or first byte neither \\n nor \\r)', bad_e is None,
               loc=loc(ril0, bad_e[1].node) if bad_e else ril0.loc, detail='%d emitting passes' % n_emit,
               path=bad_e[0].describe() if bad_e else None)
    # T9.whole: reverse_iter_lines reads the file backwards in blocks and carries the unfinished head of the buffer over.  The
    # carried part may already hold complete lines (deferred when a block boundary fell right in front of a line break), so in
    # every pass of the block loop the decision what to do next looks at the *whole* buffer (the block just read joined with the
    # carry-over): a pass that decides from the new block alone can leave deferred lines glued together.
    ril = prog.func('jsonutils.reverse_iter_lines')
    wr, rpaths = paths_of(prog, ril)
    n_pass = 0
    bad_pass = None
    for p in rpaths:
        marks = [o.seq for o in p.ops if o.kind == 'loop_iter'] + [10 ** 9]
        for a, b in zip(marks, marks[1:]):
            seg = [o for o in p.ops if a < o.seq < b]
            rd = [o for o in seg if o.kind == 'call' and isinstance(o.val.func, ast.Attribute) and o.val.func.attr == 'read']
            if not rd:
                continue
            tok = [nm for nm, info in wr.tokens.items() if info[0] == 'call' and len(info) > 2 and info[2] is rd[0]]
            if not tok:
                continue
            joins = [o for o in seg if o.kind == 'binop' and isinstance(o.val, ast.BinOp) and isinstance(o.val.op, ast.Add) and
                     tok[0] in (txt(o.val.left), txt(o.val.right)) and o.seq > rd[0].seq]
            if not joins:
                continue
            n_pass += 1
            T = txt(joins[0].val)
            # the pass ends at the next loop test (or the end of the path); a use of the joined buffer: a call on it / with it,
            # a subscript of it or a test over it
            used = [o for o in seg if o.seq > joins[0].seq and o.kind in ('call', 'test', 'compare', 'sub_load', 'iter_start') and
                    o.val is not None and T in txt(o.val)]
            if not used and bad_pass is None:
                bad_pass = (p, joins[0])
    from rules.common import check_no_truthiness as _cnt
    jinit = prog.func('jsonutils.JSONLIterator.__init__')
    if 'rel_seek' not in jinit.params:
        raise AnalysisError('anchor vanished: parameter rel_seek of JSONLIterator.__init__')
    _cnt(ctx, jinit, 'rel_seek', why='rel_seek=0.0 means "from the start of the file"')
    # T9.sync: a size taken from the file descriptor (os.fstat / os.stat) does not see data still in the file object's write
    # buffer; where the position / size of the user's file object is derived from it, a flush of that object precedes it on
    # every path (otherwise reverse reading starts before the newest records while forward reading sees them)
    n_stat = 0
    jm = prog.module('jsonutils')
    for fi in jm.all_funcs:
        if not any(isinstance(x, ast.Call) and call_name(x) in ('os.fstat', 'os.stat') for x in ast.walk(fi.node)):
            continue
        ws, spaths = paths_of(prog, fi, recv=prog.cls('jsonutils.JSONLIterator') if fi.cls is not None else None)
        for p in spaths:
            calls = [o for o in p.ops if o.kind == 'call']
            for o in calls:
                if call_name(o.val) in ('os.fstat', 'os.stat'):
                    n_stat += 1
                    flushed = [c for c in calls if c.seq < o.seq and isinstance(c.val.func, ast.Attribute) and c.val.func.attr == 'flush']
                    ctx.ob('T9.sync', fi.fq, 'a descriptor-level size query is preceded by a flush of the file object on every path',
                           bool(flushed), loc=loc(fi, o.node), path=p.describe() if not flushed else None)
    if n_stat == 0:
        ctx.info('T9.sync: no descriptor-level size query in jsonutils (nothing to check)')
    # T9.decode: a block boundary may fall inside a multi-byte character: inside the block loop only complete lines (pieces of
    # the split buffer) are decoded, never the block just read or the buffer it was joined into
    bad_dec = None
    n_dec = 0
    for p in rpaths:
        marks = [o.seq for o in p.ops if o.kind == 'loop_iter'] + [10 ** 9]
        loop_end = max([o.seq for o in p.ops if o.kind == 'loop_iter'] or [0])
        for a, b in zip(marks, marks[1:]):
            seg = [o for o in p.ops if a < o.seq < b]
            rd = [o for o in seg if o.kind == 'call' and isinstance(o.val.func, ast.Attribute) and o.val.func.attr == 'read']
            if not rd:
                continue
            tok = [nm for nm, info in wr.tokens.items() if info[0] == 'call' and len(info) > 2 and info[2] is rd[0]]
            if not tok:
                continue
            # the pass ends at the next loop test: the last pass is followed by the code after the loop (whole file read)
            nxt_test = min([o.seq for o in seg if o.kind == 'test' and o.seq > rd[0].seq and isinstance(o.node, ast.Compare) and
                            any(o.node is x or o.node is getattr(x, 'test', None) for x in ast.walk(ril.node) if isinstance(x, ast.While))]
                           or [b])
            for o in seg:
                if o.kind == 'call' and isinstance(o.val.func, ast.Attribute) and o.val.func.attr == 'decode' and rd[0].seq < o.seq < nxt_test:
                    n_dec += 1
                    if tok[0] in {x.id for x in ast.walk(o.val.func.value) if isinstance(x, ast.Name)} and bad_dec is None:
                        bad_dec = (p, o)
    ctx.ob('T9.decode', ril.fq, 'inside the block loop only complete lines are decoded (never the raw block / the joined buffer: a block '
           'boundary may cut a multi-byte character)', bad_dec is None, loc=loc(ril, bad_dec[1].node) if bad_dec else ril.loc,
           detail='%d decode calls inside passes' % n_dec, path=bad_dec[0].describe() if bad_dec else None, nontrivial=n_dec > 0)
    if n_pass == 0:
        ctx.unknown('T9.whole', ril.fq, 'no block read joined with a carried-over buffer found in the loop', ril.loc)
    else:
        ctx.ob('T9.whole', ril.fq, 'every pass of the block loop looks at the whole buffer (new block + carry-over) before it goes on',
               bad_pass is None, loc=loc(ril, bad_pass[1].node) if bad_pass else ril.loc,
               detail='%d passes examined' % n_pass, path=bad_pass[0].describe() if bad_pass else None)
    for r, n in (('T12.req', 8), ('T12.only', 8), ('T12.order', 8), ('T17', 1), ('T9.blank', 1)):
        ctx.need(r, n)
