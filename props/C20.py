"""C20 -- ThresholdCounter (structural clauses)."""
import ast
from sa.index import AnalysisError, FuncInfo
from sa.paths import call_name
from rules.common import with_helpers, returned_values, cmp_text, Quiet, txt, paths_of, loc, tests_on, strip_not, check_none_default

CLS = 'cacheutils.ThresholdCounter'
SPEC = {
    'explanation': (
        'Static analysis of cacheutils.ThresholdCounter. Decided: T19a in most_common the `n is None` case is not '
        'dominated by a truthiness test of n (all pairs when n is omitted is reachable) and n is defaulted by `is None`; '
        'T19b update() recognises mappings by a probe that is part of the Mapping API (items/keys), never iteritems; '
        'T11 total and the count map are written only by __init__ and add, update reaches them only through self.add; on '
        'every path of add total += 1 happens exactly once and before the compaction test; the compaction filter '
        'depends on both components of an entry (count and bucket at entry: lossy counting drops a key iff '
        'count + entry bucket <= current bucket); on every normal path of update the keyword counts are consulted; '
        'get_uncommon_count is total - get_common_count by construction; items/keys/values/iteritems/elements read the '
        'count component; most_common sorts by the count component alone (keys are never compared), descending. Not '
        'decided: the lossy-counting error bound and the 2/threshold size bound (arithmetic over all streams).'
        ' T9.bucket: the count map is compacted before the bucket number advances.'
        ' T9.addall: every element step of update() calls add(). T17.mc: most_common answers with the sorted pairs, a prefix, or [].'),
    'decided': ['update feeds add', 'most_common answers', 'compaction before bucket advance', 'T19a/T19b dead-test and probe rules', 'T11 who-may-write counters', 'add increments total once before compaction',
                'compaction predicate uses count and entry bucket', 'update always consults kwargs', 'derived views by construction'],
    'declined': ['lossy-counting error bound', 'size bound 2/threshold'],
    'trusted_base': ['collections.abc.Mapping API'],
    'assumptions': ['keys are hashable but not necessarily orderable'],
    'exhaustive': True,
}
SPEC['explanation'] += ' T15.width: the bucket width is derived from the true quotient 1 / threshold (no float floor division).'
SPEC['decided'] += ['bucket width by true division']
SPEC['explanation'] += " T9.countfirst: the addition is counted before the closing bucket is compacted. T14.get: get() answers with the count or the caller's default."
SPEC['decided'] += ['count before compaction']
SPEC['explanation'] += ' T9.srcorder: update() does not merge or re-key its sources through dict()/set() (a key present in the mapping and in the keyword counts is counted for both).'
SPEC['decided'] += ['update sources fed as given']
MANIFEST = {
    'technique': 'dominance / contradiction checks on tests, who-may-write analysis, must-pass-through on all CFG paths, dependence check on the compaction predicate',
    'text': ('Decides structural necessary conditions of C20 on all paths (omitted n, mapping arguments, keyword counts, '
             'every addition counted once, compaction predicate shape, views derived from the same counts). The '
             'quantitative lossy-counting bounds are not decided (partial).'),
    'note': 'Trusted: Mapping API table.',
}
MAPPING_API = {'keys', 'items', 'values', 'get', '__getitem__', '__iter__', '__len__', '__contains__'}


def run(ctx):
    from rules.common import require_fields
    require_fields(ctx.program, 'cacheutils.ThresholdCounter', ['_count_map', 'total', '_cur_bucket', '_thresh_count', '_threshold'])
    prog = ctx.program
    ci = prog.cls(CLS)
    from rules.common import check_sources_in_order as _cso
    _cso(ctx, prog.func(CLS + '.update'))
    # T15.width: the bucket width is floor(1 / threshold) computed on the *true* quotient.  The threshold is a float: float floor
    # division is taken on its exact binary value (1 // 0.1 == 9.0, 1 // 0.001 == 999.0), one less than the width the bound
    # floor(total / width) is stated for.
    init = prog.func(CLS + '.__init__')
    thr = 'threshold' if 'threshold' in init.params else None
    if thr is None:
        raise AnalysisError('anchor vanished: parameter threshold of ThresholdCounter.__init__')
    wi_, ipaths_ = paths_of(prog, init, recv=ci)
    n_w = 0
    seen_w = set()
    for p in ipaths_:
        for o in p.ops:
            if o.kind == 'attr_store' and txt(o.val) == 'self._thresh_count' and o.info is not None:
                e = wi_.expand(o.info)
                key = txt(e)
                if key in seen_w:
                    continue
                seen_w.add(key)
                n_w += 1
                fd = [b for b in ast.walk(e) if isinstance(b, ast.BinOp) and isinstance(b.op, ast.FloorDiv) and
                      any(isinstance(x, ast.Name) and x.id == thr or (isinstance(x, ast.Attribute) and x.attr == '_threshold')
                          for x in ast.walk(b))]
                ctx.ob('T15.width', init.fq, 'the bucket width is derived from the true quotient 1 / threshold (no float floor division)',
                       not fd, loc=loc(init, o.node), detail='width = %s' % key)
    if n_w == 0:
        ctx.unknown('T15.width', init.fq, 'no store to self._thresh_count found in __init__', init.loc)
    from rules.common import check_default_returned
    check_default_returned(ctx, prog, prog.func(CLS + '.get'), recv=ci)
    mc = prog.func(CLS + '.most_common')
    # T19a: `n is None` must be reachable: no earlier return under a truthiness test of n
    check_none_default(ctx, mc, 'n', rule='T19a')
    w, paths = paths_of(prog, mc, recv=ci)
    reach = False
    for p in paths:
        ts = tests_on(w, p)
        none_true = [o for t, truth, o in ts if t == 'n is None' and truth]
        none_false_then_cmp = True
        if none_true:
            reach = True
    # a path on which n is None holds must exist and must return everything
    ok_all = False
    for p in paths:
        ts = tests_on(w, p)
        falsy_n = [o for t, truth, o in ts if t == 'n' and not truth]
        if any(t == 'n is None' and truth for t, truth, o in ts) and not falsy_n and p.kind == 'return':
            rv = txt(w.expand(p.outcome[1]))
            if '[:' not in rv and rv != '[]':
                ok_all = True
    ctx.ob('T19a', mc.fq, 'a path on which `n is None` holds returns the full sorted list (not cut, not empty)', ok_all,
           loc=mc.loc)
    # sort: by count only, descending
    mc_scope = with_helpers(prog, mc, ci)
    sorts = [n for f_ in mc_scope for n in ast.walk(f_.node) if isinstance(n, ast.Call) and call_name(n) in ('sorted',) or
             (isinstance(n, ast.Call) and isinstance(n.func, ast.Attribute) and n.func.attr == 'sort')]
    ok = bool(sorts)
    det = ''
    for s in sorts:
        kw = {k.arg: k.value for k in s.keywords}
        key, rev = kw.get('key'), kw.get('reverse')
        good_key = False
        if isinstance(key, ast.Lambda):
            a = key.args.args[0].arg
            b = key.body
            if isinstance(b, ast.UnaryOp) and isinstance(b.op, ast.USub):
                b = b.operand
                rev = ast.Constant(value=not (rev is not None and getattr(rev, 'value', False)))
            good_key = isinstance(b, ast.Subscript) and txt(b.value) == a and txt(b.slice) == '1'
        else:
            k2 = key
            if isinstance(k2, ast.Name):
                k2 = prog.module('cacheutils').const_expr(k2.id) or k2
            if k2 is not None and txt(k2) in ('itemgetter(1)', 'operator.itemgetter(1)'):
                good_key = True
            elif isinstance(k2, ast.Lambda) and isinstance(k2.body, ast.Subscript) and txt(k2.body.value) == k2.args.args[0].arg \
                    and txt(k2.body.slice) == '1':
                good_key = True
        det = 'key=%s reverse=%s' % (txt(key), txt(rev))
        ok = ok and good_key and rev is not None and getattr(rev, 'value', None) is True
    ctx.ob('T22.sort', mc.fq, 'most_common sorts by the count component alone (keys are never compared), descending', ok,
           loc=mc.loc, detail=det)
    # T19b: mapping probe
    up = prog.func(CLS + '.update')
    probes = []
    for f_ in with_helpers(prog, up, ci):
        # the source parameter, under the name it has in f_ (first non-self parameter of a helper it is handed to)
        srcname = 'iterable' if f_ is up else (f_.params[1] if len(f_.params) > 1 else None)
        for n in ast.walk(f_.node):
            if isinstance(n, ast.Call) and call_name(n) in ('getattr', 'hasattr') and len(n.args) >= 2 and \
                    isinstance(n.args[1], ast.Constant) and txt(n.args[0]) == srcname:
                probes.append(n)
            if isinstance(n, ast.Call) and call_name(n) == 'isinstance' and n.args and txt(n.args[0]) == srcname:
                probes.append(n)
    for pr in probes:
        if call_name(pr) == 'isinstance':
            ok = True
            what = txt(pr)
        else:
            what = pr.args[1].value
            ok = what in MAPPING_API
        ctx.ob('T19b', up.fq, 'mappings are recognised by a probe every Mapping answers (`%s`)' % what, ok, loc=loc(up, pr))
    if not probes:
        ctx.unknown('T19b', up.fq, 'no mapping probe (getattr/hasattr/isinstance on the argument) found', up.loc)
    # the mapping branch iterates (key, count) pairs and adds count times
    w, paths = paths_of(prog, up, recv=ci)
    for p in paths:
        if p.kind != 'return':
            continue
        ts = tests_on(w, p)
        consulted = any(t == 'kwargs' for t, truth, o in ts) or any(
            o.kind in ('iter_start', 'call') and 'kwargs' in txt(o.val) for o in p.ops)
        ctx.ob('T9.kwargs', up.fq, 'every normal path of update() consults the keyword counts', consulted, loc=up.loc,
               path=p.describe() if not consulted else None)
    # T11 writers
    writers = {}
    for name, m in ci.members.items():
        if not isinstance(m, FuncInfo):
            continue
        for n in ast.walk(m.node):
            if isinstance(n, ast.Attribute) and isinstance(n.ctx, (ast.Store, ast.Del)) and n.attr in ('total', '_count_map', '_cur_bucket', '_thresh_count'):
                writers.setdefault(n.attr, set()).add(name)
            if isinstance(n, ast.Subscript) and isinstance(n.ctx, (ast.Store, ast.Del)) and '_count_map' in txt(n.value):
                writers.setdefault('_count_map[...]', set()).add(name)
            if isinstance(n, ast.Call) and isinstance(n.func, ast.Attribute) and n.func.attr in (
                    'update', 'pop', 'clear', 'setdefault', 'popitem') and txt(n.func.value) == 'self._count_map':
                writers.setdefault('_count_map[...]', set()).add(name)
    callers = {}
    for nm, mem in ci.members.items():
        if isinstance(mem, FuncInfo):
            for n in ast.walk(mem.node):
                if isinstance(n, ast.Call) and isinstance(n.func, ast.Attribute) and txt(n.func.value) == 'self':
                    callers.setdefault(n.func.attr, set()).add(nm)

    def owned(name, seen=()):
        # __init__, add, or a private helper reachable only from them
        if name in ('__init__', 'add'):
            return True
        if not name.startswith('_') or name.startswith('__') or name in seen:
            return False
        cs = callers.get(name, set())
        # (a private helper nobody in the class calls is unreachable through the class's own code)
        return all(owned(c, seen + (name,)) for c in cs)
    for f, ws in sorted(writers.items()):
        ctx.ob('T11', CLS + '.' + f, 'written only by __init__, add and private helpers reachable only from them (every addition goes '
               'through add)', all(owned(x) for x in ws), loc=ci.module.relpath + ':%d' % ci.node.lineno, detail='writers: %s' % sorted(ws))
    # add: total += 1 exactly once, before the compaction test
    add = prog.func(CLS + '.add')
    w, paths = paths_of(prog, add, recv=ci)
    for p in paths:
        incs = [o for o in p.ops if o.kind == 'aug' and txt(o.node.target) == 'self.total']
        comp = [o for o in p.ops if o.kind == 'test' and 'self.total' in txt(o.val) and '%' in txt(o.val)]
        ok = len(incs) == 1 and txt(incs[0].node.value) == '1' and isinstance(incs[0].node.op, ast.Add) and \
            bool(comp) and incs[0].seq < comp[0].seq
        ctx.ob('T9.total', add.fq, 'total is incremented exactly once per add, before the compaction test', ok, loc=add.loc,
               path=p.describe() if not ok else None)
        cnt = [o for o in p.ops if (o.kind == 'aug' and '_count_map' in txt(o.node.target)) or
               (o.kind == 'sub_store' and '_count_map' in txt(o.val.value) and o.kind == 'sub_store')]
        ctx.ob('T9.count', add.fq, 'the key\'s count is incremented or initialised on every path', bool(cnt), loc=add.loc)
    # the current bucket is advanced only after the compaction that closes it
    class Inl(Quiet):
        def inline(self, walker, op, callee, st):
            rv = op.recv_val
            return isinstance(rv, ast.Name) and rv.id == 'self' and callee.name.startswith('_') and not callee.name.startswith('__')
    w3, paths3 = paths_of(prog, add, recv=ci, model=Inl(prog))
    n_adv = 0
    for p in paths3:
        adv = [o for o in p.ops if o.kind == 'attr_store' and txt(o.val) == 'self._cur_bucket']
        flt = [o for o in p.ops if o.kind == 'attr_store' and txt(o.val) == 'self._count_map']
        if adv:
            n_adv += 1
            ok = bool(flt) and flt[0].seq < adv[0].seq
            ctx.ob('T9.bucket', add.fq, 'the count map is compacted against the bucket being closed, and only then the bucket number advances',
                   ok, loc=loc(add, adv[0].node), path=p.describe() if not ok else None)
    if n_adv == 0:
        ctx.unknown('T9.bucket', add.fq, 'no advance of _cur_bucket found on any path of add', add.loc)
    # T9.countfirst: the addition being made is counted before the bucket it closes is compacted (a key that survives only
    # thanks to this very addition must not be evicted first and re-enter with a fresh entry bucket)
    for p in paths3:
        flt = [o for o in p.ops if o.kind == 'attr_store' and txt(o.val) == 'self._count_map']
        cnt = [o for o in p.ops if (o.kind == 'aug' and '_count_map' in txt(o.node.target)) or
               (o.kind == 'sub_store' and '_count_map' in txt(o.val.value))]
        if flt and cnt:
            ok = min(o.seq for o in cnt) < flt[0].seq
            ctx.ob('T9.countfirst', add.fq, 'the key is counted before the closing bucket is compacted', ok, loc=loc(add, flt[0].node),
                   path=p.describe() if not ok else None)
    # compaction predicate depends on both components (searched in add and the private helpers only add reaches)
    scope = [add] + [m for nm, m in ci.members.items() if isinstance(m, FuncInfo) and nm.startswith('_') and not nm.startswith('__')
                     and owned(nm) and nm not in ('__init__',)]
    preds = []
    # a helper may receive the map and the bucket number as arguments: bind its parameters from the call sites in scope
    passed = {}
    for caller in scope:
        al_b = {'self._cur_bucket'} | {a_.targets[0].id for a_ in ast.walk(caller.node) if isinstance(a_, ast.Assign) and
                                       txt(a_.value) == 'self._cur_bucket' and isinstance(a_.targets[0], ast.Name)}
        al_m = {'self._count_map'} | {a_.targets[0].id for a_ in ast.walk(caller.node) if isinstance(a_, ast.Assign) and
                                      txt(a_.value) == 'self._count_map' and isinstance(a_.targets[0], ast.Name)}
        for c in ast.walk(caller.node):
            if isinstance(c, ast.Call) and ((isinstance(c.func, ast.Attribute) and txt(c.func.value) in ('self', 'cls', ci.name)) or
                                            isinstance(c.func, ast.Name)):
                nm = c.func.attr if isinstance(c.func, ast.Attribute) else c.func.id
                callee = ci.members.get(nm)
                if not isinstance(callee, FuncInfo):
                    continue
                ps = [a_.arg for a_ in callee.node.args.args]
                if ps and ps[0] in ('self', 'cls') and not any(txt(d) == 'staticmethod' for d in callee.node.decorator_list):
                    ps = ps[1:]
                for prm, arg in zip(ps, c.args):
                    if txt(arg) in al_b:
                        passed.setdefault(nm, (set(), set()))[0].add(prm)
                    if txt(arg) in al_m or txt(arg) in {m_ + '.items()' for m_ in al_m}:
                        passed.setdefault(nm, (set(), set()))[1].add(prm)
    for fn in scope:
        bucket_names = {'self._cur_bucket'} | passed.get(fn.name, (set(), set()))[0]
        map_params = passed.get(fn.name, (set(), set()))[1]
        for n in ast.walk(fn.node):
            if isinstance(n, ast.Assign) and txt(n.value) == 'self._cur_bucket' and isinstance(n.targets[0], ast.Name):
                bucket_names.add(n.targets[0].id)
        for n in ast.walk(fn.node):
            conds = []
            if isinstance(n, (ast.DictComp, ast.ListComp, ast.GeneratorExp, ast.SetComp)):
                for g in n.generators:
                    tgt = g.target
                    var = txt(tgt.elts[1]) if isinstance(tgt, ast.Tuple) and len(tgt.elts) == 2 else txt(tgt)
                    conds += [(c, var, fn) for c in g.ifs]
            elif isinstance(n, ast.For) and ('_count_map' in txt(n.iter) or
                                             any(isinstance(x, ast.Name) and x.id in map_params for x in ast.walk(n.iter))):
                tgt = n.target
                var = txt(tgt.elts[1]) if isinstance(tgt, ast.Tuple) and len(tgt.elts) == 2 else txt(tgt)
                for c in ast.walk(n):
                    if isinstance(c, ast.If):
                        conds.append((c.test, var, fn))
            for cond, var, f2 in conds:
                if isinstance(cond, ast.Compare) and len(cond.ops) == 1 and \
                        ({txt(cond.left), txt(cond.comparators[0])} & bucket_names):
                    preds.append((cond, var, f2))
    if not preds:
        ctx.unknown('T7.compact', add.fq, 'no filter predicate comparing with the current bucket found', add.loc)
    for cond, vname, f2 in preds:
        t = txt(cond)
        both = ('sum(%s)' % vname) in t or (('%s[0]' % vname) in t and ('%s[1]' % vname) in t)
        if not both:
            # the two components unpacked into locals: `count, entry_bucket = record`
            cn = {x.id for x in ast.walk(cond) if isinstance(x, ast.Name)}
            for a_ in ast.walk(f2.node):
                if isinstance(a_, ast.Assign) and len(a_.targets) == 1 and isinstance(a_.targets[0], ast.Tuple) and \
                        len(a_.targets[0].elts) == 2 and all(isinstance(x, ast.Name) for x in a_.targets[0].elts) and \
                        txt(a_.value) == vname and {x.id for x in a_.targets[0].elts} <= cn:
                    both = True
            for a_ in ast.walk(f2.node):
                if isinstance(a_, (ast.For, ast.comprehension)) and isinstance(a_.target, ast.Tuple) and len(a_.target.elts) == 2 and \
                        isinstance(a_.target.elts[1], ast.Tuple) and len(a_.target.elts[1].elts) == 2 and \
                        {txt(x) for x in a_.target.elts[1].elts} <= cn:
                    both = True
        ctx.ob('T7.compact', add.fq, 'a key survives compaction iff count + bucket-at-entry > current bucket (both entry '
               'components enter the predicate)', both, loc=loc(f2, cond), detail=t)
    # identities by construction
    guc = prog.func(CLS + '.get_uncommon_count')
    wg, gpaths = paths_of(prog, guc, recv=ci)
    rets = [p for p in gpaths if p.kind == 'return']
    ok = bool(rets)
    det = ''
    for p in rets:
        e = wg.expand(p.outcome[1]) if p.outcome[1] is not None else None
        good = isinstance(e, ast.BinOp) and isinstance(e.op, ast.Sub) and txt(e.left) == 'self.total' and \
            txt(e.right) == 'self.get_common_count()'
        if not good:
            ok = False
            det = 'returns %s' % txt(e)
    ctx.ob('T17', guc.fq, 'uncommon = total - common by construction (value returned on every path)', ok, loc=guc.loc, detail=det)
    # update: every element of every source reaches add(); keyword counts (when present) are fed back through update
    n_add = 0
    w, paths = paths_of(prog, up, recv=ci, model=Inl(prog))       # element loops may live in private helpers
    for p in paths:
        if p.kind != 'return':
            continue
        iters = [o for o in p.ops if o.kind == 'iter_next' and o.info is not False]
        bounds = [o.seq for o in iters] + [10 ** 9]
        # innermost element steps: an iteration step that is not followed by a nested iteration start before the next step
        for a, b in zip(bounds, bounds[1:]):
            seg = [o for o in p.ops if a < o.seq < b]
            nested = any(o.kind == 'iter_start' for o in seg)
            if nested:
                continue
            nxt_break = next((o.seq for o in p.ops if o.seq > a and o.kind == 'iter_next' and o.info is False), 10 ** 9)
            seg = [o for o in seg if o.seq < nxt_break]
            added = any(o.kind == 'call' and txt(o.val.func) in ('self.add', 'add') for o in seg)
            n_add += 1
            ctx.ob('T9.addall', up.fq, 'every element step of update() calls add() (so total and the counts move together)', added,
                   loc=up.loc, path=p.describe() if not added else None)
        kw_true = any(t == 'kwargs' and truth for t, truth, o in tests_on(w, p))
        if kw_true:
            fed = any(o.kind == 'call' and txt(o.val.func) in ('self.update',) and o.val.args and txt(o.val.args[0]) == 'kwargs' for o in p.ops) or \
                any(o.kind == 'iter_start' and 'kwargs' in txt(w.expand(o.val)) for o in p.ops)
            ctx.ob('T9.kwargs', up.fq, 'keyword counts, when given, are fed back through update()/add()', fed, loc=up.loc,
                   path=p.describe() if not fed else None)
    if n_add == 0:
        ctx.unknown('T9.addall', up.fq, 'no element step found in update()', up.loc)
    # most_common: every answer is the count-sorted list, a prefix of it, or the empty list for n <= 0
    mc = prog.func(CLS + '.most_common')
    for e, p, wm in returned_values(prog, mc, recv=ci, model=Inl(prog)):
        t = txt(e)
        ts = tests_on(wm, p)
        nonpos = any(cmp_text(o.node, 'n') == 'n <= 0' and o.info is True for _, _, o in ts) or \
            any(cmp_text(o.node, 'n') == 'n > 0' and o.info is False for _, _, o in ts)
        srt = isinstance(e, ast.Call) and call_name(e) == 'sorted'
        pre = isinstance(e, ast.Subscript) and isinstance(e.value, ast.Call) and call_name(e.value) == 'sorted' and \
            isinstance(e.slice, ast.Slice) and e.slice.lower is None and e.slice.step is None and txt(e.slice.upper) == 'n'
        emp = t == '[]' and nonpos
        ctx.ob('T17.mc', mc.fq, 'most_common answers with the count-sorted pairs, their first n, or [] for n <= 0', srt or pre or emp,
               loc=mc.loc, detail='returns %s' % t[:80], path=p.describe() if not (srt or pre or emp) else None)
    for name in ('itervalues', 'iteritems', '__getitem__'):
        f = prog.func(CLS + '.' + name)
        # decided on values: what the view yields / returns (the last component of a pair) is slot 0 of an entry, however
        # the entry was reached (map[k][0], `for count, _ in map.values()`, `for k, (count, _) in map.items()`)
        from rules.common import PrivInl as _PInl
        wv, vpaths = paths_of(prog, f, recv=ci, model=_PInl(prog))
        outs = []
        for pv in vpaths:
            for o in pv.ops:
                if o.kind == 'yield' and o.val is not None:
                    outs.append(wv.expand(o.val))
            if pv.kind == 'return' and pv.outcome[1] is not None and name == '__getitem__':
                outs.append(wv.expand(pv.outcome[1]))
        comps = []
        for e in outs:
            if isinstance(e, ast.Tuple) and e.elts:
                e = e.elts[-1]
            comps.append(txt(e))
        subs = sorted(set(comps))
        ok = bool(subs) and all(c.endswith('[0]') for c in subs)
        if not ok:
            # generator expression form: fall back to the syntactic witness
            ok = not outs and any(isinstance(n, ast.Subscript) and txt(n).endswith('[0]') for n in ast.walk(f.node))
        ctx.ob('T17.views', f.fq, 'view reads the count component of the entry', ok, loc=f.loc, detail=str(subs)[:120])
    for name, via in (('items', 'iteritems'), ('values', 'itervalues'), ('keys', 'iterkeys'), ('elements', 'iteritems'),
                      ('most_common', 'iteritems'), ('get', '__getitem__')):
        f = prog.func(CLS + '.' + name)
        t = ' '.join(ast.unparse(f2.node) for f2 in with_helpers(prog, f, ci))
        ok = ('self.%s(' % via) in t or (via == '__getitem__' and 'self[key]' in t)
        ctx.ob('T17.views', f.fq, 'derived from %s (same counts)' % via, ok, loc=f.loc)
    for r, n in (('T19a', 2), ('T19b', 1), ('T11', 2), ('T9.total', 2), ('T7.compact', 1), ('T17', 1), ('T17.views', 8),
                 ('T9.kwargs', 2), ('T22.sort', 1)):
        ctx.need(r, n)
