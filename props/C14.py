"""C14 -- strutils encoders (structural clauses)."""
import ast
import re
import re._parser as sre_parse
import re._constants as sre_c
from sa.index import AnalysisError
from sa.paths import call_name
from sa.consteval import Folder, Unknown
from rules.common import cmp_text, is_regex_method_name, txt, module_regex, paths_of, loc, tests_on, check_none_default, Quiet

SHLEX_SAFE = set('abcdefghijklmnopqrstuvwxyzABCDEFGHIJKLMNOPQRSTUVWXYZ0123456789_@%+=:,./-')

SPEC = {
    'explanation': (
        'Static analysis of the strutils encoders. args2sh: the regex behind _find_sh_unsafe is parsed (re._parser): it is '
        'a search for one character outside a class, the class (characters emitted unquoted) is a subset of the POSIX-sh '
        'literal-safe set of shlex, no `$`/`^` anchors (a positive `^[..]+$` test would admit a trailing newline); an '
        'argument is emitted raw only on paths where that search returned None; the empty argument has its own branch '
        "emitting ''; every other argument is wrapped in single quotes with each \"'\" replaced by a splice that closes, "
        "quotes and reopens ('\"'\"' or '\\''). escape_shell_args dispatches 'sh' -> args2sh, 'cmd' -> args2cmd, else "
        'ValueError. args2cmd: on every path that closes a quoted argument with pending backslashes the backslashes are '
        'emitted twice (doubled) before the closing quote, and before an embedded quote 2*n backslashes plus an escaped '
        'quote are emitted. gzip: the writer uses GzipFile (gzip container) with the caller\'s level and closes it before '
        'reading the buffer; the reader\'s folded wbits (16 + MAX_WBITS) selects the gzip container. Integer lists: '
        'complement_int_list recognises an omitted range_end by `is None` (0 is a valid bound). Not decided: the args2cmd '
        'state machine as a whole, int-list round trips and canonical form, zlib behaviour.'
        ' T18.buf: args2cmd resets the pending-backslash buffer for every argument.'
        " T7.needquote: the quoting decision of args2cmd folded over 17 probe arguments equals 'empty or contains blank/tab'. T17.compl: complement_int_list returns format_int_list(...) on every path."
        ' T30: args2cmd interpreted abstractly over character classes with a symbolic count of pending backslashes; every path equals the MS C runtime quoting table.'),
    'decided': ['args2cmd transducer table', 'quoting decision truth table', 'complement computed on every path', 'per-argument buffer reset', 'sh-safe class subset of shlex set, no anchors', 'raw emission only when nothing unsafe', 'empty argument branch',
                'single-quote splice', 'style dispatch', 'cmd backslash doubling before quotes', 'gzip container agreement',
                'range_end is None test'],
    'declined': ['int list round trip / canonical form'],
    'trusted_base': ['shlex safe set of POSIX sh', 'zlib wbits container table', 're._parser'],
    'assumptions': [], 'exhaustive': True,
}
SPEC['explanation'] += ' T7.gap: inside the loop of format_int_list a run is written out only on paths whose integer tests on `x - <end of run>` exclude 0 and 1 (a duplicate never closes a run).'
SPEC['decided'] += ['run closed only on a gap']
SPEC['explanation'] += ' T30 also understands `<char> in arg` tests and an argument emitted as a whole: sound only for an argument without a double quote that is emitted unquoted.'
SPEC['decided'] += ['whole-argument fast path of args2cmd']
SPEC['explanation'] += ' T20.nocache: parse_int_list and the quoting functions are not memoised (a cached list is shared between callers).'
SPEC['decided'] += ['results are fresh per call (no memoising decorator)']
MANIFEST = {
    'technique': 'regex-AST class extraction vs frozen POSIX table; guarded-emission and ordering checks on CFG paths; constant folding of wbits',
    'text': ('Decides, exhaustively over the character class, that args2sh never emits an unsafe character unquoted (including '
             'the trailing-newline trap of `$`), that quoting uses a correct single-quote splice, that cmd quoting doubles '
             'backslashes before quotes, and that gzip writer and reader agree on the container. The full args2cmd '
             'automaton and the integer-list round trips are not decided (partial).'),
    'note': 'Trusted: shlex safe set, zlib wbits table, re._parser.',
}


def run_closing(ctx, prog):
    """T7.gap: format_int_list walks the sorted values; inside the loop a finished run (or single value) is written to the
    output only when the current value leaves a gap.  On every path, the integer tests the iteration took on the difference
    `x - <last of run>` must exclude 0 (a repeated value) and 1 (a contiguous value): otherwise a duplicate closes the run and
    reopens it at the same value ('5-6,6-7'), which is neither canonical nor duplicate-free when parsed back."""
    import operator as _op
    fil = prog.func('strutils.format_int_list')
    w, paths = paths_of(prog, fil)
    OPS = {ast.Gt: _op.gt, ast.GtE: _op.ge, ast.Lt: _op.lt, ast.LtE: _op.le, ast.Eq: _op.eq, ast.NotEq: _op.ne}
    outs = {n.targets[0].id for n in ast.walk(fil.node) if isinstance(n, ast.Assign) and len(n.targets) == 1 and
            isinstance(n.targets[0], ast.Name) and isinstance(n.value, ast.List) and not n.value.elts}
    n_close = 0
    seen = {}
    for p in paths:
        bounds = [o for o in p.ops if o.kind == 'iter_next']
        for i, it in enumerate(bounds):
            if it.info is False:
                continue
            end = bounds[i + 1].seq if i + 1 < len(bounds) else 10 ** 9
            closes = [o for o in p.ops if it.seq < o.seq < end and o.kind == 'call' and isinstance(o.val.func, ast.Attribute) and
                      o.val.func.attr == 'append' and isinstance(o.val.func.value, ast.Name) and
                      (o.val.func.value.id in outs or (o.val.func.value.id.startswith('$l') and
                                                       (w.tokens.get(o.val.func.value.id) or ('', ''))[:2] == ('fresh', 'list')))]
            if not closes:
                continue
            n_close += 1
            cons = []
            for o in p.ops:
                if not (it.seq < o.seq < closes[0].seq) or o.kind != 'test':
                    continue
                e = w.expand(o.val) if o.val is not None else None
                neg = False
                while isinstance(e, ast.UnaryOp) and isinstance(e.op, ast.Not):
                    e, neg = e.operand, not neg
                if not (isinstance(e, ast.Compare) and len(e.ops) == 1 and type(e.ops[0]) in OPS):
                    continue
                l, r, f = e.left, e.comparators[0], OPS[type(e.ops[0])]
                if isinstance(l, ast.Constant) and isinstance(r, ast.BinOp):          # 1 < delta
                    l, r, f = r, l, (lambda g: (lambda a, b: g(b, a)))(f)
                if isinstance(l, ast.BinOp) and isinstance(l.op, ast.Sub) and isinstance(r, ast.Constant) and \
                        isinstance(r.value, int) and not isinstance(r.value, bool):
                    truth = o.info if isinstance(o.info, bool) else None
                    if truth is None:
                        continue
                    cons.append((f, r.value, truth != neg))
            admits = [d for d in (0, 1) if all(f(d, c) == t for f, c, t in cons)]
            key = closes[0].line
            ok = not admits
            if seen.get(key, True):
                seen[key] = ok
                ctx.ob('T7.gap', fil.fq, 'inside the loop a run is closed only when the current value leaves a gap (the tests taken on '
                       '`x - <end of run>` exclude 0 and 1)', ok, loc=loc(fil, closes[0].node),
                       detail='differences admitted: %s' % admits if admits else '', path=p.describe() if not ok else None)
    if n_close == 0:
        ctx.unknown('T7.gap', fil.fq, 'no write to the output list inside the loop found', fil.loc)


def run(ctx):
    prog = ctx.program
    mod = prog.module('strutils')
    from rules.common import check_not_memoised
    check_not_memoised(ctx, [prog.func('strutils.' + n) for n in ('parse_int_list', 'args2cmd', 'args2sh', 'format_int_list')])
    f = prog.func('strutils.args2sh')
    folder0 = Folder(mod)

    def cval(e):
        """constant value of an expression (literal or folded module constant), else None"""
        if isinstance(e, ast.Constant):
            return e.value
        try:
            return folder0.fold(e)
        except Unknown:
            return None

    def regex_pred_calls(fn):
        out = []
        for n in ast.walk(fn.node):
            if isinstance(n, ast.Call) and isinstance(n.func, ast.Name) and n.func.id in mod.assigns:
                if is_regex_method_name(prog, 'strutils', n.func.id):
                    out.append(n.func.id)
            # NAME.match(arg) / .fullmatch / .search on a module-level compiled pattern
            if isinstance(n, ast.Call) and isinstance(n.func, ast.Attribute) and n.func.attr in ('match', 'fullmatch', 'search') and \
                    isinstance(n.func.value, ast.Name) and n.func.value.id in mod.assigns:
                try:
                    _p, _f, _n, _a = module_regex(prog, 'strutils', n.func.value.id)
                except AnalysisError:
                    continue
                if _a is None:
                    out.append('%s.%s' % (n.func.value.id, n.func.attr))
        return out
    # the emitter: args2sh itself, or the module-level helper it maps over its arguments
    emitter, via_helper = f, False
    cands = regex_pred_calls(f)
    if not cands:
        for n in ast.walk(f.node):
            if isinstance(n, ast.Call) and isinstance(n.func, ast.Name) and n.func.id in mod.functions and len(n.args) == 1:
                h = mod.functions[n.func.id]
                if regex_pred_calls(h):
                    emitter, via_helper = h, True
                    cands = regex_pred_calls(h)
    if len(set(cands)) != 1:
        raise AnalysisError('anchor vanished: args2sh does not reach exactly one compiled-regex predicate (%s)' % sorted(set(cands)))
    PRED = cands[0]
    if '.' in PRED:
        pat, flags, node, attr = module_regex(prog, 'strutils', PRED.split('.')[0])
        attr = PRED.split('.')[1]
    else:
        pat, flags, node, attr = module_regex(prog, 'strutils', PRED)
    where = '%s:%d' % (mod.relpath, node.lineno)
    p = sre_parse.parse(pat)
    items = list(p)
    negative = attr == 'search' and len(items) == 1 and items[0][0] is sre_c.IN and items[0][1][0][0] is sre_c.NEGATE
    safe = set()

    def add_class(av):
        for o, a in av:
            if o is sre_c.LITERAL:
                safe.add(chr(a))
            elif o is sre_c.RANGE:
                safe.update(chr(c) for c in range(a[0], a[1] + 1))
            elif o is sre_c.NEGATE:
                pass
            else:
                raise AnalysisError('class item %s in the sh-safe pattern not modelled' % o)
    positive = False
    if negative:
        add_class(items[0][1][1:])
        form_ok = True
        det = 'search for a character outside the class'
    else:
        core = [(op, av) for op, av in items if op is not sre_c.AT]
        ats = [av for op, av in items if op is sre_c.AT]
        positive = len(core) == 1 and core[0][0] in (sre_c.MAX_REPEAT,) and len(core[0][1][2]) == 1 and \
            core[0][1][2][0][0] is sre_c.IN and core[0][1][2][0][1][0][0] is not sre_c.NEGATE
        if positive:
            add_class(core[0][1][2][0][1])
        end_ok = attr == 'fullmatch' or (sre_c.AT_END_STRING in ats)
        start_ok = attr in ('match', 'fullmatch') or sre_c.AT_BEGINNING_STRING in ats or sre_c.AT_BEGINNING in ats
        form_ok = positive and end_ok and start_ok and sre_c.AT_END not in ats and core[0][1][0] >= 1
        det = 'whole-string match; anchors %s via .%s' % ([str(a) for a in ats], attr)
    ctx.ob('T12.form', 'strutils.' + PRED, 'the safety predicate holds exactly for non-empty strings made only of class '
           'characters (a search for a character outside the class, or a \\A..\\Z / fullmatch of class+; `$` would also '
           'accept a trailing newline)', form_ok, loc=where, detail='pattern %r: %s' % (pat, det))
    for ch in sorted(safe):
        ctx.ob('T12.shsafe', 'strutils.' + PRED, 'character %r left unquoted is literal-safe for a POSIX shell' % ch,
               ch in SHLEX_SAFE, loc=where)
    ctx.ob('T12.flags', 'strutils.' + PRED, 'no flag widens the class (IGNORECASE/UNICODE categories)',
           'IGNORECASE' not in flags and 're.I' not in flags, loc=where)
    # emission paths of the emitter
    w, paths = paths_of(prog, emitter)
    n_raw = n_q = n_e = 0
    for pth in paths:
        ems = []       # (value, op, subject text, tests in scope)
        if via_helper:
            if pth.kind == 'return':
                subj = emitter.params[0]
                ems.append((pth.outcome[1], pth.ops[-1], subj, tests_on(w, pth)))
        else:
            for o in pth.ops:
                if o.kind == 'call' and isinstance(o.val.func, ast.Attribute) and o.val.func.attr == 'append' and o.val.args:
                    last_iter = max([x.seq for x in pth.ops if x.kind == 'iter_next' and x.seq < o.seq] or [-1])
                    ts = [t for t in tests_on(w, pth, upto_seq=o.seq) if t[2].seq > last_iter]
                    elem = [x for x in pth.ops if x.kind == 'name_store' and x.seq > last_iter and x.seq < o.seq and
                            isinstance(x.val, ast.Name) and x.val.id.startswith('$e')]
                    subj = elem[0].val.id if elem else None
                    ems.append((o.val.args[0], o, subj, ts))
        for a, o, subj, ts in ems:
            if subj is None:
                continue
            at = txt(a)
            e = w.expand(a)
            cv = cval(e)
            callt = '%s(%s)' % (PRED, subj)
            if at == subj:
                n_raw += 1
                found_nothing = any((t == callt + ' is None' and truth) or (t == callt and not truth) or
                                    (t == callt + ' is not None' and not truth) for t, truth, _ in ts)
                matched = any((t == callt + ' is not None' and truth) or (t == callt and truth) or
                              (t == callt + ' is None' and not truth) for t, truth, _ in ts)
                ok = found_nothing if negative else matched
                nonempty = any(t == subj and truth for t, truth, _ in ts) or (positive and ok)
                ctx.ob('T13.sh', emitter.fq, 'an argument is emitted unquoted only when the unsafe-character search found nothing '
                       '(and it is not empty)', ok and nonempty, loc=loc(emitter, o.node), path=pth.describe() if not (ok and nonempty) else None)
            elif cv == "''":
                n_e += 1
                ok = any(t == subj and not truth for t, truth, _ in ts)
                ctx.ob('T13.sh', emitter.fq, "the empty argument is emitted as ''", ok, loc=loc(emitter, o.node))
            else:
                n_q += 1
                ok = False
                det2 = txt(e)
                if isinstance(e, ast.BinOp) and isinstance(e.op, ast.Add) and cval(e.right) == "'" \
                        and isinstance(e.left, ast.BinOp) and cval(e.left.left) == "'":
                    mid = e.left.right
                    if isinstance(mid, ast.Call) and isinstance(mid.func, ast.Attribute) and mid.func.attr == 'replace' and len(mid.args) == 2:
                        ok = cval(mid.args[0]) == "'" and cval(mid.args[1]) in ("'\"'\"'", "'\\''") and txt(mid.func.value) == subj
                        det2 = 'replace(%r, %r)' % (cval(mid.args[0]), cval(mid.args[1]))
                ctx.ob('T13.sh', emitter.fq, "other arguments are wrapped in single quotes with every ' spliced as close-quote, "
                       "quoted ', reopen-quote", ok, loc=loc(emitter, o.node), detail=det2)
    ctx.ob('T13.sh', emitter.fq, 'all three emission forms exist (raw, empty, quoted; with a class+ whole-string test the empty argument takes the quoted form)',
           n_raw > 0 and n_q > 0 and (n_e > 0 or positive), loc=emitter.loc)
    # dispatch
    e = prog.func('strutils.escape_shell_args')
    we, epaths = paths_of(prog, e)
    want = {'sh': 'args2sh', 'cmd': 'args2cmd'}
    pairs = {}
    bad_paths = []
    other_raises = other_returns = 0
    for pth in epaths:
        sel = None
        for o in pth.ops:
            # source-level test on the (possibly platform-defaulted) style variable
            if o.kind == 'test' and o.info is True:
                m = re.fullmatch(r"style == '(\w+)'", cmp_text(o.node, 'style'))
                if m:
                    sel = m.group(1)
        if pth.kind == 'return':
            rv = we.expand(pth.outcome[1]) if pth.outcome[1] is not None else None
            callee = call_name(rv) if isinstance(rv, ast.Call) else None
            if sel is None:
                other_returns += 1
                bad_paths.append('returns %s with no style selected' % txt(rv))
            else:
                pairs.setdefault(sel, set()).add(callee)
        elif pth.kind == 'raise' and sel is None:
            other_raises += 1
            if 'ValueError' not in str(pth.outcome[1]):
                bad_paths.append('unselected style raises %s' % (pth.outcome[1],))
    ok = all(pairs.get(k) == {v} for k, v in want.items()) and set(pairs) == set(want) and other_raises > 0 and not bad_paths
    ctx.ob('T17.dispatch', e.fq, "style 'sh' -> args2sh, 'cmd' -> args2cmd, anything else -> ValueError (on every path)",
           ok, loc=e.loc, detail='%s %s' % ({k: sorted(map(str, v)) for k, v in pairs.items()}, bad_paths[:2]))
    # args2cmd: the quoting state machine lives in args2cmd itself or in a private per-argument helper it calls; the roles
    # (character variable, backslash buffer, output list, quoting flag) are discovered there
    c = prog.func('strutils.args2cmd')

    def machine_roles(fn):
        BUF = OUT = CH = None
        for n in ast.walk(fn.node):
            if isinstance(n, ast.If) and isinstance(n.test, ast.Compare) and len(n.test.ops) == 1 and isinstance(n.test.ops[0], ast.Eq):
                a, b = n.test.left, n.test.comparators[0]
                if isinstance(b, ast.Name) and cval(a) == '\\':
                    a, b = b, a
                if not (isinstance(a, ast.Name) and cval(b) == '\\'):
                    continue
                for st in n.body:
                    for x in ast.walk(st):
                        if isinstance(x, ast.Call) and isinstance(x.func, ast.Attribute) and x.func.attr == 'append' and x.args \
                                and txt(x.args[0]) == a.id and isinstance(x.func.value, ast.Name):
                            BUF, CH = x.func.value.id, a.id
        # the output list: what the emissions of the character loop append to
        if CH:
            for n in ast.walk(fn.node):
                if isinstance(n, ast.Call) and isinstance(n.func, ast.Attribute) and n.func.attr == 'append' and n.args and \
                        txt(n.args[0]) == CH and isinstance(n.func.value, ast.Name) and n.func.value.id != BUF:
                    OUT = n.func.value.id
        return BUF, OUT, CH
    Q = c
    BUF, OUT, CH = machine_roles(c)
    helper_call = None
    if not (BUF and OUT and CH):
        for n in ast.walk(c.node):
            if isinstance(n, ast.Call) and isinstance(n.func, ast.Name) and n.func.id.startswith('_') and n.func.id in mod.functions \
                    and len(n.args) == 1:
                h = mod.functions[n.func.id]
                r = machine_roles(h)
                if all(r):
                    Q, (BUF, OUT, CH), helper_call = h, r, n
    if not (BUF and OUT and CH):
        raise AnalysisError('anchor vanished: args2cmd backslash buffer / output list / char loop (%s, %s, %s)' % (BUF, OUT, CH))

    # quoting decision: the truth table of the `needquote` expression over probe arguments equals "empty, or contains a
    # blank or a tab" (the MS C runtime splits exactly at unquoted blanks and tabs; leading/trailing ones included)
    nq = [n for n in ast.walk(Q.node) if isinstance(n, ast.Assign) and len(n.targets) == 1 and isinstance(n.targets[0], ast.Name)
          and any(isinstance(i, ast.If) and txt(i.test) == n.targets[0].id for i in ast.walk(Q.node))
          and isinstance(n.value, (ast.BoolOp, ast.Compare, ast.UnaryOp, ast.Call)) and n.lineno > Q.node.lineno]
    char_loops = [n for n in ast.walk(Q.node) if isinstance(n, ast.For) and txt(n.target) == CH]
    ARGV = txt(char_loops[0].iter) if char_loops and isinstance(char_loops[0].iter, ast.Name) else None
    if not nq or not ARGV:
        ctx.unknown('T7.needquote', Q.fq, 'no quoting decision (`flag = <expr>` tested by `if flag:`) found', Q.loc)
    for n in nq:
        PROBES = ['', 'a', ' ', '\t', ' a', 'a ', 'a b', 'a\tb', '\ta', 'a\t', '  ', 'ab', '"', 'a"b', '\\', 'a\nb', '\n']
        wrong = []
        for s_ in PROBES:
            try:
                got = bool(folder0.fold(n.value, env={ARGV: s_}))
            except Unknown as ex:
                raise AnalysisError('cannot fold the quoting decision `%s`: %s' % (txt(n.value), ex))
            want = (s_ == '') or (' ' in s_) or ('\t' in s_)
            if got != want:
                wrong.append((s_, got))
        ctx.ob('T7.needquote', Q.fq, 'an argument is quoted exactly when it is empty or contains a blank or a tab (decided on the '
               'expression `%s` over %d probe strings)' % (txt(n.value), len(PROBES)), not wrong, loc=loc(Q, n),
               detail='disagrees on %r' % wrong[:4] if wrong else '')

    # T30: the quoting loop as a transducer over character classes (rules/cmdquote.py); it also decides the per-argument reset
    # of the buffer and the doubling of pending backslashes before quotes
    from rules import cmdquote
    if nq:
        cmdquote.check(ctx, Q, BUF, OUT, CH, nq[0].targets[0].id, outer=c if Q is not c else None, helper_call=helper_call)
    else:
        ctx.unknown('T30', Q.fq, 'quoting flag not found', Q.loc)
    # gzip
    gz = prog.func('strutils.gzip_bytes')
    gu = prog.func('strutils.gunzip_bytes')
    src = ast.unparse(gz.node)
    ctor = [n for n in ast.walk(gz.node) if isinstance(n, ast.Call) and call_name(n).endswith('GzipFile')]
    ok = bool(ctor)
    for n in ctor:
        kw = {k.arg: txt(k.value) for k in n.keywords}
        ok = ok and kw.get('compresslevel') == 'level' and kw.get('mode') in ("'wb'", "'w'")
    w, paths = paths_of(prog, gz)
    order_ok = True
    for pth in paths:
        names = []
        for x in pth.ops:
            if x.kind == 'call' and isinstance(x.val.func, ast.Attribute) and x.val.func.attr in ('write', 'close', 'getvalue'):
                names.append(x.val.func.attr)
            elif x.kind == 'with_exit' and 'GzipFile' in txt(w.expand(x.val)):
                names.append('close')          # leaving `with GzipFile(...)` closes it
        order_ok = order_ok and names == ['write', 'close', 'getvalue']
    ctx.ob('T12.gzip', gz.fq, 'writer: GzipFile (gzip container) with the caller\'s level, all bytes written, closed before the '
           'buffer is read', ok and order_ok, loc=gz.loc)
    dec = [n for n in ast.walk(gu.node) if isinstance(n, ast.Call) and call_name(n) == 'zlib.decompress']
    ok = False
    det = ''
    if dec and len(dec[0].args) >= 2:
        try:
            wb = Folder(mod).fold(dec[0].args[1])
            ok = 24 <= wb <= 31 or 40 <= wb <= 47
            det = 'wbits folds to %r' % (wb,)
        except Unknown as ex:
            raise AnalysisError('cannot fold wbits: %s' % ex)
        ok = ok and txt(dec[0].args[0]) == gu.params[0]
    ctx.ob('T12.gzip', gu.fq, 'reader: zlib.decompress with window bits selecting the gzip (or auto) container', ok, loc=gu.loc, detail=det)
    check_none_default(ctx, prog.func('strutils.complement_int_list'), 'range_end')
    cil = prog.func('strutils.complement_int_list')
    wc, cpaths = paths_of(prog, cil)
    n_r = 0
    for pth in cpaths:
        if pth.kind != 'return':
            continue
        n_r += 1
        rv = wc.expand(pth.outcome[1]) if pth.outcome[1] is not None else None
        ok = isinstance(rv, ast.Call) and call_name(rv) == 'format_int_list'
        ctx.ob('T17.compl', cil.fq, 'every result is format_int_list(<computed complement>): no input short-cuts the window arithmetic',
               ok, loc=cil.loc, detail='returns %s' % txt(rv)[:80], path=pth.describe() if not ok else None)
    if n_r == 0:
        ctx.unknown('T17.compl', cil.fq, 'no return path', cil.loc)
    run_closing(ctx, prog)
    for r, n in (('T12.form', 1), ('T12.shsafe', 60), ('T13.sh', 4), ('T17.dispatch', 1), ('T12.gzip', 2), ('T19c', 1)):
        ctx.need(r, n)
