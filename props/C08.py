"""C08 -- remap (structural clauses)."""
import ast
from sa.index import AnalysisError, FuncInfo
from sa.paths import call_name
from rules.common import txt, paths_of, loc, tests_on, Quiet, returned_values

M = 'iterutils'
SPEC = {
    'explanation': (
        'Static analysis of iterutils.remap and its default callbacks. Decided: T8 the input is never mutated: in '
        'default_enter, default_exit, remap, research and get_path no mutating call, item/attribute store or deletion has as its '
        'receiver a value in an input role (root, value, old_parent, and loop items derived from them); all mutation targets are '
        'new_parent or containers created inside the function. T20 type preservation / no sharing: every traversing return of '
        'default_enter hands out a *fresh instance of the value\'s own class* as the new parent (value.__class__() / '
        'type(value)()), never the value itself or a literal of a fixed type, and pairs it with an item iterator over the value; '
        'default_exit returns the new parent or a rebuild of the new parent\'s class from the new items, never the old parent. '
        'T2 registry discipline in remap: on entering a container the blank new parent is registered under id(old container) '
        'only when it is traversed, and after the exit callback the *final* rebuilt value is registered under id(old parent) '
        '(immutable containers are new objects; later references must resolve to them); a registered id short-circuits to the '
        'registered value (shared objects rebuilt once; cycles terminate). research records (path + (key,), value) and delegates '
        'traversal to remap. Not decided: traversal order, path bookkeeping, visit semantics, equality with the recursive '
        'rebuild for all shapes.'
        " T9.visit: every item appended to the new parent went through visit (or visit is the identity default). T20.order: default_enter's item iterator is not re-ordered."
        ' T9.seg: the first lookup of a get_path step uses the segment exactly as given.'
        ' T20.rebuild: an immutable parent is rebuilt as new_parent.__class__(values). T14.default for get_path.'),
    'decided': ['immutable parent rebuilt', 'segment looked up as given', 'visit on every appended item', 'item order not re-sorted', 'T8 input not mutated', 'T20 fresh same-class parents, exit never returns the old parent', 'T2 registry updated on enter and after exit'],
    'declined': ['traversal order and path bookkeeping', 'visit semantics', 'output == recursive rebuild for every shape'],
    'trusted_base': [], 'assumptions': ['user callbacks follow the documented protocol'], 'exhaustive': True,
}
SPEC['explanation'] += ' T3.items: the items iterator returned by enter() is traversed at most once per pass (it may be one-shot). T9.wholepath: get_path walks the path as given (re-bound only to its split form, loop over the whole path).'
SPEC['decided'] += ['enter() items traversed once', 'whole path walked']
SPEC['explanation'] += ' T26: get_path takes no presence decision on a None-defaulted .get().'
SPEC['decided'] += ['no None-presence decision in get_path']
SPEC['explanation'] += ' T20.nocache: the functions that build a fresh list / dict / generator per call are not memoised.'
SPEC['decided'] += ['results are fresh per call (no memoising decorator)']
MANIFEST = {
    'technique': 'role-typed effect analysis (who is mutated), freshness of returned parents, must-pass-through registry updates on CFG paths',
    'text': ('Decides three necessary structural clauses of C08: remap and its defaults never write to the input, rebuilt containers '
             'are fresh instances of the original class, and the id registry that makes shared/cyclic references work is updated '
             'at both protocol points. The shape-dependent traversal semantics are not decided (partial).'),
    'note': 'Role typing of parameters (input vs output) is a frozen table in the check.',
}
MUT = {'update', 'extend', 'append', 'add', 'pop', 'remove', 'clear', 'insert', 'setdefault', 'sort', 'reverse', 'discard', 'popitem',
       '__setitem__', '__delitem__', 'appendleft', 'difference_update', 'intersection_update'}
INPUT_ROLES = {'default_enter': {'value'}, 'default_exit': {'old_parent'}, 'remap': {'root', 'value', 'old_parent'},
               'research': {'root'}, 'get_path': {'root', 'cur'}, 'default_visit': {'value'}}


def is_id_key(w, v):
    e = w.expand(v)
    return isinstance(e, ast.Call) and call_name(e) == 'id' and len(e.args) == 1


def root_name(e):
    while isinstance(e, (ast.Attribute, ast.Subscript, ast.Call)):
        e = e.func if isinstance(e, ast.Call) else e.value
    return e.id if isinstance(e, ast.Name) else None


def segment_lookup(ctx, prog):
    """get_path: in every step the *first* lookup uses the path segment exactly as given (a key '0' of a mapping is a
    string; conversion to an index is only the fallback after the lookup failed)."""
    gp = prog.func(M + '.get_path')

    from rules.common import PrivInl

    class SubRaises(PrivInl):
        def sub_raises(self, walker, op, st):
            return ('KeyError', 'IndexError', 'TypeError') if op.kind == 'sub_load' else ()
    w, paths = paths_of(prog, gp, model=SubRaises(prog))
    n = 0
    for p in paths:
        elems = [o for o in p.ops if o.kind == 'iter_next' and o.info is not False]
        for i, it in enumerate(elems):
            end = elems[i + 1].seq if i + 1 < len(elems) else 10 ** 9
            subs = [o for o in p.ops if it.seq < o.seq < end and o.kind == 'sub_load']
            if not subs:
                continue
            # the element token of this iteration: the first name_store after the iter_next
            st = [o for o in p.ops if it.seq < o.seq < end and o.kind == 'name_store' and isinstance(o.val, ast.Name)
                  and o.val.id.startswith('$e')]
            if not st:
                continue
            n += 1
            first = subs[0]
            ok = txt(first.val.slice) == st[0].val.id
            ctx.ob('T9.seg', gp.fq, 'the first lookup of a step subscripts with the path segment as given (conversion to int only after it '
                   'failed)', ok, loc=loc(gp, first.node), detail='first lookup uses %s' % txt(w.expand(first.val.slice)),
                   path=p.describe() if not ok else None)
    if n == 0:
        ctx.unknown('T9.seg', gp.fq, 'no per-segment lookup found', gp.loc)
    # T9.wholepath: every segment of the given path is looked up: the path parameter is re-bound at most to its own split form
    # (a dotted string), never to a slice / filtered copy of itself (a dropped segment -- e.g. a leading None, which is a legal
    # dict key -- resolves a different object)
    pth = gp.params[1] if len(gp.params) > 1 else 'path'
    for nd in ast.walk(gp.node):
        if isinstance(nd, ast.Assign) and any(isinstance(t, ast.Name) and t.id == pth for t in nd.targets):
            v = nd.value
            ok = isinstance(v, ast.Call) and isinstance(v.func, ast.Attribute) and v.func.attr in ('split', 'rsplit') and \
                txt(v.func.value) == pth
            ok = ok or (isinstance(v, ast.Call) and call_name(v) in ('tuple', 'list') and len(v.args) == 1 and txt(v.args[0]) == pth)
            ctx.ob('T9.wholepath', gp.fq, 'the path is walked as given: `%s` is re-bound only to its own split / tuple form' % pth, ok,
                   loc=loc(gp, nd), detail='%s = %s' % (pth, txt(v)[:60]))
    loops = [nd for nd in ast.walk(gp.node) if isinstance(nd, ast.For)]
    for lp in loops:
        it = lp.iter
        if pth not in {x.id for x in ast.walk(it) if isinstance(x, ast.Name)}:
            continue              # some other loop
        ok = not any(isinstance(x, (ast.Subscript, ast.Slice)) for x in ast.walk(it)) and \
            not any(isinstance(x, ast.Call) and call_name(x) in ('filter', 'islice', 'itertools.islice') for x in ast.walk(it))
        ctx.ob('T9.wholepath', gp.fq, 'the segment loop iterates the whole path', ok, loc=loc(gp, lp), detail='for ... in %s' % txt(it)[:60])


def immutable_rebuild(ctx, prog):
    """default_exit: when the new parent cannot be filled in place (tuple, frozenset: AttributeError on extend/update) the
    result is a new container of the same class built from the collected values -- on every path through such a handler the
    returned value is <new_parent's class>(<values>)."""
    de = prog.func(M + '.default_exit')
    from rules.common import TryRaises
    w, paths = paths_of(prog, de, model=TryRaises(prog, de, helpers=True))
    n = 0
    newp = de.params[3] if len(de.params) > 3 else 'new_parent'
    for p in paths:
        if p.kind != 'return' or not any(o.kind == 'except' and o.info == 'AttributeError' for o in p.ops):
            continue
        n += 1
        e = w.expand(p.outcome[1], literals=True) if p.outcome[1] is not None else None
        ok = isinstance(e, ast.Call) and txt(e.func) in ('%s.__class__' % newp, 'type(%s)' % newp) and len(e.args) == 1
        ctx.ob('T20.rebuild', de.fq, 'an immutable parent (extend/update raises AttributeError) is rebuilt as a new container of the same '
               'class from the collected values', ok, loc=de.loc, detail='returns %s' % txt(e)[:80], path=p.describe() if not ok else None)
    if n == 0:
        ctx.unknown('T20.rebuild', de.fq, 'no AttributeError fallback path found', de.loc)


def run(ctx):
    from rules.common import check_not_memoised as _cnm
    _cnm(ctx, [ctx.program.func(n) for n in ['iterutils.remap', 'iterutils.research', 'iterutils.default_enter', 'iterutils.default_exit']])
    immutable_rebuild(ctx, ctx.program)
    from rules.common import check_sentinel_default as _csd
    _csd(ctx, ctx.program, ctx.program.func('iterutils.get_path'))
    from rules.common import check_get_none_presence as _cgn
    _cgn(ctx, ctx.program.func('iterutils.get_path'))          # None is a legal value of a path step
    prog = ctx.program
    segment_lookup(ctx, prog)
    for fname, roles in INPUT_ROLES.items():
        f = prog.func('%s.%s' % (M, fname))
        bad = []
        for n in ast.walk(f.node):
            if isinstance(n, ast.Call) and isinstance(n.func, ast.Attribute) and n.func.attr in MUT and root_name(n.func.value) in roles:
                bad.append((n, '%s(...) on input `%s`' % (txt(n.func), root_name(n.func.value))))
            if isinstance(n, (ast.Subscript, ast.Attribute)) and isinstance(getattr(n, 'ctx', None), (ast.Store, ast.Del)) and \
                    root_name(n.value) in roles and not (fname == 'get_path'):
                bad.append((n, 'store into input `%s`' % txt(n)))
            if isinstance(n, ast.AugAssign) and root_name(n.target) in roles and not isinstance(n.target, ast.Name):
                bad.append((n, 'augmented store into input'))
        for n, why in bad:
            ctx.ob('T8.input', f.fq, 'the input structure is never mutated: ' + why, False, loc=loc(f, n))
        if not bad:
            ctx.ob('T8.input', f.fq, 'no mutating call or store targets a value in an input role (%s)' % ', '.join(sorted(roles)), True, loc=f.loc)
    # default_enter
    de = prog.func(M + '.default_enter')
    n_trav = 0
    for n in ast.walk(de.node):
        if isinstance(n, ast.Return) and isinstance(n.value, ast.Tuple) and len(n.value.elts) == 2:
            parent, items = n.value.elts
            if isinstance(items, ast.Constant) and items.value is False:
                ctx.ob('T20.enter', de.fq, 'a non-traversed value is handed back as it is', txt(parent) == 'value', loc=loc(de, n))
                continue
            n_trav += 1
            fresh = txt(parent) in ('value.__class__()', 'type(value)()')
            over_value = 'value' in {x.id for x in ast.walk(items) if isinstance(x, ast.Name)}
            # the item iterator enumerates the container as it is: sorting needs orderable members (sets of mixed types raise)
            reorders = any(isinstance(x, ast.Call) and call_name(x) in ('sorted', 'reversed') for x in ast.walk(items)) or \
                any(isinstance(x, ast.Call) and isinstance(x.func, ast.Attribute) and x.func.attr == 'sort' for x in ast.walk(items))
            ctx.ob('T20.order', de.fq, 'the item iterator `%s` walks the container in its own order (no sorting: members need not be '
                   'orderable)' % txt(items), not reorders, loc=loc(de, n))
            ctx.ob('T20.enter', de.fq, 'a traversed container gets a fresh empty instance of its own class as new parent (`%s`) and an '
                   'iterator over its items (`%s`)' % (txt(parent), txt(items)), fresh and over_value, loc=loc(de, n))
    w0, paths0 = paths_of(prog, de)
    kinds = set()
    for p in paths0:
        if p.kind == 'return' and isinstance(p.outcome[1], ast.Tuple) and len(p.outcome[1].elts) == 2 and \
                not (isinstance(p.outcome[1].elts[1], ast.Constant) and p.outcome[1].elts[1].value is False):
            for t, truth, o in tests_on(w0, p):
                if t.startswith('isinstance(value, ') and truth:
                    kinds |= {x.strip(' ()') for x in t[len('isinstance(value, '):-1].split(',')}
    ctx.ob('T20.enter', de.fq, 'mappings, sequences and sets are all traversed', {'Mapping', 'Sequence', 'Set'} <= kinds, loc=de.loc,
           detail='kinds traversed: %s' % sorted(kinds))
    # default_exit
    dx = prog.func(M + '.default_exit')
    from rules.common import PrivInl
    w, paths = paths_of(prog, dx, model=PrivInl(prog))
    for p in paths:
        if p.kind != 'return':
            continue
        rv = txt(w.expand(p.outcome[1]))
        ok = (rv == 'new_parent' or rv.startswith('new_parent.__class__(') or rv.startswith('type(new_parent)(')) and 'old_parent' not in rv
        ctx.ob('T20.exit', dx.fq, 'default_exit returns the filled new parent or a rebuild of its class from the new items, never the old parent',
               ok, loc=dx.loc, detail='returns %s' % rv, path=p.describe() if not ok else None)
    uses_old = [n for n in ast.walk(dx.node) if isinstance(n, ast.Name) and n.id == 'old_parent' and isinstance(n.ctx, ast.Load)]
    ctx.ob('T20.exit', dx.fq, 'the old parent does not flow into the result of default_exit', not uses_old, loc=dx.loc)
    # remap registry discipline
    rm = prog.func(M + '.remap')

    from rules.common import PrivInl as _PInl8

    class RM(_PInl8):
        max_paths = 60000

        def unroll(self, stmt):
            return 1
    w, paths = paths_of(prog, rm, model=RM(prog))
    n_exit = n_enter = 0
    for p in paths:
        ops = p.ops
        for o in ops:
            if o.kind == 'call' and txt(o.val.func) == 'exit':
                n_exit += 1
                tk = [nm for nm, info in w.tokens.items() if info[0] == 'call' and len(info) > 2 and info[2] is o]
                old = txt(w.expand(o.val.args[2])) if len(o.val.args) > 2 else None
                st = [x for x in ops if x.kind == 'sub_store' and is_id_key(w, x.val.slice) and x.seq > o.seq and tk and txt(x.info) == tk[0]]
                ok = False
                if st:
                    k = w.expand(st[0].val.slice)
                    ok = isinstance(k, ast.Call) and call_name(k) == 'id' and k.args and txt(k.args[0]) == old
                ctx.ob('T2.reg', rm.fq, 'after exit() the final rebuilt value is registered under id(old parent) (later references to a shared '
                       'immutable container resolve to the rebuilt object)', ok, loc=loc(rm, o.node), path=p.describe() if not ok else None)
            if o.kind == 'call' and txt(o.val.func) == 'enter':
                tk = [nm for nm, info in w.tokens.items() if info[0] == 'call' and len(info) > 2 and info[2] is o]
                ts = tests_on(w, p)
                trav = [x for t, truth, x in ts if t.endswith('is not False') and truth and x.seq > o.seq]
                if trav:
                    n_enter += 1
                    st = [x for x in ops if x.kind == 'sub_store' and is_id_key(w, x.val.slice) and x.seq > trav[0].seq]
                    ok = False
                    if st and tk:
                        k = w.expand(st[0].val.slice)
                        ok = isinstance(k, ast.Call) and call_name(k) == 'id' and k.args and txt(k.args[0]) == txt(w.expand(o.val.args[2])) \
                            and txt(st[0].info) == '%s[0]' % tk[0]
                    ctx.ob('T2.reg', rm.fq, 'a traversed container registers its new parent under id(container) before its items are pushed', ok,
                           loc=loc(rm, o.node), path=p.describe() if not ok else None)
    if n_exit == 0 or n_enter == 0:
        ctx.unknown('T2.reg', rm.fq, 'enter()/exit() call sites not recognised (exit %d, enter %d)' % (n_exit, n_enter), rm.loc)
    # T3.items: the items iterator handed back by enter() (second component of its result) may be a one-shot iterator
    # (default_enter returns enumerate(...) / ItemsView): between the enter() call and the next loop pass it is traversed at most once
    CONSUMERS = {'list', 'tuple', 'sorted', 'set', 'frozenset', 'dict', 'sum', 'max', 'min', 'any', 'all', 'next', 'reversed', 'enumerate',
                 'zip', 'map', 'filter', 'len'}
    worst_items = None
    n_items = 0
    for p in paths:
        ops = p.ops
        for o in ops:
            if not (o.kind == 'call' and txt(o.val.func) == 'enter'):
                continue
            tk = [nm for nm, info in w.tokens.items() if info[0] == 'call' and len(info) > 2 and info[2] is o]
            if not tk:
                continue
            comp = '%s[1]' % tk[0]
            nxt = min([x.seq for x in ops if x.kind == 'loop_iter' and x.seq > o.seq] or [10 ** 9])
            uses = []
            for x in ops:
                if not (o.seq < x.seq < nxt):
                    continue
                if x.kind == 'call' and call_name(x.val) in CONSUMERS and any(txt(a) == comp for a in x.val.args):
                    uses.append(x)
                elif x.kind == 'iter_start' and x.val is not None and txt(x.val) == comp:
                    uses.append(x)
            n_items = max(n_items, len(uses))
            if len(uses) > 1 and worst_items is None:
                worst_items = (p, uses)
    if worst_items:
        ctx.ob('T3.items', rm.fq, 'the items iterator returned by enter() is traversed at most once (it may be a one-shot iterator: a second '
               'traversal finds it empty)', False, loc=loc(rm, worst_items[1][1].node),
               detail='traversed at lines %s' % [x.line for x in worst_items[1]], path=worst_items[0].describe())
    else:
        ctx.ob('T3.items', rm.fq, 'the items iterator returned by enter() is traversed at most once on every path', True, loc=rm.loc,
               detail='max traversals on a path: %d' % n_items, nontrivial=n_items > 0)
    # every item is offered to visit(): what is appended to the collected items is the visit result (or the identity
    # short-cut taken only for the default visit)
    n_app = 0
    for p in paths:
        ops = p.ops
        for o in ops:
            if o.kind == 'call' and isinstance(o.val.func, ast.Attribute) and o.val.func.attr == 'append' and o.val.args \
                    and (txt(o.node.func.value).replace(' ', '').endswith('[-1][1]') or
                         txt(w.expand(o.val.func.value)).replace(' ', '').endswith('[-1][1]')):
                n_app += 1
                last = max([x.seq for x in ops if x.kind == 'loop_iter' and x.seq < o.seq] or [-1])
                seg = [x for x in ops if last < x.seq < o.seq]
                visited = any(x.kind == 'call' and txt(x.node.func) == 'visit' for x in seg)
                ident = any(x.kind == 'test' and txt(x.node).replace(' ', '') in ('visitis_orig_default_visit',) and x.info is True for x in seg)
                ctx.ob('T9.visit', rm.fq, 'an item is collected only after visit() was consulted for it (or visit is the default identity)',
                       visited or ident, loc=loc(rm, o.node), path=p.describe() if not (visited or ident) else None)
    if n_app == 0:
        ctx.unknown('T9.visit', rm.fq, 'no append to the collected items found', rm.loc)
    # path bookkeeping: the key is appended to the path for every entered container except the root itself
    # roles from the call enter(<path>, <key>, <value>)
    ecalls = [n for n in ast.walk(rm.node) if isinstance(n, ast.Call) and txt(n.func) == 'enter' and len(n.args) == 3 and
              all(isinstance(a, ast.Name) for a in n.args)]
    if not ecalls:
        raise AnalysisError('anchor vanished: remap does not call enter(path, key, value) with three plain names')
    PATH, KEY, VALUE = [a.id for a in ecalls[0].args]
    ext = []
    for n in ast.walk(rm.node):
        if isinstance(n, ast.If):
            for st in n.body:
                grows = (isinstance(st, ast.AugAssign) and txt(st.target) == PATH and
                         any(isinstance(x, ast.Name) and x.id == KEY for x in ast.walk(st.value))) or \
                        (isinstance(st, ast.Assign) and any(txt(t) == PATH for t in st.targets) and
                         {PATH, KEY} <= {x.id for x in ast.walk(st.value) if isinstance(x, ast.Name)})
                if grows:
                    ext.append(n)
    ok = bool(ext)
    for n in ext:
        ids = [c for c in ast.walk(n.test) if isinstance(c, ast.Compare) and isinstance(c.ops[0], (ast.Is, ast.IsNot))
               and {txt(c.left), txt(c.comparators[0])} == {VALUE, rm.params[0]}]
        ok = ok and bool(ids)
    ctx.ob('T9.path', rm.fq, 'the path is extended by the key for every entered container except the root (identity test against root, '
           'not a test on the key: None is a legal key)', ok, loc=loc(rm, ext[0]) if ext else rm.loc,
           detail='; '.join(txt(n.test) for n in ext))
    hit = False
    for p in paths:
        for t, truth, o in tests_on(w, p):
            e = w.expand(o.val)
            e2 = e
            while isinstance(e2, ast.UnaryOp):
                e2 = e2.operand
            if isinstance(e2, ast.Compare) and len(e2.ops) == 1 and isinstance(e2.ops[0], ast.In) and \
                    isinstance(e2.left, ast.Call) and call_name(e2.left) == 'id' and truth:
                cont = txt(e2.comparators[0])
                loads = [x for x in p.ops if x.kind == 'sub_load' and txt(x.val.value) == cont and is_id_key(w, x.val.slice) and x.seq > o.seq]
                if loads:
                    hit = True
    ctx.ob('T2.reg', rm.fq, 'an already registered id resolves to the registered value (shared objects rebuilt once, cycles terminate)', hit, loc=rm.loc)
    # research
    rs = prog.func(M + '.research')
    inner = [n for n in ast.walk(rs.node) if isinstance(n, ast.FunctionDef) and n is not rs.node]
    ok = False
    det = ''
    for fn in inner:
        ps = [a.arg for a in fn.args.args]
        if len(ps) != 3:
            continue
        pth, key, val = ps
        appends = [n for n in ast.walk(fn) if isinstance(n, ast.Call) and isinstance(n.func, ast.Attribute) and n.func.attr == 'append' and n.args
                   and isinstance(n.args[0], ast.Tuple) and len(n.args[0].elts) == 2
                   and txt(n.args[0].elts[0]).replace(' ', '') == '%s+(%s,)' % (pth, key) and txt(n.args[0].elts[1]) == val]
        fi = next((x for x in rs.module.all_funcs if x.node is fn), None)
        rets = []
        if fi is not None:
            # decided on the value every path of the wrapper returns (a temporary does not matter)
            rvs = [e for e, _, _ in returned_values(prog, fi)]
            if rvs and all(isinstance(e, ast.Call) and txt(e.func) == 'enter' and [txt(a) for a in e.args] == [pth, key, val] for e in rvs):
                rets = rvs
        queried = any(isinstance(n, ast.Call) and txt(n.func) == 'query' and [txt(a) for a in n.args] == [pth, key, val] for n in ast.walk(fn))
        calls = [n for n in ast.walk(rs.node) if isinstance(n, ast.Call) and call_name(n) == 'remap' and n.args and txt(n.args[0]) == 'root'
                 and any(k.arg == 'enter' and txt(k.value) == fn.name for k in n.keywords)]
        if appends and rets and queried and calls:
            lst = txt(appends[0].func.value)
            returned = any(isinstance(n, ast.Return) and txt(n.value) == lst for n in ast.walk(rs.node)
                           if not any(n in list(ast.walk(f2)) for f2 in inner)) or \
                all(txt(p.outcome[1]) == lst or txt(e) == lst for e, p, _ in returned_values(prog, rs))
            ok = returned
            det = 'collector %s via %s' % (lst, fn.name)
    ctx.ob('T17.research', rs.fq, 'research records (path + (key,), value) for matching items, delegates to the given enter and traverses '
           'with remap(root, enter=<its wrapper>)', ok, loc=rs.loc, detail=det)
    for r, n in (('T8.input', 6), ('T20.enter', 4), ('T20.exit', 3), ('T2.reg', 3), ('T17.research', 1), ('T9.path', 1)):
        ctx.need(r, n)
