"""C02 -- LRI/LRU capacity, recency bookkeeping, counters, copy (structural clauses)."""
from rules import cachestep

SPEC = {
    'explanation': (
        'Static analysis of cacheutils.LRI and LRU per concrete class on every control-flow path (exception edges at '
        'every table / C-level dict lookup and user callback; private ring helpers inlined). Decided: T1 every dict '
        'mutator is overridden; T2 on every path (normal and exceptional exits) the keys added to / removed from the '
        'dict storage equal those added to / removed from the key->link table, a storage store of an existing key '
        'follows a successful table lookup of that key, the link carries the stored value, every table change touches '
        'the ring, clear pairs with re-initialisation; T7 a new key is inserted without eviction only under '
        '`size < max_size` (canonicalised comparison), the evicted key leaves the storage before the new one enters, '
        'non-positive max_size is rejected before any state exists, max_size has no other writer; T9/T11 '
        '__getitem__ counts exactly one hit on found paths and exactly one miss (before on_miss / re-raise) on '
        'not-found paths, get/setdefault count exactly one soft miss only after a caught miss of self[key], no other '
        'writer of the counters, the on_miss result is stored under the key and returned; T8 copy() performs no write '
        'and no counted lookup on the source, passes the same capacity and takes its items from a ring traversal; '
        'T18 clear()/__init__ reset all structures. Not decided: the pointer arithmetic inside the ring splices '
        '(which end is oldest), hence not the identity of the eviction victim; equality of contents with a reference '
        'cache for all histories.'
        ' T28: every unlink statement X[a][b] = X[c] of the recency ring has c == b.'
        " T9.consume: LRI.update feeds every source. T14.default: pop's sentinel-default protocol. T28: an unlink rewires both neighbours."),
    'decided': ['sources consumed', 'sentinel-default protocol', 'splice shape', 'T1 mutator closure', 'T2 storage/table/ring lock-step on all paths', 'T7 capacity guard',
                'T9/T11 counter discipline, on_miss caching', 'T8 copy is a pure observer using ring order',
                'T18 reset completeness'],
    'declined': ['ring splice pointer arithmetic / identity of the eviction victim',
                 'contents == reference cache for every history'],
    'trusted_base': ['CPython: C-level dict methods do not call overridden __setitem__/__delitem__',
                     'KeyError is the only exception of table / dict lookups on hashable keys'],
    'assumptions': ['keys are hashable; on_miss may raise anything'],
    'exhaustive': True,
}

SPEC['explanation'] += ' T9.front: the private operation that hands out the link of an existing key leaves it immediately before the anchor on every path (stored into anchor[PREV], or established to be there already).'
SPEC['decided'] += ['hit moves the link to the front on every path']
SPEC['explanation'] += " T7 is applied to every operation that can add a key (a bulk operation with its own 'there is room' shortcut is held to the same capacity test). T4.reflect: __eq__ never re-dispatches `other == self` for operands that may be dicts (unbounded recursion through the reflected method)."
SPEC['decided'] += ['capacity test on every adding operation', 'no reflected re-dispatch in __eq__']
SPEC['explanation'] += " T9.touch: every normal path of __setitem__ puts a link in front of the anchor (no 'same value' early exit). T9.kwsrc: update() feeds its keyword items on every path except update(self). T14.get: get/setdefault answer with the looked-up value or the caller's default."
SPEC['decided'] += ['assignment always refreshes recency', 'keyword source fed on every path']
SPEC['explanation'] += ' T9.srcorder: update() does not pass a source through a re-keying / re-ordering copy (repeated keys keep refreshing recency).'
SPEC['decided'] += ['update sources fed in their own order']
SPEC['explanation'] += ' T8.eq: __eq__/__ne__ do not read the cache through the counted lookup.'
SPEC['decided'] += ['comparison is a pure observer']
MANIFEST = {
    'technique': 'paired-effect (lock-step) analysis over all CFG paths with inlined helpers; dominating-guard check with comparison canonicalisation; who-may-write counters; observer purity of copy()',
    'text': ('Decides necessary structural conditions of C02 for all paths of all methods: the three structures (dict, '
             'key->link table, ring) are changed together on every normal and exceptional exit, growth is guarded by '
             'size < max_size, the hit/miss/soft-miss counters are incremented exactly once on the right paths and '
             'nowhere else, on_miss results are cached, copy() does not disturb its source and follows ring order, '
             'no dict mutator is inherited. A tree can pass and still mis-order the ring internally (pointer arithmetic '
             'is not decided); the claim is partial by design.'),
    'note': 'Trusted: CPython dict C-API behaviour; typed may-raise tables (KeyError for lookups, anything for on_miss). Loops unrolled 0..2.',
}


def reflected_eq(ctx):
    """T4.reflect: inside C.__eq__(self, other) the expression `other == self` does not hand the comparison to the other operand
    when `other` is an instance of a base class of C that C overrides __eq__ of: Python gives the subclass's reflected method
    priority, so the call comes straight back to C.__eq__ with the same operands -- unbounded recursion for `cache == {..}` of
    equal length.  On every path, `other == self` (and `self == other`, which re-enters at once) is reached only after the path
    established that `other` is not a dict."""
    import ast
    from sa.index import FuncInfo
    from rules.common import paths_of, txt, tests_on, loc
    prog = ctx.program
    n = 0
    for cls in ('cacheutils.LRI', 'cacheutils.LRU'):
        ci = prog.cls(cls)
        eq = prog.resolve(ci, '__eq__')
        if not isinstance(eq, FuncInfo) or len(eq.params) < 2:
            continue
        other = eq.params[1]
        w, paths = paths_of(prog, eq, recv=ci)
        bad = None
        for p in paths:
            ts = tests_on(w, p)
            for o in p.ops:
                if o.kind != 'compare' or not isinstance(o.val, ast.Compare) or len(o.val.ops) != 1 or \
                        not isinstance(o.val.ops[0], (ast.Eq, ast.NotEq)):
                    continue
                l, r = txt(w.expand(o.val.left)), txt(w.expand(o.val.comparators[0]))
                if {l, r} != {'self', other}:
                    continue
                n += 1
                not_dict = any(t.replace(' ', '').startswith('isinstance(%s,' % other) and 'dict' in t and not truth and x.seq < o.seq
                               for t, truth, x in ts)
                if (l == 'self' or not not_dict) and bad is None:
                    bad = (p, o, l)
        if bad:
            ctx.ob('T4.reflect', eq.fq, '`%s == self` inside __eq__ is reached only for operands that are not dicts (for a dict the '
                   'interpreter calls this very method again: unbounded recursion)' % other, False, loc=loc(eq, bad[1].node),
                   detail='`%s` compared first' % bad[2], path=bad[0].describe())
        else:
            ctx.ob('T4.reflect', eq.fq, '__eq__ never re-dispatches the comparison of the same two operands to itself', True, loc=eq.loc)


def touch_on_set(ctx):
    """T9.touch: assigning a key -- new or already stored, with whatever value -- makes it the most recent one: every normal path
    of __setitem__ (helpers inlined) puts a link in front of the anchor (a store into anchor[PREV]) or re-seats the anchor (the
    eviction step).  A path that leaves early (e.g. "same value, nothing to do") leaves the key's recency stale."""
    import ast
    from rules.common import paths_of, txt, PrivInl
    prog = ctx.program
    for cls in ('cacheutils.LRI', 'cacheutils.LRU'):
        ci = prog.cls(cls)
        si = prog.resolve(ci, '__setitem__')
        from rules.common import TryRaises
        w, paths = paths_of(prog, si, recv=ci, model=TryRaises(prog, si, helpers=True))
        bad = None
        n = 0
        for p in paths:
            if p.kind != 'return':
                continue
            n += 1
            front = any(o.kind == 'sub_store' and txt(o.val.slice) == 'PREV' and 'self._anchor' in txt(w.expand(o.val.value))
                        for o in p.ops) or any(o.kind == 'attr_store' and txt(o.val) == 'self._anchor' for o in p.ops)
            if not front and bad is None:
                bad = p
        if n == 0:
            ctx.unknown('T9.touch', si.fq, 'no normal path', si.loc)
        else:
            ctx.ob('T9.touch', '%s.__setitem__' % cls, 'every assignment makes the key the most recent one (a link is put in front of the '
                   'anchor on every normal path)', bad is None, loc=si.loc, detail='%d paths' % n, path=bad.describe() if bad else None)


def sources_in_order(ctx):
    """T9.srcorder: update() feeds its sources as they come: neither the positional source nor the keyword items pass through a
    re-keying or re-ordering constructor (dict / set / frozenset / sorted / reversed / OrderedDict / Counter) on their way to the
    stores.  A list of pairs may repeat a key: each assignment refreshes the key's recency, so collapsing the repeats first
    (the key keeps the position of its first occurrence) changes which key is evicted next."""
    import ast
    from rules.common import txt
    from sa.paths import call_name
    prog = ctx.program
    up = prog.func('cacheutils.LRI.update')
    kw = up.node.args.kwarg.arg if up.node.args.kwarg else None
    srcs = {p for p in up.params[1:2]} | ({kw} if kw else set())
    bad = None
    for c in ast.walk(up.node):
        if isinstance(c, ast.Call) and (call_name(c) or '').split('.')[-1] in ('dict', 'set', 'frozenset', 'sorted', 'reversed', 'OrderedDict',
                                                                               'Counter'):
            fed = list(c.args) + [k.value for k in c.keywords]
            if any(isinstance(x, ast.Name) and x.id in srcs for a in fed for x in ast.walk(a)):
                bad = bad or c
    ctx.ob('T9.srcorder', up.fq, 'the sources of update() reach the stores in their own order, repeats included (no dict()/set()/sorted() '
           'copy in between)', bad is None, loc=up.loc if bad is None else '%s:%d' % (up.module.relpath, bad.lineno),
           detail=txt(bad) if bad is not None else '')


def kwargs_consumed(ctx):
    """T9.kwsrc: update(E, **F) feeds the keyword items on every normal path, except where the path established `E is self`
    (updating a cache with itself is the one documented no-op)."""
    import ast
    from rules.common import paths_of, txt, tests_on
    prog = ctx.program
    ci = prog.cls('cacheutils.LRI')
    up = prog.func('cacheutils.LRI.update')
    kw = up.node.args.kwarg.arg if up.node.args.kwarg else None
    if kw is None:
        return
    src = up.params[1] if len(up.params) > 1 else 'E'
    w, paths = paths_of(prog, up, recv=ci)
    bad = None
    n = 0
    for p in paths:
        if p.kind != 'return':
            continue
        n += 1
        fed = any(o.kind == 'iter_start' and o.val is not None and kw in {x.id for x in ast.walk(w.expand(o.val)) if isinstance(x, ast.Name)}
                  for o in p.ops) or any(o.kind == 'call' and any(isinstance(a, ast.Name) and a.id == kw for a in o.val.args) for o in p.ops)
        same = any((t.replace(' ', '') in ('%sisself' % src, 'selfis%s' % src) and truth) or
                   (t.replace(' ', '') in ('%sisnotself' % src, 'selfisnot%s' % src) and not truth) for t, truth, o in tests_on(w, p))
        if not fed and not same and bad is None:
            bad = p
    ctx.ob('T9.kwsrc', up.fq, 'the keyword items of update() are fed on every normal path (except for update(self))', bad is None,
           loc=up.loc, detail='%d paths' % n, path=bad.describe() if bad else None)


def move_to_front(ctx):
    """T9.front: the private operation that hands out the link of an existing key as the newest one (used by every hit and
    by re-assignment) leaves that link immediately before the anchor on every normal path: the path stores it into
    anchor[PREV], or it established that it already is there (anchor[PREV] is link / link[NEXT] is anchor)."""
    import ast
    from sa.index import FuncInfo
    from rules.common import paths_of, txt, tests_on, PrivInl, loc
    prog = ctx.program
    ci = prog.cls('cacheutils.LRI')
    n = 0
    for nm, m in ci.members.items():
        if not isinstance(m, FuncInfo) or not nm.startswith('_') or nm.startswith('__'):
            continue
        w, paths = paths_of(prog, m, recv=ci, model=PrivInl(prog))
        # only the operation that *moves* links (it rewires the ring on some path); a plain lookup of the link (LRI does not
        # reorder on a hit) is not concerned
        if not any(o.kind == 'sub_store' and txt(o.val.slice) in ('PREV', 'NEXT') for p in paths for o in p.ops):
            continue
        for p in paths:
            if p.kind != 'return' or p.outcome[1] is None:
                continue
            R = txt(w.expand(p.outcome[1]))
            rv = w.expand(p.outcome[1])
            if not (isinstance(rv, ast.Subscript) and txt(rv.value) == 'self._link_lookup'):
                continue                    # hands out a link itself (not a slot of it, as a reader built on the mover does)
            n += 1
            stored = [o for o in p.ops if o.kind == 'sub_store' and txt(o.val) == 'self._anchor[PREV]' and o.info is not None
                      and txt(w.expand(o.info)) == R]
            est = False
            for t, truth, o in tests_on(w, p):
                for a, b in (('self._anchor[PREV]', R), (R + '[NEXT]', 'self._anchor')):
                    if t in ('%s is %s' % (a, b), '%s is %s' % (b, a)) and truth or \
                            t in ('%s is not %s' % (a, b), '%s is not %s' % (b, a)) and not truth:
                        est = True
            ok = bool(stored) or est
            ctx.ob('T9.front', m.fq, 'the link handed out for an existing key is (made) the newest: stored into anchor[PREV], or already '
                   'established to be there', ok, loc=m.loc, path=p.describe() if not ok else None)
    if n == 0:
        ctx.unknown('T9.front', 'cacheutils.LRI', 'no private method returning a link of _link_lookup found', '')


def run(ctx):
    from rules.common import check_sentinel_default as _csd
    for _c in ('cacheutils.LRI', 'cacheutils.LRU'):
        _csd(ctx, ctx.program, ctx.program.resolve(ctx.program.cls(_c), 'pop'), recv=ctx.program.cls(_c))
    from rules.common import require_fields
    require_fields(ctx.program, 'cacheutils.LRI', ['_anchor', '_link_lookup', 'hit_count', 'miss_count', 'soft_miss_count', 'max_size', 'on_miss'])
    for cls in ('cacheutils.LRI', 'cacheutils.LRU'):
        cachestep.check_class(ctx, cls)
    # T28: the unlink statements of the recency ring are well-formed (own methods and private module-level helpers)
    from rules import onepass
    from sa.index import FuncInfo
    n_sp = 0
    mod = ctx.program.module('cacheutils')
    subjects = [m for c in ('cacheutils.LRI', 'cacheutils.LRU') for m in ctx.program.cls(c).members.values() if isinstance(m, FuncInfo)]
    subjects += [f for nm, f in mod.functions.items() if nm.startswith('_')]
    for m in subjects:
        n_sp += onepass.splice_shape(ctx, m)
    move_to_front(ctx)
    reflected_eq(ctx)
    touch_on_set(ctx)
    kwargs_consumed(ctx)
    sources_in_order(ctx)
    from rules.common import check_no_counted_lookup as _cncl
    for _n in ('__eq__', '__ne__'):
        for _c in ('cacheutils.LRI', 'cacheutils.LRU'):
            _f = ctx.program.resolve(ctx.program.cls(_c), _n)
            if hasattr(_f, 'node') and _f.fq.endswith('.' + _n) and _f.fq.startswith(_c):
                _cncl(ctx, _f)
    from rules.common import check_default_returned
    for _c in ('cacheutils.LRI', 'cacheutils.LRU'):
        for _n in ('get', 'setdefault'):
            check_default_returned(ctx, ctx.program, ctx.program.resolve(ctx.program.cls(_c), _n), recv=ctx.program.cls(_c))
    upd = ctx.program.func('cacheutils.LRI.update')
    onepass.sources_consumed(ctx, upd, [p_ for p_ in (upd.params[1:] + ([upd.node.args.kwarg.arg] if upd.node.args.kwarg else []))])
    if n_sp == 0:
        ctx.info('T28: no unlink statement of the form X[a][b] = X[c] in LRI/LRU')
    for r, n in (('T1', 16), ('T2', 20), ('T7', 2), ('T7e', 2), ('T9.count', 4), ('T9.soft', 4), ('T9.onmiss', 2),
                 ('T8.copy', 2), ('T8.copy.src', 2), ('T18', 2), ('T11.count', 6), ('T7.init', 2), ('T9.front', 1)):
        ctx.need(r, n)
