"""C04 -- atomic_save never exposes a partially written destination."""
from rules import atomicsave

SPEC = {
    'explanation': (
        'Static protocol analysis of fileutils.AtomicSaver on the inlined composite paths '
        '__enter__->setup->_open_part_file->set_cloexec and __exit__->atomic_rename (POSIX branch), every '
        'OS / file-object call being a potential fault point (exception edge). Decided: O1 the part file is '
        'created only by os.open(part_path, flags) with folded flags containing O_CREAT|O_EXCL and write access; '
        'O2 every definition of part_path derives from the destination (same directory); O3 the handle returned '
        'by __enter__ is the fdopen of that descriptor; O4 on every path that publishes: flush < fsync(fileno) < '
        'close < publish and the publish is control-dependent on `not exc_type`; O5 the destination is a write '
        'target only of one rename/link(part, destination) per path and of nothing else; O6 a normal exit leaves '
        'no part file; atomic_save delegates to AtomicSaver. With the trusted base (POSIX rename/link atomicity, '
        'fsync durability) these give: at every crash point the destination is old or complete-new. The check '
        'does not kill processes and does not decide behaviour of file systems outside the trusted base.'
        ' O1x: the exclusive create of the part file is outside every handler that closes/unlinks it (a failed create leaves a foreign file alone).'
        " T17 also: atomic_save hands the caller's options on untouched and overwrite_part defaults to False."),
    'decided': ['wrapper leaves options untouched', 'foreign part file untouched on failed create', 'O1 exclusive creation', 'O2 co-location', 'O3 handle identity', 'O4 flush<fsync<close<publish, only on success',
                'O5 single atomic publication; destination untouched otherwise', 'O6 no part file after success'],
    'declined': ['behaviour on file systems without atomic rename / honest fsync', 'caller-supplied absolute part_file names',
                 'the Windows (os.name == "nt") branch: analysed but not armed'],
    'trusted_base': ['POSIX rename(2)/link(2) atomicity within one file system', 'fsync(2) durability',
                     'io file object flush()/close() semantics', 'os.O_* flag meaning'],
    'assumptions': ['the body writes only through the handle returned by __enter__',
                    '__exit__ is entered after a successful __enter__ (part_file set; proved by O3)'],
    'exhaustive': True,
}

MANIFEST = {
    'technique': 'typestate / must-pass-through ordering over all inlined CFG paths with exception edges; who-may-write the destination; flag-table folding',
    'text': ('Decides the structural protocol that makes atomic_save crash-safe, on every control-flow path including '
             'every OS-call fault point: exclusive creation next to the destination, flush<fsync<close strictly before '
             'one atomic rename/link onto the destination, publication only when the body succeeded, and no other '
             'write/remove/truncate of the destination anywhere. The crash-point quantifier of C04 is reduced to this '
             'ordering plus POSIX rename/fsync semantics (trusted); tests cannot observe intermediate states at all. '
             'Not decided: the kernel/file-system side of the argument.'),
    'note': 'Trusted: POSIX rename/link atomicity, fsync durability, CPython io semantics; POSIX branch only; loops unrolled 0..2, helpers inlined to depth 6.',
}


def run(ctx):
    from rules.common import require_fields
    require_fields(ctx.program, 'fileutils.AtomicSaver', ['part_path', 'dest_path', 'part_file', 'open_flags', 'overwrite', 'overwrite_part', 'rm_part_on_exc'])
    atomicsave.check_c04(ctx)
    for r, n in (('C04.O1', 2), ('C04.O2', 2), ('C04.O3', 1), ('C04.O4', 2), ('C04.O4g', 2), ('C04.O5', 4),
                 ('C04.O6', 2), ('C04.T17', 1)):
        ctx.need(r, n)
