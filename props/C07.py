"""C07 -- URL.navigate / normalize (structural clauses)."""
import ast
from sa.index import AnalysisError, FuncInfo
from sa.paths import call_name
from sa.consteval import Folder, Unknown
from rules.common import txt, paths_of, loc, tests_on, Quiet, guard_dnf

CLS = 'urlutils.URL'
SPEC = {
    'explanation': (
        'Static analysis of urlutils.URL.navigate / normalize / from_parts and resolve_path_parts. Decided: T8 navigate never '
        'writes the base URL (no attribute store on self, no normalize()/path-setter/query_params mutation on self); T20 the '
        'result is built by from_parts from a fresh cls() with a fresh path tuple and query parameters *copied* by '
        'update(), never assigned by reference; T9 every return of navigate on the relative-reference branch passes '
        'ret.normalize(), and normalize assigns path_parts from resolve_path_parts on every path (no conditional fast path); '
        'the base query is inherited only when the reference has neither path nor query (control dependence of every load '
        'of self.query_params), the path is merged from base[:-1] + reference only for a non-rooted reference path; '
        'resolve_path_parts: a segment is appended only when it is neither "." nor ".." (dot-free result for every input), '
        'and the guard of ret.pop(), evaluated over a finite abstraction of list shapes (all lists over {empty, non-empty '
        'segment} up to length 3), is true exactly when ret is non-empty and is not the bare root marker [""] (never pops on '
        'empty, never un-roots, always pops otherwise). Not decided: agreement with RFC 3986 5.2 as a whole (trailing-slash and '
        'merge corner cases), idempotence of normalize, chaining.'
        ' T25.inherit: scheme/host/port/username/password of a relative result are each `ref.X or base.X`. T19p: from_parts reads every part.'),
    'decided': ['authority inheritance siblings', 'from_parts reads every part', 'base not modified', 'result owns fresh state', 'normalize on every return, unconditional dot removal',
                'query/path inheritance control dependence', 'dot-free appends', 'pop guard == non-empty and not bare root'],
    'declined': ['full RFC 3986 section 5.2 agreement', 'normalize idempotence', 'chained navigation'],
    'trusted_base': [], 'assumptions': [], 'exhaustive': True,
}
SPEC['explanation'] += ' T9.norm also covers every return path that does not hand back the absolute reference itself: its result is normalised.'
SPEC['decided'] += ['all non-absolute results normalised']
SPEC['explanation'] += ' T20.nocache: the functions that build a fresh list / dict / generator per call are not memoised.'
SPEC['decided'] += ['results are fresh per call (no memoising decorator)']
SPEC['explanation'] += " T9.trail: after a trailing dot segment resolve_path_parts appends the empty final segment on every path."
SPEC['decided'] += ['trailing slash after a final dot segment']
MANIFEST = {
    'technique': 'effect (write-set) analysis, must-pass-through on CFG paths, control-dependence of loads, guard predicate folded over a finite abstract domain of list shapes',
    'text': ('Decides necessary structural clauses of C07: navigate is a pure function of the base, always normalises, removes dot '
             'segments unconditionally, inherits the base query only for an empty reference, and the un-rooting guard has exactly '
             'the right truth table on small list shapes. RFC-algorithm agreement for all inputs is not decided (partial).'),
    'note': 'The guard truth table is obtained by constant-folding the guard expression over enumerated list shapes (no code of the library is executed).',
}
MUTATORS = {'update', 'add', 'addlist', 'clear', 'pop', 'popall', 'poplast', 'popitem', 'setdefault', 'update_extend', '__setitem__',
            '__delitem__', 'append', 'extend', 'remove', 'insert', 'sort', 'reverse'}


def run(ctx):
    from rules.common import check_not_memoised as _cnm
    _cnm(ctx, [ctx.program.func(n) for n in ['urlutils.resolve_path_parts']])
    from rules.common import require_fields
    require_fields(ctx.program, 'urlutils.URL', ['path_parts', 'query_params', 'fragment', 'scheme', 'host'])
    prog = ctx.program
    ci = prog.cls(CLS)
    nav = prog.func(CLS + '.navigate')
    # T8 base unmodified
    bad = []
    for n in ast.walk(nav.node):
        if isinstance(n, ast.Attribute) and isinstance(n.ctx, (ast.Store, ast.Del)) and txt(n.value) == 'self':
            bad.append((n, 'assignment to self.%s' % n.attr))
        if isinstance(n, ast.Call) and isinstance(n.func, ast.Attribute):
            r = txt(n.func.value)
            if r == 'self' and n.func.attr in ('normalize',):
                bad.append((n, 'self.normalize() normalises the base in place'))
            if r.startswith('self.') and n.func.attr in MUTATORS:
                bad.append((n, '%s.%s(...) mutates state of the base' % (r, n.func.attr)))
        if isinstance(n, ast.Subscript) and isinstance(n.ctx, (ast.Store, ast.Del)) and txt(n.value).startswith('self'):
            bad.append((n, 'item assignment on %s' % txt(n.value)))
    for n, why in bad:
        ctx.ob('T8.base', nav.fq, 'navigate leaves the base URL unmodified: ' + why, False, loc=loc(nav, n))
    if not bad:
        ctx.ob('T8.base', nav.fq, 'navigate performs no write on self (no attribute store, no in-place normalisation, no mutation of its query)',
               True, loc=nav.loc)
    # sibling agreement: the authority parts (and the scheme) of a relative reference are inherited alike -- each is
    # `<reference part> or <base part>` (an `and`, a swapped pair or a missing fallback in one of them is the odd one out)
    refname = nav.params[1] if len(nav.params) > 1 else 'dest'
    fpcalls = [n for n in ast.walk(nav.node) if isinstance(n, ast.Call) and isinstance(n.func, ast.Attribute) and
               n.func.attr == 'from_parts']
    if not fpcalls:
        ctx.unknown('T25.inherit', nav.fq, 'no from_parts(...) call in navigate', nav.loc)
    for c in fpcalls:
        kws = {k.arg: k.value for k in c.keywords if k.arg}
        for fld in ('scheme', 'host', 'port', 'username', 'password'):
            if fld not in kws:
                ctx.ob('T25.inherit', nav.fq, 'the %s of the result is passed to from_parts' % fld, False, loc=loc(nav, c))
                continue
            e = kws[fld]
            ok = isinstance(e, ast.BoolOp) and isinstance(e.op, ast.Or) and len(e.values) == 2 and \
                isinstance(e.values[0], ast.Attribute) and e.values[0].attr == fld and not txt(e.values[0].value) == 'self' and \
                txt(e.values[1]) == 'self.' + fld
            ctx.ob('T25.inherit', nav.fq, 'the %s of the result is the reference\'s, else the base\'s (`ref.%s or self.%s`, like its '
                   'siblings)' % (fld, fld, fld), ok, loc=loc(nav, c), detail=txt(e))
    # T20 from_parts
    fp = prog.func(CLS + '.from_parts')
    from rules.common import params_read
    params_read(ctx, fp, why='every part handed to from_parts ends up in the new URL')
    wf, fpaths = paths_of(prog, fp, recv=ci)
    from sa.consteval import Folder as _Folder, Unknown as _Unknown
    ffold = _Folder(prog.module('urlutils'))
    n_ret = 0
    for p in fpaths:
        if p.kind != 'return':
            continue
        n_ret += 1
        rv = p.outcome[1]
        R = txt(rv)
        made = wf.expand(rv) if rv is not None else None
        fresh_obj = (isinstance(made, ast.Call) and call_name(made) in ('cls', 'URL', CLS.split('.')[-1]) and not made.args) or \
            (R.startswith('$new') and any(o.kind == 'call' and call_name(o.val) in ('cls', 'URL') and not o.val.args and
                                          isinstance(o.info, tuple) and o.info[0] == 'class' for o in p.ops))
        upd = [o for o in p.ops if o.kind == 'call' and txt(o.val.func) == R + '.query_params.update' and
               [txt(a) for a in o.val.args] == ['query_params']]
        shared = [o for o in p.ops if o.kind == 'attr_store' and txt(o.val) == R + '.query_params']
        ctx.ob('T20.fresh', fp.fq, 'the new URL starts from cls() and copies the query parameters with update() (never shares the mapping)',
               fresh_obj and bool(upd) and not shared, loc=fp.loc, path=p.describe() if not (fresh_obj and upd and not shared) else None)
        pstores = [o for o in p.ops if o.kind == 'attr_store' and txt(o.val) == R + '.path_parts']
        ok = bool(pstores)
        det = ''
        for o in pstores:
            e = wf.expand(o.info) if o.info is not None else None
            def _alts(x):
                if isinstance(x, ast.BoolOp):
                    return [y for v in x.values for y in _alts(v)]
                if isinstance(x, ast.IfExp):
                    return _alts(x.body) + _alts(x.orelse)
                return [x]
            alts = _alts(e)
            for a in alts:
                # a class-level constant read through cls / self / the class name
                if isinstance(a, ast.Attribute) and isinstance(a.value, ast.Name) and a.value.id in ('cls', 'self', CLS.split('.')[-1]):
                    cm = ci.members.get(a.attr)
                    if isinstance(cm, tuple) and cm[0] == 'value':
                        a = cm[1]
                good = isinstance(a, ast.Call) and call_name(a) == 'tuple'
                if not good and a is not None:
                    try:
                        good = isinstance(ffold.fold(a), tuple)       # an immutable constant
                    except _Unknown:
                        good = False
                if not good:
                    ok = False
                    det = 'stores %s' % txt(e)
        ctx.ob('T20.fresh', fp.fq, 'path_parts of the result is a fresh tuple', ok, loc=fp.loc, detail=det)
    if n_ret == 0:
        ctx.unknown('T20.fresh', fp.fq, 'no return path', fp.loc)
    # T9 navigate paths
    w, paths = paths_of(prog, nav, recv=ci)
    n_rel = 0
    for p in paths:
        if p.kind != 'return':
            continue
        fpc = [o for o in p.ops if o.kind == 'call' and txt(o.val.func).endswith('.from_parts')]
        if not fpc:
            # absolute reference branch: returns the reference (or a copy).  Any other way out that does not build the result
            # with from_parts + normalize() hands back an un-normalised URL (the docstring: "normalized before being returned")
            ts0 = tests_on(w, p)
            absolute = any(t.endswith('.scheme') and not t.startswith('self.') and truth for t, truth, x in ts0) and \
                any(t.endswith('.host') and not t.startswith('self.') and truth for t, truth, x in ts0)
            if not absolute:
                rv = txt(p.outcome[1]) if p.outcome[1] is not None else ''
                normed = any(o.kind == 'call' and isinstance(o.val.func, ast.Attribute) and o.val.func.attr == 'normalize' and
                             txt(o.val.func.value) == rv for o in p.ops)
                ctx.ob('T9.norm', nav.fq, 'a result that is not the absolute reference itself is normalised before it is returned', normed,
                       loc=nav.loc, path=p.describe() if not normed else None)
            continue
        n_rel += 1
        norm = [o for o in p.ops if o.kind == 'call' and isinstance(o.val.func, ast.Attribute) and o.val.func.attr == 'normalize'
                and o.seq > fpc[0].seq]
        tk = [nm for nm, info in w.tokens.items() if info[0] == 'call' and len(info) > 2 and info[2] is fpc[0]]
        ok = bool(norm) and tk and txt(norm[0].val.func.value) == tk[0] and txt(p.outcome[1]) == tk[0]
        ctx.ob('T9.norm', nav.fq, 'the resolved URL is normalised before it is returned', bool(ok), loc=nav.loc, path=p.describe() if not ok else None)
        # inheritance: loads of self.query_params only when the reference has neither path nor query
        ts = tests_on(w, p)
        for o in p.ops:
            if o.kind == 'attr_load' and txt(o.val) == 'self.query_params':
                before = [(t, truth) for t, truth, x in ts if x.seq < o.seq]
                no_path = any(t.endswith('.path') and not t.startswith('self.') and not truth for t, truth in before)
                no_query = any(t.endswith('.query_params') and not t.startswith('self.') and not truth for t, truth in before)
                ok = no_path and no_query
                ctx.ob('T9.inherit', nav.fq, 'the base query is used only when the reference has neither a path nor a query '
                       '(a query-only reference replaces the base query)', ok, loc=loc(nav, o.node), path=p.describe() if not ok else None)
            if o.kind == 'sub_load' and txt(o.val.value) == 'self.path_parts':
                before = [(t, truth) for t, truth, x in ts if x.seq < o.seq]
                rel = any(t.endswith(".path.startswith('/')") and not truth for t, truth in before) and \
                    any(t.endswith('.path') and truth for t, truth in before)
                ok = rel and isinstance(o.val.slice, ast.Slice) and txt(o.val.slice.upper) == '-1' and o.val.slice.lower is None
                ctx.ob('T9.merge', nav.fq, 'base path segments (all but the last) are merged in only for a non-rooted reference path', ok,
                       loc=loc(nav, o.node))
    if n_rel == 0:
        ctx.unknown('T9.norm', nav.fq, 'no from_parts(...) construction found on the relative-reference paths', nav.loc)
    nz = prog.func(CLS + '.normalize')
    from rules.common import PrivInl
    w, paths = paths_of(prog, nz, recv=ci, model=PrivInl(prog))
    for p in paths:
        if p.kind != 'return':
            continue
        st = [o for o in p.ops if o.kind == 'attr_store' and txt(o.val) == 'self.path_parts' and o.depth == 0]
        ok = bool(st) and txt(w.expand(st[0].info)) == 'resolve_path_parts(self.path_parts)'
        ctx.ob('T9.dots', nz.fq, 'normalize removes dot segments on every path (path_parts = resolve_path_parts(path_parts), no fast path)',
               ok, loc=nz.loc, path=p.describe() if not ok else None)
    # resolve_path_parts
    rp = prog.func('urlutils.resolve_path_parts')
    w, paths = paths_of(prog, rp)
    # T9.trail: a path ending in a dot segment names a directory: once the function established that the last input segment is
    # '.' or '..', every path appends the empty final segment (RFC 3986 5.2.4 keeps the trailing slash whatever came before)
    bad_t = None
    n_t = 0
    for p in paths:
        if p.kind != 'return':
            continue
        for t, truth, o in tests_on(w, p):
            src = txt(o.node) if isinstance(o.node, ast.AST) else t       # (list displays are tokens in the expanded text)
            tt = src.replace(' ', '')
            if 'path_parts[-1:]' in tt and "'.'" in tt and "'..'" in tt and ' in ' in src and ' not in ' not in src and truth:
                n_t += 1
                later = [x for x in p.ops if x.seq > o.seq and x.kind == 'call' and isinstance(x.val.func, ast.Attribute) and
                         x.val.func.attr == 'append' and x.val.args and isinstance(x.val.args[0], ast.Constant) and x.val.args[0].value == '']
                rv = txt(w.expand(p.outcome[1])) if p.outcome[1] is not None else ''
                if not later and not rv.replace(' ', '').endswith("+['']") and bad_t is None:
                    bad_t = p
    if n_t:
        ctx.ob('T9.trail', rp.fq, "after a trailing '.' / '..' segment the empty final segment is appended on every path (the result "
               'keeps its trailing slash)', bad_t is None, loc=rp.loc, detail='%d paths' % n_t, path=bad_t.describe() if bad_t else None)
    seen = set()
    for p in paths:
        ts = tests_on(w, p)
        for o in p.ops:
            if o.kind == 'call' and isinstance(o.val.func, ast.Attribute) and o.val.func.attr == 'append' and o.val.args:
                a = o.val.args[0]
                if o.line in seen:
                    continue
                if isinstance(a, ast.Constant):
                    ok = a.value not in ('.', '..')
                else:
                    at = txt(a)
                    last = max([x.seq for x in p.ops if x.kind == 'iter_next' and x.seq < o.seq] or [-1])
                    cur = [(t, truth) for t, truth, x in ts if last < x.seq < o.seq]
                    def differs(const):
                        # the path established  at != const
                        for t, truth in cur:
                            if t in ("%s == %r" % (at, const), "%r == %s" % (const, at)) and not truth:
                                return True
                            if t in ("%s != %r" % (at, const), "%r != %s" % (const, at)) and truth:
                                return True
                            if (t.startswith('%s in ' % at) and not truth or t.startswith('%s not in ' % at) and truth) \
                                    and repr(const) in t:
                                return True
                        return False
                    ok = differs('.') and differs('..')
                seen.add(o.line)
                ctx.ob('T9.dotfree', rp.fq, 'a segment is appended to the result only when it is neither "." nor ".."', ok, loc=loc(rp, o.node))
    # guard of ret.pop(): truth table over list shapes
    mod = prog.module('urlutils')
    folder = Folder(mod)
    pops = []
    from rules.common import with_helpers
    for hf in with_helpers(prog, rp):
        # local aliases of a bound pop: `drop = ret.pop` / `add, drop = ret.append, ret.pop`
        pop_alias = {}
        for n in ast.walk(hf.node):
            if isinstance(n, ast.Assign) and len(n.targets) == 1:
                pairs = [(n.targets[0], n.value)]
                if isinstance(n.targets[0], ast.Tuple) and isinstance(n.value, ast.Tuple) and len(n.targets[0].elts) == len(n.value.elts):
                    pairs = list(zip(n.targets[0].elts, n.value.elts))
                for tg, vv in pairs:
                    if isinstance(tg, ast.Name) and isinstance(vv, ast.Attribute) and vv.attr == 'pop':
                        pop_alias[tg.id] = vv
        for n in ast.walk(hf.node):
            if isinstance(n, ast.If):
                for st in n.body:
                    if not (isinstance(st, ast.Expr) and isinstance(st.value, ast.Call) and not st.value.args):
                        continue
                    c = st.value
                    if isinstance(c.func, ast.Attribute) and c.func.attr == 'pop':
                        pops.append((n, c, hf))
                    elif isinstance(c.func, ast.Name) and c.func.id in pop_alias:
                        c2 = ast.copy_location(ast.Call(func=pop_alias[c.func.id], args=[], keywords=[]), c)
                        c2._orig = c
                        pops.append((n, c2, hf))
    if not pops:
        ctx.unknown('T7.unroot', rp.fq, 'no guarded <list>.pop() statement found', rp.loc)
    for ifn, c, hf in pops:
        var = txt(c.func.value)
        shapes = [[]]
        for n in (1, 2, 3):
            import itertools
            shapes += [list(t) for t in itertools.product(['', 'a'], repeat=n)]
        wrong = []
        # the whole guard of the pop: every enclosing condition that mentions the list, in evaluation order (short-circuit)
        dnf = [[(a, t) for a, t in conj if any(isinstance(x, ast.Name) and x.id == var for x in ast.walk(a))]
               for conj in guard_dnf(hf, getattr(c, '_orig', c))]

        def guard_value(env):
            for conj in dnf:
                good = True
                for a, t in conj:
                    if bool(folder.fold(a, env=env)) != t:
                        good = False
                        break
                if good:
                    return True
            return False
        from rules.common import reaches as _reaches
        pop_stmt = next((st for st in ast.walk(hf.node) if isinstance(st, ast.Expr) and st.value is getattr(c, '_orig', c)), None)
        for sh in shapes:
            try:
                # evaluate the statements that lead to the pop under this shape (the guard may read locals computed from the
                # list); fall back to the conjunction of the enclosing conditions that mention the list
                try:
                    got = _reaches(hf.node, pop_stmt, {var: tuple(sh)}, folder, {var}) if pop_stmt is not None else None
                except Unknown:
                    got = None
                if got is None:
                    got = guard_value({var: tuple(sh)})
            except Unknown as e:
                raise AnalysisError('cannot fold the pop guard %s: %s' % (txt(ifn.test), e))
            except Exception:
                got = 'raises'
            want = len(sh) > 0 and sh != ['']
            if got != want:
                wrong.append((sh, got, want))
        ctx.ob('T7.unroot', rp.fq, 'the guard of %s.pop() (`%s`) is true exactly when the list is non-empty and is not the bare root '
               'marker [""] (checked on all %d shapes up to length 3)' % (var, txt(ifn.test), len(shapes)), not wrong, loc=loc(hf, ifn),
               detail='disagreements (shape, guard, expected): %s' % wrong[:4] if wrong else '')
    for r, n in (('T8.base', 1), ('T20.fresh', 2), ('T9.norm', 2), ('T9.inherit', 1), ('T9.dots', 1), ('T9.dotfree', 2), ('T7.unroot', 1)):
        ctx.need(r, n)
