"""C17 -- OneToOne / ManyToMany stay mutual inverses; FrozenDict immutable and content-hashed."""
from rules import bimap, onepass

SPEC = {
    'explanation': (
        'Static analysis of dictutils.OneToOne, ManyToMany and FrozenDict on every control-flow path of each method. '
        'Decided: T1 OneToOne overrides every dict mutator; T2 every forward write dict.X(self, ...) is paired on the '
        'same path with the swapped write on self.inv, a forward overwrite is preceded by removal of the previous '
        'partner or by a test that the key is new, an inverse overwrite by eviction of the key that held the value or a '
        'test that the value is new, deletes/popitem/clear are paired, hash(val) precedes the first write; T3 '
        'OneToOne.update traverses its iterable once; ManyToMany: pairs are added to / removed from data and inv.data '
        'together in add/remove, every removal from a stored set is followed by an emptiness test (key dropped) or a '
        're-add, T20 every set stored into data/inv.data is freshly built or moved out of the instance\'s own storage '
        '(never a set read from another object), T21 a moved set is stored only under `key not in data`; FrozenDict: '
        'T1f every dict mutator resolves to a function whose every path raises TypeError and that never calls into '
        'dict, T22 the hash derives from an order-insensitive aggregate of the items and a cached error is re-raised, '
        'T8f updated/__copy__/__reduce_ex__/fromkeys never write the receiver. Not decided: OneToOne.__init__ '
        'de-duplication, exact-inverse equality for every history.'
        " T22r: FrozenDict's reduction does not carry the cached hash."
        ' T25.mirror: ManyToMany add/remove/update treat data and inv.data by mirror-image effects. T2.prehash: OneToOne.update hashes every item before the first store.'),
    'decided': ['mirror-image updates', 'validation before the first store', 'reduction carries no cached hash', 'T1', 'T2 paired writes', 'T3 one-pass update', 'T20 no foreign alias', 'T21 guarded store',
                'T1f frozen mutators', 'T22 order-insensitive hash', 'T8f pure helpers'],
    'declined': ['OneToOne.__init__ duplicate handling', 'exact inverse after every history (value-level)'],
    'trusted_base': ['CPython: dict.X(self, ...) and C-level inherited mutators bypass overridden methods'],
    'assumptions': ['keys and values hashable unless stated'],
    'exhaustive': True,
}

SPEC['explanation'] += ' T2.empty: a ManyToMany entry created on demand is filled on the spot (no empty set left behind).'
SPEC['decided'] += ['no empty entries through setdefault']
MANIFEST = {
    'technique': 'paired-write analysis over all CFG paths; freshness (no foreign alias) and guarded-store checks; MRO closure of raising mutators; order-insensitive-aggregate check on the hash',
    'text': ('Decides necessary structural conditions of C17 on all paths: both directions of OneToOne/ManyToMany are '
             'written together with the evictions needed to stay one-to-one, no set of another instance is aliased, '
             'no dict mutator reaches a FrozenDict\'s storage, the hash is insertion-order independent. Behavioural '
             'inverse-equality for every history is not decided.'),
    'note': 'Trusted: CPython dict C-API behaviour. Loops unrolled 0..2.',
}


def run(ctx):
    from rules.common import check_sentinel_default as _csd
    _csd(ctx, ctx.program, ctx.program.func('dictutils.OneToOne.pop'), recv=ctx.program.cls('dictutils.OneToOne'))
    from rules.common import require_fields
    require_fields(ctx.program, 'dictutils.OneToOne', ['inv'])
    require_fields(ctx.program, 'dictutils.ManyToMany', ['data', 'inv'])
    bimap.check_onetoone(ctx, 'dictutils.OneToOne')
    onepass.check(ctx, ctx.program.func('dictutils.OneToOne.update'), 'dict_or_iterable',
                  recv=ctx.program.cls('dictutils.OneToOne'))
    bimap.check_manytomany(ctx, 'dictutils.ManyToMany')
    bimap.check_no_empty_entry(ctx, 'dictutils.ManyToMany')
    bimap.check_frozendict(ctx, 'dictutils.FrozenDict')
    for r, n in (('T1', 7), ('T2', 8), ('T3', 1), ('T2m', 8), ('T1f', 7), ('T22', 1), ('T8f', 4)):
        ctx.need(r, n)
