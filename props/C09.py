"""C09 -- chunking / windowing / splitting helpers (structural clauses)."""
import ast
import copy
from sa.index import AnalysisError, FuncInfo
from sa.paths import call_name
from rules.common import returned_values, list_delegation, txt, paths_of, loc, tests_on, Quiet
from rules import onepass

M = 'iterutils'
SPEC = {
    'explanation': (
        'Static analysis of the iterutils chunking/windowing/splitting helpers. T17: each list-returning form is syntactically '
        'list(<iterator form>(same parameters)) (chunked additionally islice()d by count; pairwise(_iter) = windowed(_iter) with '
        'size 2 and fill=end; strip_iter = rstrip_iter(lstrip_iter(..)); partition reads the True/False buckets of bucketize), so '
        '"the *_iter forms yield the same items as the list forms" holds by construction for every input. T3: src/iterable is '
        'traversed at most once on every path of split_iter, lstrip_iter, rstrip_iter, chunked_iter, windowed_iter, unique_iter, '
        'redundant and bucketize (one-shot iterators are conserved). T16: every yield of split_iter is a list of *elements* of '
        'src (never the source wrapped in a list). T2: in split_iter the split counter is incremented exactly when a group is '
        'yielded (separators swallowed by sep=None grouping do not use up maxsplit). T7: every range yielded by chunk_ranges ends '
        'at min(.., input_stop) and chunked_iter consults the fill flag before every yield (all source types padded alike). T23: '
        'unique_iter updates its seen-set whenever the membership guard passes. Not decided: chunk sizes/contents, window '
        'contents, agreement with str.split, chunk_ranges arithmetic, bucket contents (value-level).'
        ' T26: redundant/unique_iter/bucketize take no presence decision on a None-defaulted .get(). T9.tees: with fill, StopIteration from advancing a tee is handled inside the per-tee loop.'
        ' T25.keyattr: the getattr(x, key, fallback) key functions of the sibling helpers agree (fallback is the element). T17 delegations are decided on the returned value of every path.'
        ' T10e: element conservation (split_iter, lstrip_iter, chunked_iter, unique_iter, bucketize).'),
    'decided': ['element conservation', 'sibling key-function agreement', 'no presence decision on .get() None', 'per-tee StopIteration handling', 'T17 list form == list(iter form)', 'T3 one pass over the source', 'T16 yield depth in split_iter',
                'T2 split counter paired with yields', 'T7 range end clamped / fill consulted before each yield', 'T23 first-seen idiom'],
    'declined': ['element conservation and chunk sizes as values', 'agreement with str.split/strip', 'chunk_ranges arithmetic'],
    'trusted_base': ['itertools.islice/tee/zip semantics'], 'assumptions': [], 'exhaustive': True,
}
SPEC['explanation'] += " T19t: split_iter recognises an omitted sep / maxsplit by identity, never by truthiness (0, '' and False are separators; maxsplit=0 is a bound). T25.stride: chunk_ranges aligns the first chunk modulo the same stride the range loop steps by."
SPEC['decided'] += ['None-default parameters never tested by truthiness', 'alignment modulus == stride']
SPEC['explanation'] += ' T20.nocache: the functions that build a fresh list / dict / generator per call are not memoised.'
SPEC['decided'] += ['results are fresh per call (no memoising decorator)']
MANIFEST = {
    'technique': 'syntactic delegation check, consumption-count (one-pass) dataflow, nesting-depth and pairing checks on CFG paths, dominating-guard checks',
    'text': ('Decides by construction that list and iterator forms agree, that a one-shot source is traversed once, and a few '
             'shape conditions behind known boundary defects (maxsplit=0 depth, maxsplit budget, unclamped first range, unpadded '
             'str chunks). The universally quantified value-level laws are not decided (partial).'),
    'note': 'Trusted: itertools semantics.',
}

DELEG = [
    ('split', 'split_iter', None), ('lstrip', 'lstrip_iter', None), ('rstrip', 'rstrip_iter', None), ('strip', 'strip_iter', None),
    ('windowed', 'windowed_iter', None), ('unique', 'unique_iter', None),
]


def _ancestors(par, n):
    while n in par:
        n = par[n]
        yield n


def bound_args(call, callee):
    got = {}
    params = callee.params
    for i, a in enumerate(call.args):
        if i < len(params):
            got[params[i]] = txt(a)
    for k in call.keywords:
        got[k.arg] = txt(k.value)
    return got


def run(ctx):
    from rules.common import check_not_memoised as _cnm
    _cnm(ctx, [ctx.program.func(n) for n in ['iterutils.split', 'iterutils.split_iter', 'iterutils.chunked', 'iterutils.chunked_iter', 'iterutils.chunk_ranges', 'iterutils.windowed', 'iterutils.windowed_iter', 'iterutils.unique', 'iterutils.unique_iter', 'iterutils.bucketize', 'iterutils.partition', 'iterutils.lstrip', 'iterutils.rstrip', 'iterutils.strip', 'iterutils.lstrip_iter', 'iterutils.rstrip_iter', 'iterutils.strip_iter', 'iterutils.pairwise', 'iterutils.pairwise_iter']])
    prog = ctx.program
    for lst, it, _ in DELEG:
        f, g = prog.func('%s.%s' % (M, lst)), prog.func('%s.%s' % (M, it))
        dl = list_delegation(prog, f, g)
        ok = bool(dl) and all(got is not None and got == {p: p for p in g.params if p in f.params} for got, _ in dl) and \
            set(g.params) <= set(f.params)
        det = str([got for got, _ in dl][:2])
        ctx.ob('T17', f.fq, '%s(args) is list(%s(same args))' % (lst, it), ok, loc=f.loc, detail=det)
    # chunked
    f, g = prog.func(M + '.chunked'), prog.func(M + '.chunked_iter')
    src = ast.unparse(f.node)
    # decided on the value returned by every path (locals and call results substituted back)
    rv = returned_values(prog, f)
    forms = sorted(txt(e) for e, _, _ in rv)
    base = 'chunked_iter(src, size, **kw)'
    ok = bool(rv) and all(t == 'list(%s)' % base or
                          (t.startswith('list(') and 'islice(%s, count)' % base in t.replace('itertools.', '')) for t in forms) and \
        any('islice(' in t for t in forms) and any(t == 'list(%s)' % base for t in forms)
    ctx.ob('T17', f.fq, 'chunked is list(chunked_iter(src, size, **kw)), cut to `count` chunks by islice when count is given', ok, loc=f.loc, detail=str(forms))
    for name, callee, args in (('pairwise', 'windowed', {'src': 'src', 'size': '2', 'fill': 'end'}),
                               ('pairwise_iter', 'windowed_iter', {'src': 'src', 'size': '2', 'fill': 'end'})):
        f, g = prog.func('%s.%s' % (M, name)), prog.func('%s.%s' % (M, callee))
        rv = returned_values(prog, f)
        ok = bool(rv) and all(isinstance(e, ast.Call) and call_name(e) == callee and bound_args(e, g) == args for e, _, _ in rv)
        ctx.ob('T17', f.fq, '%s is %s(src, 2, fill=end)' % (name, callee), ok, loc=f.loc, detail=str([txt(e) for e, _, _ in rv]))
    f = prog.func(M + '.strip_iter')
    rv = returned_values(prog, f)
    ok = bool(rv) and all(txt(e) == 'rstrip_iter(lstrip_iter(iterable, strip_value), strip_value)' for e, _, _ in rv)
    ctx.ob('T17', f.fq, 'strip_iter is rstrip_iter(lstrip_iter(iterable, strip_value), strip_value)', ok, loc=f.loc,
           detail=str([txt(e) for e, _, _ in rv]))
    f = prog.func(M + '.partition')
    rv = returned_values(prog, f)
    B = 'bucketize(src, key)'
    ok = bool(rv) and all(isinstance(e, ast.Tuple) and [txt(x) for x in e.elts] == ['%s.get(True, [])' % B, '%s.get(False, [])' % B]
                          for e, _, _ in rv)
    ctx.ob('T17', f.fq, 'partition returns the True and False buckets of bucketize(src, key)', ok, loc=f.loc,
           detail=str([txt(e) for e, _, _ in rv]))
    # T3
    for name, param in (('split_iter', 'src'), ('lstrip_iter', 'iterable'), ('rstrip_iter', 'iterable'), ('chunked_iter', 'src'),
                        ('windowed_iter', 'src'), ('unique_iter', 'src'), ('redundant', 'src'), ('bucketize', 'src')):
        onepass.check(ctx, prog.func('%s.%s' % (M, name)), param)
    onepass.first_seen(ctx, prog.func(M + '.unique_iter'))
    # sibling agreement: the string form of `key` is resolved alike in every helper that accepts it: an element lacking the
    # attribute stands for itself (a constant fallback would merge all such elements into one key)
    n_ga = 0
    for fname, f in sorted(prog.module(M).functions.items()):
        if 'key' not in f.params:
            continue
        for n in ast.walk(f.node):
            if isinstance(n, ast.Call) and call_name(n) == 'getattr' and len(n.args) == 3 and txt(n.args[1]) == 'key':
                n_ga += 1
                ctx.ob('T25.keyattr', f.fq, 'an element without the attribute named by `key` is keyed by itself (as in the sibling helpers)',
                       txt(n.args[2]) == txt(n.args[0]), loc=loc(f, n), detail=txt(n))
    if n_ga < 2:
        # the siblings may share one private factory for the key function: then there is a single site, judged alike
        shared = []
        for fname, f in sorted(prog.module(M).functions.items()):
            if not fname.startswith('_') or len(f.params) != 1:
                continue
            for n in ast.walk(f.node):
                if isinstance(n, ast.Call) and call_name(n) == 'getattr' and len(n.args) == 3 and txt(n.args[1]) == f.params[0]:
                    users = [g for g in prog.module(M).functions.values() if 'key' in g.params and any(
                        isinstance(c, ast.Call) and call_name(c) == fname for c in ast.walk(g.node))]
                    if len(users) >= 2:
                        shared.append((f, n, users))
        for f, n, users in shared:
            n_ga += len(users)
            ctx.ob('T25.keyattr', f.fq, 'an element without the attribute named by the key is keyed by itself (one factory shared by %d '
                   'helpers)' % len(users), txt(n.args[2]) == txt(n.args[0]), loc=loc(f, n), detail=txt(n))
    if n_ga < 2:
        ctx.unknown('T25.keyattr', M, 'fewer than two getattr(x, key, <fallback>) sites found (%d)' % n_ga, 'boltons/iterutils.py')
    # T10e element conservation (rules/conserve.py) for the helpers that keep every element they do not filter out.
    # rstrip_iter (trailing run is held back and dropped on purpose) and redundant (first occurrences are remembered, only
    # repeats are reported) are regrouping helpers of a different kind and are not subjects of this rule.
    from rules.conserve import element_conservation
    for name, param in (('split_iter', 'src'), ('lstrip_iter', 'iterable'), ('chunked_iter', 'src'), ('unique_iter', 'src'),
                        ('bucketize', 'src')):
        element_conservation(ctx, prog, prog.func('%s.%s' % (M, name)), param)
    from rules.common import check_get_none_presence
    for name in ('redundant', 'unique_iter', 'bucketize'):
        check_get_none_presence(ctx, prog.func('%s.%s' % (M, name)))
    # windowed_iter with fill: an exhausted tee must not stop the staggering of the *later* tees.  Decided on paths (helpers
    # inlined, next() may raise StopIteration): on every path that reaches zip_longest, a StopIteration caught while the tees
    # are being advanced is followed by another step of the loop over the tees (the loop is not abandoned)
    wi = prog.func(M + '.windowed_iter')
    TEES = {t.id for n in ast.walk(wi.node) if isinstance(n, ast.Assign) and isinstance(n.value, ast.Call) and
            call_name(n.value) in ('itertools.tee', 'tee') for t in n.targets if isinstance(t, ast.Name)}
    tee_loops = [n for n in ast.walk(wi.node) if isinstance(n, ast.For) and any(isinstance(x, ast.Name) and x.id in TEES for x in ast.walk(n.iter))]

    class NextRaises(Quiet):
        def call_raises(self, walker, op, st):
            return ('StopIteration',) if call_name(op.val) == 'next' else ()

        def inline(self, walker, op, callee, st):
            from rules.locks import is_module_helper
            return callee.cls is None and is_module_helper(op, callee)
    wt_, tpaths = paths_of(prog, wi, model=NextRaises(prog))
    n_fill = 0
    bad = None
    for p in tpaths:
        zl = [o for o in p.ops if o.kind == 'call' and 'zip_longest' in call_name(o.val)]
        if not zl:
            continue
        n_fill += 1
        for i, o in enumerate(p.ops):
            if o.kind == 'except' and o.info == 'StopIteration' and o.seq < zl[0].seq:
                resumed = any(x.kind == 'iter_next' and any(x.node is tl for tl in tee_loops) and o.seq < x.seq < zl[0].seq for x in p.ops)
                if not resumed and bad is None:
                    bad = (p, o)
    if not TEES or not tee_loops:
        ctx.unknown('T9.tees', wi.fq, 'no tee(...) result / loop over the tees found', wi.loc)
    elif n_fill == 0:
        ctx.unknown('T9.tees', wi.fq, 'no path reaches zip_longest(...) (the fill form)', wi.loc)
    else:
        ctx.ob('T9.tees', wi.fq, 'with fill, StopIteration from advancing one tee is handled inside the per-tee loop (later tees are '
               'still staggered)', bad is None, loc=loc(wi, bad[1].node) if bad else wi.loc, path=bad[0].describe() if bad else None,
               detail='%d paths reach zip_longest' % n_fill)
    # split_iter
    sp = prog.func(M + '.split_iter')
    # the split counter, by role: the local that is compared with the maxsplit parameter
    COUNTERS = set()
    for n in ast.walk(sp.node):
        if isinstance(n, ast.Compare) and len(n.ops) == 1:
            l, r = n.left, n.comparators[0]
            for a, b in ((l, r), (r, l)):
                if isinstance(a, ast.Name) and a.id == 'maxsplit' and isinstance(b, ast.Name) and b.id not in sp.params:
                    COUNTERS.add(b.id)
    if not COUNTERS:
        ctx.unknown('T2.split', sp.fq, 'no local compared with maxsplit found (split counter)', sp.loc)
    w, paths = paths_of(prog, sp)
    seen_y = set()
    for p in paths:
        ops = p.ops
        for o in ops:
            if o.kind == 'yield':
                key = o.line
                v = o.val
                e = w.expand(v)
                t = txt(e)
                depth_ok = None
                if isinstance(v, ast.Name) and v.id.startswith('$l'):
                    info = w.tokens.get(v.id)
                    if info and info[0] == 'fresh' and info[1] == 'list':
                        elts = [txt(x) for x in info[3]]
                        depth_ok = 'src' not in elts
                        t = 'list literal %s' % elts
                elif t in ('list(src)', 'list(iter(src))'):
                    depth_ok = True
                if depth_ok is not None and (key, depth_ok) not in seen_y:
                    seen_y.add((key, depth_ok))
                    ctx.ob('T16', sp.fq, 'yield at line %d yields a list of elements of src (%s), not the source wrapped in a list' % (o.line, t),
                           depth_ok, loc=loc(sp, o.node))
        # split counter paired with yields, per loop iteration
        bounds = [o.seq for o in ops if o.kind == 'iter_next'] + [10 ** 9]
        for a, b in zip(bounds, bounds[1:]):
            seg = [o for o in ops if a < o.seq < b]
            # an increment: `c += n`, or `c = <old c> + n` (a store of a sum into the counter; the initialisation stores a constant)
            incs = [o for o in seg if (o.kind == 'aug' and txt(o.node.target) in COUNTERS) or
                    (o.kind == 'name_store' and isinstance(o.node, ast.Name) and o.node.id in COUNTERS and
                     isinstance(o.val, ast.BinOp) and isinstance(o.val.op, ast.Add))]
            _seen_ln = set()
            incs = [o for o in incs if not (o.line in _seen_ln or _seen_ln.add(o.line))]      # `c += n` shows up as aug + store
            ys = [o for o in seg if o.kind == 'yield']
            last = b == 10 ** 9
            if incs or (ys and not last):
                ok = len(incs) == len(ys) or (last and len(incs) <= len(ys))
                ctx.ob('T2.split', sp.fq, 'within one iteration the split counter is incremented exactly when a group is yielded',
                       ok, loc=loc(sp, (incs + ys)[0].node), path=p.describe() if not ok else None)
    from rules.common import check_no_truthiness
    for prm in ('sep', 'maxsplit'):
        if prm not in sp.params:
            raise AnalysisError('anchor vanished: parameter %s of split_iter' % prm)
        check_no_truthiness(ctx, sp, prm, why='split([0, 1, 0], 0) splits on 0; maxsplit=0 means no split at all')
    # chunk_ranges: every yielded end is clamped
    cr = prog.func(M + '.chunk_ranges')
    # T25.stride: chunks start `chunk_size - overlap_size` apart; the alignment of the first chunk is computed modulo that same
    # stride (a different modulus puts every later chunk off the aligned boundaries)
    steps = [n.args[2] for n in ast.walk(cr.node) if isinstance(n, ast.Call) and call_name(n) == 'range' and len(n.args) == 3]
    mods = [n for n in ast.walk(cr.node) if isinstance(n, ast.BinOp) and isinstance(n.op, ast.Mod) and
            any(isinstance(x, ast.Name) and x.id == 'input_offset' for x in ast.walk(n.left))]
    if not steps or not mods:
        ctx.unknown('T25.stride', cr.fq, 'no range(..., step) loop / no `input_offset %% ...` alignment found', cr.loc)
    else:
        wc, _ = paths_of(prog, cr)
        assigns = {}
        for n in ast.walk(cr.node):
            if isinstance(n, ast.Assign) and len(n.targets) == 1 and isinstance(n.targets[0], ast.Name):
                assigns.setdefault(n.targets[0].id, []).append(n.value)

        def resolve(e):
            # a single-assignment local stands for its value
            e = copy.deepcopy(e)
            for _ in range(4):
                class R(ast.NodeTransformer):
                    def visit_Name(self, nd):
                        vs = assigns.get(nd.id)
                        if vs and len(vs) == 1 and nd.id not in cr.params:
                            return copy.deepcopy(vs[0])
                        return nd
                e = R().visit(e)
            return txt(e).replace('(', '').replace(')', '')
        st = resolve(steps[0])
        for m in mods:
            ctx.ob('T25.stride', cr.fq, 'the alignment of the first chunk is computed modulo the stride between chunk starts (`%s`)' % st,
                   resolve(m.right) == st, loc=loc(cr, m), detail='modulus `%s`' % resolve(m.right))
    def is_stop_expr(e):
        return isinstance(e, ast.BinOp) and isinstance(e.op, ast.Add) and {txt(e.left), txt(e.right)} == {'input_offset', 'input_size'}
    # the end of the input, by role: a local assigned once, before any rebinding of input_offset, from input_offset + input_size
    STOPS = set()
    # (a validating rebind `input_offset = check(input_offset, ...)` keeps the value and does not count)
    rebinds = [n.lineno for n in ast.walk(cr.node) if isinstance(n, ast.Assign) and any(txt(t) == 'input_offset' for t in n.targets)
               and not (isinstance(n.value, ast.Call) and any(txt(a) == 'input_offset' for a in n.value.args))]
    rebinds += [n.lineno for n in ast.walk(cr.node) if isinstance(n, ast.AugAssign) and txt(n.target) == 'input_offset']
    for n in ast.walk(cr.node):
        if isinstance(n, ast.Assign) and len(n.targets) == 1 and isinstance(n.targets[0], ast.Name) and is_stop_expr(n.value) and \
                all(n.lineno < ln for ln in rebinds):
            nm = n.targets[0].id
            if sum(1 for x in ast.walk(cr.node) if isinstance(x, ast.Name) and x.id == nm and isinstance(x.ctx, ast.Store)) == 1:
                STOPS.add(nm)

    def is_stop(e):
        return (isinstance(e, ast.Name) and e.id in STOPS) or (is_stop_expr(e) and not rebinds)
    n_end = 0
    for n in ast.walk(cr.node):
        if isinstance(n, ast.Yield) and isinstance(n.value, ast.Tuple) and len(n.value.elts) == 2:
            end = n.value.elts[1]
            t = txt(end)
            n_end += 1
            ok = (isinstance(end, ast.Call) and call_name(end) == 'min' and any(is_stop(a) for a in end.args)) or is_stop(end)
            ctx.ob('T7.end', cr.fq, 'yielded range end `%s` is clamped to the end of the input (input_offset + input_size)' % t, ok,
                   loc=loc(cr, n), detail='names holding the input end: %s' % sorted(STOPS))
    if n_end == 0:
        ctx.unknown('T7.end', cr.fq, 'no yield of a (start, end) pair found', cr.loc)
    # T7.stop: the loop over chunk starts runs up to the end of the input; a bound shortened by a non-negative amount (the overlap, the
    # chunk size, a constant) yields nothing at all for an input no longer than that amount
    for n in ast.walk(cr.node):
        if isinstance(n, ast.For) and isinstance(n.iter, ast.Call) and call_name(n.iter) == 'range' and len(n.iter.args) >= 2 and \
                any(isinstance(y, ast.Yield) for y in ast.walk(n)):
            b = n.iter.args[1]
            if isinstance(b, ast.Name) and b.id not in STOPS and b.id not in cr.params:     # a local bound once stands for its value
                defs = [a.value for a in ast.walk(cr.node) if isinstance(a, ast.Assign) and len(a.targets) == 1 and txt(a.targets[0]) == b.id]
                n_st = sum(1 for x in ast.walk(cr.node) if isinstance(x, ast.Name) and x.id == b.id and isinstance(x.ctx, ast.Store))
                if len(defs) == 1 and n_st == 1:
                    b = defs[0]
            short = isinstance(b, ast.BinOp) and isinstance(b.op, ast.Sub) and is_stop(b.left) and (
                (isinstance(b.right, ast.Name) and b.right.id in cr.params) or
                (isinstance(b.right, ast.Constant) and isinstance(b.right.value, (int, float)) and b.right.value > 0))
            if is_stop(b) or short:
                ctx.ob('T7.stop', cr.fq, 'the loop over chunk starts runs up to the end of the input (`%s`)' % txt(b), not short, loc=loc(cr, n),
                       detail='a bound of end - x yields no chunk for an input no longer than x')
    # chunked_iter: fill consulted before every yield
    ci = prog.func(M + '.chunked_iter')
    # names that carry "was fill given / what is it", by role: everything bound by the statement that reads the 'fill' option
    FILLS = set()
    for n in ast.walk(ci.node):
        if isinstance(n, (ast.Try, ast.Assign, ast.If)) and any(isinstance(c, ast.Constant) and c.value == 'fill' for c in ast.walk(n)):
            stmts = [n] if not isinstance(n, ast.If) else [n]
            for st in stmts:
                FILLS |= {x.id for x in ast.walk(st) if isinstance(x, ast.Name) and isinstance(x.ctx, ast.Store)}
    if not FILLS:
        ctx.unknown('T7.fill', ci.fq, "no statement reading the 'fill' option found", ci.loc)
    w, paths = paths_of(prog, ci)
    n_y = 0
    for p in paths:
        ops = p.ops
        for o in ops:
            if o.kind == 'yield':
                n_y += 1
                start = max([x.seq for x in ops if x.kind in ('loop_iter', 'iter_next') and x.seq < o.seq] or [-1])
                seg = [x for x in ops if start < x.seq < o.seq and x.kind == 'test']
                # either the fill flag was consulted, or the chunk was found to be full (`len < size` false: nothing to pad)
                def chunk_full(x):
                    # a comparison of the chunk length with `size` whose outcome on this path says "not shorter than size"
                    n = x.node
                    if not (isinstance(n, ast.Compare) and len(n.ops) == 1):
                        return False
                    l, r, op = txt(n.left), txt(n.comparators[0]), type(n.ops[0])
                    if r != 'size' and l == 'size':
                        op = {ast.Lt: ast.Gt, ast.Gt: ast.Lt, ast.LtE: ast.GtE, ast.GtE: ast.LtE}.get(op, op)
                    elif r != 'size':
                        return False
                    if op in (ast.Lt, ast.NotEq):
                        return x.info is False
                    if op in (ast.GtE, ast.Eq):
                        return x.info is True
                    return False
                ok = any(FILLS & {y.id for y in ast.walk(x.node) if isinstance(y, ast.Name)} for x in seg) or any(chunk_full(x) for x in seg)
                ctx.ob('T7.fill', ci.fq, 'every chunk is yielded only after the fill flag was consulted for it (all source types padded alike)',
                       ok, loc=loc(ci, o.node), path=p.describe() if not ok else None)
    if n_y == 0:
        ctx.unknown('T7.fill', ci.fq, 'no yield found', ci.loc)
    # T9.nonempty: a chunk is known to be non-empty before it is padded or yielded (an exhausted source must not produce a chunk of fill values)
    CH, LEN = set(), set()
    for n in ast.walk(ci.node):
        if isinstance(n, (ast.Assign, ast.NamedExpr)) and any(isinstance(c, ast.Call) and call_name(c) in ('islice', 'itertools.islice')
                                                               for c in ast.walk(n.value)):
            for t in (n.targets if isinstance(n, ast.Assign) else [n.target]):
                if isinstance(t, ast.Name):
                    CH.add(t.id)
    for n in ast.walk(ci.node):
        if isinstance(n, ast.Assign) and isinstance(n.value, ast.Call) and call_name(n.value) == 'len' and n.value.args \
                and isinstance(n.value.args[0], ast.Name) and n.value.args[0].id in CH:
            LEN |= {t.id for t in n.targets if isinstance(t, ast.Name)}

    def _is_len(e):
        return (isinstance(e, ast.Name) and e.id in LEN) or (isinstance(e, ast.Call) and call_name(e) == 'len' and e.args
                                                             and isinstance(e.args[0], ast.Name) and e.args[0].id in CH)

    def _nonempty(x):
        n, out = x.node, x.info
        while isinstance(n, ast.UnaryOp) and isinstance(n.op, ast.Not):
            n, out = n.operand, (not out if out is not None else None)
        if isinstance(n, ast.NamedExpr):
            n = n.target
        if (isinstance(n, ast.Name) and n.id in CH) or _is_len(n):
            return out is True
        if isinstance(n, ast.Compare) and len(n.ops) == 1:
            l, r, op = n.left, n.comparators[0], type(n.ops[0])
            if not _is_len(l) and _is_len(r):
                l, r = r, l
                op = {ast.Lt: ast.Gt, ast.Gt: ast.Lt, ast.LtE: ast.GtE, ast.GtE: ast.LtE}.get(op, op)
            if isinstance(l, ast.Name) and l.id in CH and isinstance(r, (ast.List, ast.Tuple)) and not r.elts:
                return (op is ast.NotEq and out is True) or (op is ast.Eq and out is False)
            if _is_len(l) and isinstance(r, ast.Constant) and isinstance(r.value, int) and not isinstance(r.value, bool):
                k = r.value
                if op is ast.Eq:
                    return (k == 0 and out is False) or (k >= 1 and out is True)
                if op is ast.NotEq:
                    return k == 0 and out is True
                if op is ast.Gt:
                    return k >= 0 and out is True
                if op is ast.GtE:
                    return k >= 1 and out is True
                if op is ast.Lt:
                    return k <= 1 and out is False
                if op is ast.LtE:
                    return k <= 0 and out is False
            if _is_len(l) and txt(r) == 'size':          # size is validated >= 1: a full chunk is not empty
                return (op in (ast.Eq, ast.GtE) and out is True) or (op in (ast.Lt, ast.NotEq) and out is False)
        return False

    def _pads(x):
        if x.kind == 'sub_store':
            v = x.node.value if isinstance(x.node, ast.Subscript) else None
            return isinstance(v, ast.Name) and v.id in CH
        if x.kind == 'aug':
            t = x.node.target
            return isinstance(t, ast.Name) and t.id in CH
        if x.kind == 'call' and isinstance(x.node.func, ast.Attribute) and x.node.func.attr in ('extend', 'append', 'insert'):
            v = x.node.func.value
            return isinstance(v, ast.Name) and v.id in CH
        return False
    if CH:
        for p in paths:
            ops = p.ops
            for o in ops:
                if o.kind != 'yield':
                    continue
                born = max([x.seq for x in ops if x.seq < o.seq and x.kind == 'name_store' and isinstance(x.node, ast.Name)
                            and x.node.id in CH] or [-1])
                if born < 0:
                    continue
                seg = [x for x in ops if born < x.seq < o.seq]
                first_pad = min([x.seq for x in seg if _pads(x)] or [o.seq])
                ok = any(x.kind == 'test' and x.seq < first_pad and _nonempty(x) for x in seg)
                ctx.ob('T9.nonempty', ci.fq, 'a chunk is known to be non-empty before it is padded and yielded (an exhausted source yields no chunk '
                       'of fill values)', ok, loc=loc(ci, o.node), path=p.describe() if not ok else None)
    else:
        ctx.notes.append('T9.nonempty: no chunk built with islice in chunked_iter; rule not applicable to this form')
    for r, n in (('T17', 11), ('T3', 8), ('T16', 2), ('T2.split', 1), ('T7.end', 2), ('T7.fill', 1), ('T23', 1)):
        ctx.need(r, n)
