"""C05 -- a failed or refused atomic_save leaves the destination intact and cleans up."""
from rules import atomicsave

SPEC = {
    'explanation': (
        'Static failure-path analysis of fileutils.AtomicSaver on the same inlined composite paths as C04, with an '
        'exception edge at every OS / file-object call (single faults, and second faults inside cleanup handlers). '
        'Decided: R1 every exceptional exit after the part file was created (setup) and every failing or '
        'body-raised exit of __exit__ attempts unlink(part_path) unless rm_part_on_exc tested false, and setup '
        'closes what it opened; R2 __exit__ returns a falsy constant on every path and never returns normally '
        'after a flush/fsync/close/publish failure when the body succeeded; R3 creation is control-dependent on '
        '"destination absent or overwrite"; R4 unlink of a pre-existing part file is control-dependent on '
        'overwrite_part (with O_EXCL: never reused otherwise); R5 a clobbering rename onto the destination only '
        'under overwrite, else os.link; R6 permission provenance explicit > replaced file > default-without-chmod '
        'by reaching definitions at os.open/os.chmod. Destination-untouched-on-failure is C04.O5. Not decided: umask '
        'arithmetic, simultaneous independent faults beyond one fault plus one cleanup fault.'
        ' R4b: no cleanup handler covers the exclusive os.open of the part file itself.'),
    'decided': ['foreign part file untouched on failed create', 'R1 cleanup on all exceptional exits', 'R2 never silent', 'R3 early refusal', 'R4 part-file protection',
                'R5 no-clobber publication', 'R6 permission provenance'],
    'declined': ['umask arithmetic', 'arbitrary fault pairs outside cleanup handlers', 'Windows branch'],
    'trusted_base': ['link(2) fails atomically with EEXIST', 'O_EXCL semantics', 'OS calls fail only with OSError'],
    'assumptions': ['faults are exceptions raised by os.* / fcntl.* / file-object calls'],
    'exhaustive': True,
}

SPEC['explanation'] += ' R4x: every flags value reaching the os.open of the part file folds to O_CREAT|O_EXCL with write access and no O_TRUNC (values stored relative to the field are evaluated on every earlier value): a stale part file, possibly a hard link of the destination, is never reused.'
SPEC['decided'] += ['exclusive creation flags on every path']
MANIFEST = {
    'technique': 'cleanup-on-all-exits and never-silent analysis over enumerated CFG paths with an exception edge at every OS call; control-dependence and reaching-definition checks',
    'text': ('Enumerates every fault point (each os.*/file-object call in setup, _open_part_file, __exit__, atomic_rename) '
             'as an exception edge and decides, for every resulting path, that the part file is removed (unless '
             'rm_part_on_exc is off), the caller gets an exception, refusal precedes creation, a foreign part file is '
             'protected, publication does not clobber without overwrite, and permissions come from the right source. '
             'These failure paths cannot be provoked by ordinary tests. Not decided: umask arithmetic and '
             'arbitrary simultaneous faults.'),
    'note': 'Trusted: OS faults surface as OSError from the modelled calls; link(2)/O_EXCL semantics. POSIX branch only.',
}


def run(ctx):
    from rules.common import require_fields
    require_fields(ctx.program, 'fileutils.AtomicSaver', ['part_path', 'dest_path', 'part_file', 'open_flags', 'overwrite', 'overwrite_part', 'rm_part_on_exc', 'file_perms'])
    atomicsave.check_c05(ctx)
    for r, n in (('C05.R1', 8), ('C05.R1c', 3), ('C05.R2', 2), ('C05.R2s', 1), ('C05.R3', 1), ('C05.R4', 1),
                 ('C05.R5', 2), ('C05.R6', 3)):
        ctx.need(r, n)
