"""C18 -- spooled files / MultiFileReader (structural clauses)."""
import ast
from sa.index import AnalysisError, FuncInfo
from sa.paths import call_name, Model
from rules.common import txt, paths_of, loc, tests_on, Quiet

SPEC = {
    'explanation': (
        'Static analysis of ioutils. T8-restore: for the observers len / __len__ / getvalue / __eq__ of SpooledBytesIO and '
        'SpooledStringIO, on every normal path each position component they disturb (the backing buffer position; for the '
        'string class also the code-point position _tell, disturbed by self.read/readline/iteration) is re-established from a '
        'value saved before the disturbance (self.seek(saved self.tell()) restores both; buffer.seek(saved buffer.tell()) the '
        'byte position; self._tell = saved the code-point position). T15-qualifier: every value added to / stored in '
        'SpooledStringIO._tell counts code points (len of str values), never len of encoded bytes. T9 rollover (both classes): '
        'old position read, content copied, tmp.seek(pos), all before self._buffer = tmp; write compares with _max_size before '
        'writing; a descriptor-level size query (os.fstat) is preceded on every path by a flushing seek/flush. T18 MultiFileReader.seek resets the current-file index and rewinds every member file (loop over the whole '
        '_fileobjs). Both concrete spooled classes define every abstract method/property of SpooledIOBase. Not decided: '
        'equality with io.BytesIO/StringIO for every history, code-point arithmetic in seek, EncodedFile read-ahead.'
        ' T2.seek: SpooledStringIO.seek moves byte and code-point position together.'),
    'decided': ['seek moves both components', 'flush before descriptor-level size query', 'observer restore of every disturbed position component', '_tell counts code points', 'rollover ordering',
                'MultiFileReader.seek resets index and all files', 'abstract API completeness'],
    'declined': ['behavioural equality with io classes', 'seek arithmetic', 'codec read-ahead beyond the observers (rollover after readline)'],
    'trusted_base': ['io file object seek/tell semantics'], 'assumptions': [], 'exhaustive': True,
}
SPEC['explanation'] += ' T8r (string class): a raw byte position from buffer.tell() saves nothing, because the decoder on top of the byte stream reads ahead; the position is restored by a code-point seek to the saved _tell.'
SPEC['decided'] += ['decoder read-ahead: no raw-position restore in the string class']
SPEC['explanation'] += ' T9.tellafter: SpooledStringIO.write advances _tell only after the data is in the buffer.'
SPEC['decided'] += ['position advanced after the write']
SPEC['explanation'] += ' T12.lines: SpooledStringIO cuts lines at the io boundaries only (no str.splitlines).'
SPEC['decided'] += ['line boundaries of the text class']
MANIFEST = {
    'technique': 'save/disturb/restore typestate over all CFG paths per position component; unit (code point vs byte) qualifier check; ordering and reset-completeness checks',
    'text': ('Decides necessary structural conditions of C18: read-only queries leave both position components where they '
             'were, the code-point position is never advanced by a byte count, rollover carries content and position over '
             'before switching buffers, MultiFileReader.seek(0) fully rewinds. Behavioural equality with io.* for every '
             'history is not decided (partial).'),
    'note': 'Trusted: seek/tell semantics of the backing buffers.',
}

DISTURB = {'read', 'readline', 'readlines', 'write', '__next__', 'next', 'truncate', 'writelines'}


def observer_restore(ctx, prog, cls_fq, name, comps):
    ci = prog.cls(cls_fq)
    m = prog.resolve(ci, name)
    if not isinstance(m, FuncInfo):
        raise AnalysisError('anchor vanished: %s.%s' % (cls_fq, name))
    w, paths = paths_of(prog, m, recv=ci)
    construct = '%s.%s' % (cls_fq, name)
    worst = None
    n_dist = 0
    for p in paths:
        if p.kind != 'return':
            continue
        state = {c: 'clean' for c in comps}       # clean | disturbed
        saved = {}                                # token text -> component(s) it saved, taken while clean
        for o in p.ops:
            v = o.val
            if o.kind == 'call' and isinstance(v.func, ast.Attribute):
                recv, attr = txt(v.func.value), v.func.attr
                if recv == 'self' and attr == 'tell':
                    tok = [nm for nm, info in w.tokens.items() if info[0] == 'call' and len(info) > 2 and info[2] is o]
                    if tok and all(state[c] == 'clean' for c in comps):
                        saved[tok[0]] = set(comps)
                elif recv == 'self.buffer' and attr == 'tell':
                    tok = [nm for nm, info in w.tokens.items() if info[0] == 'call' and len(info) > 2 and info[2] is o]
                    # the string class reads through a decoder that sits on the byte stream and reads ahead (readline,
                    # iteration): buffer.tell() is the stream's position, not the decoder's, so it saves nothing there
                    if tok and state['BYTE'] == 'clean' and 'TELL' not in comps:
                        saved[tok[0]] = {'BYTE'}
                elif recv == 'self' and attr == 'seek':
                    a0 = txt(v.args[0]) if v.args else ''
                    if a0 in saved and len(v.args) == 1:
                        for c in saved[a0]:
                            state[c] = 'clean'
                        # self.seek sets both components consistently
                        if set(comps) <= saved[a0]:
                            for c in comps:
                                state[c] = 'clean'
                    elif 'TELL' in comps and len(v.args) == 1 and a0 == 'self._tell' and \
                            any(k.startswith('self._tell@') for k in saved):
                        # seek to the code-point position saved while clean: re-establishes the byte position with it
                        for c in comps:
                            state[c] = 'clean'
                    else:
                        for c in comps:
                            state[c] = 'disturbed'
                            n_dist += 1
                elif recv == 'self.buffer' and attr == 'seek':
                    a0 = txt(v.args[0]) if v.args else ''
                    if a0 in saved and 'BYTE' in saved[a0] and len(v.args) == 1:
                        state['BYTE'] = 'clean'
                    else:
                        state['BYTE'] = 'disturbed'
                        n_dist += 1
                elif recv == 'self' and attr in DISTURB:
                    for c in comps:
                        state[c] = 'disturbed'
                        n_dist += 1
                elif recv == 'self.buffer' and attr in DISTURB:
                    state['BYTE'] = 'disturbed'
                    n_dist += 1
            elif o.kind == 'attr_load' and txt(v) == 'self._tell' and 'TELL' in comps:
                # value read while clean can be used to restore
                pass
            elif o.kind == 'name_store' and o.val is not None and txt(o.val) == 'self._tell' and 'TELL' in comps:
                if state['TELL'] == 'clean':
                    saved['self._tell@%d' % o.seq] = {'TELL'}
                    saved[o.node.id] = {'TELL'}
            elif o.kind == 'attr_store' and txt(v) == 'self._tell' and 'TELL' in comps:
                src = txt(o.info)
                # restored if the stored value is a name/token saved while clean
                if any(src == k for k in saved if 'TELL' in saved[k]) or (
                        src == 'self._tell' and False):
                    state['TELL'] = 'clean'
                else:
                    # the walker substitutes locals: a local bound to self._tell while clean shows up as `self._tell`
                    st_ok = src == 'self._tell' and any(k.startswith('self._tell@') for k in saved)
                    state['TELL'] = 'clean' if st_ok else 'disturbed'
            elif o.kind in ('iter_start',) and txt(v) in ('self',) or (o.kind == 'call' and call_name(o.node) in ('zip_longest', 'zip', 'list', 'iter')
                                                                       and any(txt(a) == 'self' for a in v.args)):
                for c in comps:
                    state[c] = 'disturbed'
                    n_dist += 1
        left = [c for c in comps if state[c] == 'disturbed']
        if left and worst is None:
            worst = (p, left)
    if worst:
        p, left = worst
        ctx.ob('T8r', construct, 'read-only query leaves position component(s) %s disturbed on a normal path (not restored from a '
               'value saved beforehand)' % left, False, loc=m.loc, path=p.describe())
    else:
        ctx.ob('T8r', construct, 'every disturbed position component (%s) is restored from a value saved before the disturbance, '
               'on all %d paths' % (', '.join(comps), len(paths)), True, loc=m.loc, nontrivial=n_dist > 0,
               detail='%d disturbing operations seen' % n_dist)


def run(ctx):
    from rules.common import require_fields
    require_fields(ctx.program, 'ioutils.SpooledStringIO', ['_tell', '_buffer'])
    require_fields(ctx.program, 'ioutils.SpooledBytesIO', ['_buffer'])
    require_fields(ctx.program, 'ioutils.MultiFileReader', ['_index', '_fileobjs'])
    prog = ctx.program
    # T12.lines: the text class never cuts lines with str.splitlines: it splits at \x0b \x0c \x1c-\x1e \x85 \u2028 \u2029 as well,
    # io.StringIO (the reference of the property) only at \n, \r and \r\n.  (bytes.splitlines has the io boundaries.)
    from sa.index import FuncInfo as _FI
    _ci = prog.cls('ioutils.SpooledStringIO')
    for _nm, _m in _ci.members.items():
        if not isinstance(_m, _FI):
            continue
        _bad = [c for c in ast.walk(_m.node) if isinstance(c, ast.Call) and isinstance(c.func, ast.Attribute) and c.func.attr == 'splitlines'
                and 'buffer' not in txt(c.func.value) and not any(isinstance(x, ast.Call) and isinstance(x.func, ast.Attribute) and
                                                                  x.func.attr == 'encode' for x in ast.walk(c.func.value))]
        if _nm in ('readline', 'readlines', '__next__', 'next', '__iter__') or _bad:
            ctx.ob('T12.lines', _m.fq, 'lines of the text class are cut at the io line boundaries (no str.splitlines, which also splits at '
                   '\\x0b, \\x0c, \\x1c-\\x1e, \\x85, \\u2028, \\u2029)', not _bad, loc=_m.loc, detail=txt(_bad[0])[:80] if _bad else '')
    for cls, comps in (('ioutils.SpooledBytesIO', ('BYTE',)), ('ioutils.SpooledStringIO', ('BYTE', 'TELL'))):
        for name in ('len', 'getvalue', '__eq__'):
            observer_restore(ctx, prog, cls, name, comps)
        ci = prog.cls(cls)
        ln = prog.resolve(ci, '__len__')
        ctx.ob('T8r', cls + '.__len__', '__len__ delegates to the len property', isinstance(ln, FuncInfo) and 'self.len' in ast.unparse(ln.node),
               loc=ln.loc if isinstance(ln, FuncInfo) else '')
        # abstract completeness
        base = prog.cls('ioutils.SpooledIOBase')
        for nm, mem in base.members.items():
            if isinstance(mem, FuncInfo) and any(d in ('abstractmethod', 'abstractproperty') for d in mem.decorators):
                own = ci.own(nm)
                ctx.ob('T1a', '%s.%s' % (cls, nm), 'abstract member of SpooledIOBase is implemented', isinstance(own, FuncInfo),
                       loc=ci.module.relpath + ':%d' % ci.node.lineno)
        # rollover ordering
        ro = prog.resolve(ci, 'rollover')
        from rules.common import PrivInl
        w, paths = paths_of(prog, ro, recv=ci, model=PrivInl(prog))
        n = 0
        for p in paths:
            sets = [o for o in p.ops if o.kind == 'attr_store' and txt(o.val) == 'self._buffer']
            if not sets:
                continue
            n += 1
            s = sets[0]
            calls = [(txt(o.val.func), o) for o in p.ops if o.kind == 'call' and isinstance(o.val.func, ast.Attribute)]
            def first(pred):
                return next((o for t, o in calls if pred(t, o)), None)
            tell = first(lambda t, o: t == 'self.buffer.tell')
            getv = first(lambda t, o: t in ('self.buffer.getvalue', 'self.buffer.read'))
            wr = first(lambda t, o: t.endswith('.write') and t.startswith('$'))
            sk = first(lambda t, o: t.endswith('.seek') and t.startswith('$'))
            ok = all(x is not None for x in (tell, getv, wr, sk)) and tell.seq < wr.seq < sk.seq < s.seq and getv.seq < wr.seq
            if ok:
                tok = [nm2 for nm2, info in w.tokens.items() if info[0] == 'call' and len(info) > 2 and info[2] is tell]
                ok = bool(tok) and sk.val.args and txt(sk.val.args[0]) == tok[0]
                ok = ok and txt(s.info) == txt(wr.val.func.value) == txt(sk.val.func.value)
            ctx.ob('T9.roll', '%s.rollover' % cls, 'rollover copies the content and the old position into the temporary file '
                   'before it becomes the buffer (tell < getvalue < write < seek(pos) < switch)', ok, loc=ro.loc,
                   path=p.describe() if not ok else None)
        if n == 0:
            ctx.unknown('T9.roll', '%s.rollover' % cls, 'no store to self._buffer found', ro.loc)
        wr = prog.resolve(ci, 'write')
        w, paths = paths_of(prog, wr, recv=ci)
        for p in paths:
            bw = [o for o in p.ops if o.kind == 'call' and txt(o.val.func) == 'self.buffer.write']
            if bw:
                tst = [o for o in p.ops if o.kind == 'test' and '_max_size' in txt(o.node) and o.seq < bw[0].seq]
                ctx.ob('T9.thresh', '%s.write' % cls, 'the size threshold is consulted before writing to the buffer', bool(tst), loc=wr.loc)
    # T9.tellafter: SpooledStringIO.write advances the code-point position only after the data is in the buffer (a rollover or a
    # write that fails must leave tell() where it was)
    sci = prog.cls('ioutils.SpooledStringIO')
    swr = prog.resolve(sci, 'write')
    from rules.common import PrivInl as _PI18
    w_, paths_ = paths_of(prog, swr, recv=sci, model=_PI18(prog))
    n_w = 0
    for p in paths_:
        bw = [o for o in p.ops if o.kind == 'call' and isinstance(o.val.func, ast.Attribute) and o.val.func.attr == 'write' and
              'buffer' in txt(w_.expand(o.val.func.value))]
        st = [o for o in p.ops if o.kind == 'attr_store' and txt(o.val) == 'self._tell']
        if bw and st:
            n_w += 1
            ok = all(s_.seq > bw[-1].seq for s_ in st)
            ctx.ob('T9.tellafter', swr.fq, 'the code-point position is advanced after the data was written (not before a step that can fail)',
                   ok, loc=loc(swr, st[0].node), path=p.describe() if not ok else None)
    if n_w == 0:
        ctx.unknown('T9.tellafter', swr.fq, 'no path with a buffer write and a _tell store found', swr.loc)
    # a size taken from the file descriptor (os.fstat / os.stat on fileno) sees only flushed data: on every path it is
    # preceded by a call that flushes the buffered temporary file (seek or flush on self / self.buffer)
    n_stat = 0
    for cls in ('ioutils.SpooledBytesIO', 'ioutils.SpooledStringIO'):
        ci = prog.cls(cls)
        for nm, mem in ci.members.items():
            if not isinstance(mem, FuncInfo) or not any(isinstance(x, ast.Call) and call_name(x) in ('os.fstat', 'os.stat')
                                                        for x in ast.walk(mem.node)):
                continue
            w, paths = paths_of(prog, mem, recv=ci)
            for p in paths:
                calls = [o for o in p.ops if o.kind == 'call']
                for o in calls:
                    if call_name(o.val) in ('os.fstat', 'os.stat'):
                        n_stat += 1
                        sync = [c for c in calls if c.seq < o.seq and isinstance(c.val.func, ast.Attribute) and
                                c.val.func.attr in ('seek', 'flush') and txt(c.val.func.value) in ('self', 'self.buffer', 'self._buffer')]
                        ctx.ob('T9.sync', '%s.%s' % (cls, nm), 'the size read from the file descriptor is taken after the buffered '
                               'temporary file was flushed (a seek/flush on the buffer precedes os.fstat on every path)', bool(sync),
                               loc=loc(mem, o.node), path=p.describe() if not sync else None)
    if n_stat == 0:
        ctx.info('T9.sync: no descriptor-level size query in the spooled classes (nothing to check)')
    # T2.seek: the two position components of SpooledStringIO move together: a path of seek() that repositions the byte buffer
    # (through _traverse_codepoints) also stores the code-point position, the traversal starts from a known byte position
    # (buffer.seek(0) for absolute targets, the current position for relative ones), and no path stores _tell without moving
    ssi = prog.cls('ioutils.SpooledStringIO')
    sk = prog.resolve(ssi, 'seek')
    wsk, skpaths = paths_of(prog, sk, recv=ssi)
    n_sk = 0
    for p in skpaths:
        if p.kind != 'return':
            continue
        trav = [o for o in p.ops if o.kind == 'call' and txt(o.val.func) == 'self._traverse_codepoints']
        tells = [o for o in p.ops if o.kind == 'attr_store' and txt(o.val) == 'self._tell']
        if not trav and not tells:
            continue
        n_sk += 1
        ok = bool(trav) and bool(tells)
        det = 'traversals %d, _tell stores %d' % (len(trav), len(tells))
        if ok:
            # a traversal that starts at code point 0 needs the byte buffer rewound first
            for t_ in trav:
                start = t_.val.args[0] if t_.val.args else None
                if start is not None and txt(wsk.expand(start)) == '0':
                    rew = [o for o in p.ops if o.seq < t_.seq and o.kind == 'call' and txt(o.val.func) == 'self.buffer.seek' and
                           o.val.args and txt(o.val.args[0]) == '0' and len(o.val.args) == 1]
                    if not rew:
                        ok = False
                        det = 'a traversal from code point 0 is not preceded by buffer.seek(0)'
        ctx.ob('T2.seek', sk.fq, 'seek() moves the byte position and the code-point position together (traverse + store of _tell; '
               'absolute traversals start from a rewound buffer)', ok, loc=sk.loc, detail=det, path=p.describe() if not ok else None)
    if n_sk == 0:
        ctx.unknown('T2.seek', sk.fq, 'no repositioning path found in seek()', sk.loc)
    # _tell unit
    sci = prog.cls('ioutils.SpooledStringIO')
    for nm, mem in sci.members.items():
        if not isinstance(mem, FuncInfo):
            continue
        w, paths = paths_of(prog, mem, recv=sci)
        seen = set()
        for p in paths:
            for o in p.ops:
                if o.kind == 'attr_store' and txt(o.val) == 'self._tell' and o.info is not None:
                    e = w.expand(o.info)
                    for c in ast.walk(e):
                        if isinstance(c, ast.Call) and call_name(c) == 'len' and c.args:
                            a = c.args[0]
                            at = txt(a)
                            if (at, o.line) in seen:
                                continue
                            seen.add((at, o.line))
                            is_bytes = (isinstance(a, ast.Call) and isinstance(a.func, ast.Attribute) and a.func.attr == 'encode') or \
                                (isinstance(a, ast.Call) and txt(a.func) in ('self.buffer.read', 'self.buffer.readline', 'self.buffer.readlines',
                                                                                'self.buffer.stream.read'))
                            ctx.ob('T15.unit', 'ioutils.SpooledStringIO.%s' % nm, 'the code-point position advances by len of a str value '
                                   '(`%s`), not of encoded bytes' % at[:60], not is_bytes, loc=loc(mem, o.node))
    # MultiFileReader
    mci = prog.cls('ioutils.MultiFileReader')
    sk = prog.func('ioutils.MultiFileReader.seek')
    w, paths = paths_of(prog, sk, recv=mci)
    for p in paths:
        if p.kind != 'return':
            continue
        idx = [o for o in p.ops if o.kind == 'attr_store' and txt(o.val) == 'self._index']
        ok_idx = bool(idx) and txt(idx[-1].info) == '0'
        its = [o for o in p.ops if o.kind == 'iter_start']
        ok_all = any(txt(w.expand(o.val)) == 'self._fileobjs' for o in its)
        seeks = [o for o in p.ops if o.kind == 'call' and isinstance(o.val.func, ast.Attribute) and o.val.func.attr == 'seek'
                 and o.val.args and txt(o.val.args[0]) in ('0', 'offset')]
        ctx.ob('T18', sk.fq, 'seek(0) resets the current-file index', ok_idx, loc=sk.loc, path=p.describe() if not ok_idx else None)
        ctx.ob('T18', sk.fq, 'seek(0) rewinds every member file (loop over the whole self._fileobjs)', ok_all, loc=sk.loc,
               detail='iterates: %s' % [txt(w.expand(o.val)) for o in its])
    rd = prog.func('ioutils.MultiFileReader.read')
    writers = set()
    for nm, mem in mci.members.items():
        if isinstance(mem, FuncInfo):
            for n in ast.walk(mem.node):
                if isinstance(n, ast.Attribute) and n.attr == '_index' and isinstance(n.ctx, ast.Store):
                    writers.add(nm)
    # a private helper writes on behalf of the methods that call it (and nobody, if nothing in the class calls it)
    callers_ = {}
    for nm, mem in mci.members.items():
        if isinstance(mem, FuncInfo):
            for n in ast.walk(mem.node):
                if isinstance(n, ast.Call) and isinstance(n.func, ast.Attribute) and txt(n.func.value) == 'self':
                    callers_.setdefault(n.func.attr, set()).add(nm)

    def behalf(nm, seen=()):
        if not nm.startswith('_') or nm.startswith('__') or nm in seen:
            return {nm}
        out = set()
        for c_ in callers_.get(nm, set()):
            out |= behalf(c_, seen + (nm,))
        return out
    writers = set().union(*[behalf(x) for x in writers]) if writers else writers
    ctx.ob('T18', mci.fq, 'cursor field _index written by read is reset by seek (writers: %s)' % sorted(writers),
           'seek' in writers and writers <= {'__init__', 'read', 'seek'}, loc=mci.module.relpath)
    for r, n in (('T8r', 8), ('T1a', 16), ('T9.roll', 2), ('T9.thresh', 2), ('T15.unit', 3), ('T18', 3)):
        ctx.need(r, n)
