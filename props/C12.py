"""C12 -- BufferedSocket framing / no byte lost (structural clauses)."""
import ast
from sa.index import AnalysisError, FuncInfo
from sa.paths import call_name, Model, Walker
from rules.common import txt, loc, tests_on, strip_not, format_skeleton

CLS = 'socketutils.BufferedSocket'
SPEC = {
    'explanation': (
        'Static byte-conservation analysis (T10) of BufferedSocket.recv, peek, recv_close, recv_until and recv_size by bounded '
        'path enumeration (loops unrolled 0..2) with an exception edge at every socket call (timeout and any other OSError) and '
        'at every explicit raise: byte tokens are the receive buffer content at entry and the result of every successful '
        'sock.recv (or of an inner recv_size/recv_until call); holders are locals, lists/bytearrays they are appended to, the '
        'return value and self.rbuf; an assignment to self.rbuf that does not include the old content drops it. Decided: on '
        'every exit, normal or exceptional, every token not tested empty on that path is held by the returned value or by '
        'self.rbuf (nothing received is lost, also after Timeout / ConnectionClosed / any other error). T9 send: data is '
        'appended to the send buffer before the first socket operation, and after every successful sock.send the sent prefix is '
        'cut off the buffer before any operation that can raise (so a retry never re-sends it); flush and sendall delegate to '
        'send. T12 netstring framing: the writer emits digits + b":" + payload + b"," and the reader reads until b":", parses '
        'an int, reads exactly that many bytes and requires b"," - the same two constants in the same order. Not decided: '
        'slice arithmetic (rolling search offset, surplus bytes), maxsize boundaries, duplication within slices.'
        ' T9.nslimit: read_ns with a per-call maxsize derives the size-prefix limit from that maxsize.'
        ' T10o: concatenations stored into the receive buffer keep arrival order (token ages). T12.ns is decided on every normal path of read_ns.'
        ' T8.peek: peeked bytes stay in the buffer.'),
    'decided': ['peek does not consume', 'arrival order of buffered bytes', 'netstring prefix limit follows the effective maxsize', 'T10 no received byte is dropped on any exit of the receive methods', 'T9 send buffer advanced before any raising step',
                'T12 netstring writer/reader constants agree', 'T7 look-back window of the rolling delimiter search covers every delimiter length (linear form)'],
    'declined': ['offset / slice arithmetic in recv_until and recv_size', 'maxsize boundary behaviour'],
    'trusted_base': ['socket.timeout is a subclass of OSError; only socket calls and explicit raises can fail between taking and storing bytes (len/int arithmetic cannot)'],
    'assumptions': ['the socket object is used by one BufferedSocket'], 'exhaustive': True,
}
SPEC['explanation'] += ' T10d: no received chunk is added to the accumulated result twice (exception lattice knows InterruptedError and the other OSError subclasses, so retry handlers are explored).'
SPEC['decided'] += ['no chunk appended twice']
SPEC['explanation'] += ' T14.close: only ConnectionClosed ends recv_close normally.'
SPEC['decided'] += ['recv_close handler scope']
SPEC['explanation'] += ' T25.bound: the delimiter search window of recv_until ends at the bound the MessageTooLong test uses.'
SPEC['decided'] += ['search window and too-long test agree']
MANIFEST = {
    'technique': 'resource-conservation (holder set) analysis over enumerated CFG paths with exception edges; ordering check in the send loop; writer/reader constant agreement',
    'text': ('Decides that no byte taken off the socket or out of the buffer can be lost on any path, including every '
             'timeout/error exit, that partial sends are never repeated, and that netstring framing constants agree. The index '
             'arithmetic that decides *where* frames are cut is value-level and not decided (partial).'),
    'note': 'Trusted: exception hierarchy of socket errors; NO_RAISE table for len/arithmetics. Loops unrolled 0..2.',
}

SOCK_METHODS = {'recv', 'send', 'settimeout', 'sendall', 'recv_into'}


class SockModel(Model):
    def inline(self, walker, op, callee, st):
        # extracted private helpers (module-level functions called by name, private methods of self) are seen in context
        from rules.locks import is_module_helper, is_private
        if callee.cls is None:
            return is_module_helper(op, callee)
        rv = op.recv_val
        return isinstance(rv, ast.Name) and rv.id == 'self' and is_private(callee.name)

    def call_raises(self, walker, op, st):
        v = op.val
        f = v.func
        if isinstance(f, ast.Attribute) and f.attr in SOCK_METHODS and txt(walker.expand(f.value)) in ('self.sock', 'sock'):
            if f.attr == 'settimeout':
                return ('OSError', 'ValueError')      # closed socket / out-of-range timeout; never a timeout
            return ('TimeoutError', 'OSError')
        if isinstance(f, ast.Attribute) and txt(f.value) == 'self' and f.attr in ('recv_size', 'recv_until', 'recv'):
            return ('Timeout', 'ConnectionClosed', 'OSError')
        return ()


def is_sock_recv(w, val):
    return isinstance(val, ast.Call) and isinstance(val.func, ast.Attribute) and val.func.attr == 'recv' and \
        txt(w.expand(val.func.value)) in ('self.sock', 'sock')


def conservation(ctx, prog, name):
    ci = prog.cls(CLS)
    fn = prog.func('%s.%s' % (CLS, name))
    w = Walker(prog, SockModel(prog))
    paths = [p for p in w.paths(fn, recv=ci) if p.kind != 'cutoff']
    tok_of = {}
    for nm, info in w.tokens.items():
        if info[0] == 'call' and len(info) > 2:
            tok_of[id(info[2])] = nm
    worst = None
    n_src = 0
    n_order = [0]
    order_bad = [None]
    peek_bad = [None]
    dup_bad = [None]
    for p in paths:
        holders = {'self.rbuf': {'B0'}}
        sources = {'B0'}
        empty = set()
        age = {'B0': 0}          # arrival order of byte tokens (T10o)

        def toks(v):
            if v is None:
                return set()
            if isinstance(v, ast.Name):
                if v.id in holders:
                    return set(holders[v.id])
                return set()
            if isinstance(v, ast.Attribute):
                t = txt(v)
                return set(holders.get(t, set()))
            if isinstance(v, (ast.Subscript, ast.Starred)):
                return toks(v.value)
            if isinstance(v, ast.Call):
                out = set()
                for a in list(v.args) + [k.value for k in v.keywords]:
                    out |= toks(a)
                if isinstance(v.func, ast.Attribute) and v.func.attr in ('join',):
                    pass
                return out
            if isinstance(v, ast.BinOp):
                return toks(v.left) | toks(v.right)
            if isinstance(v, ast.BoolOp):
                out = set()
                for x in v.values:
                    out |= toks(x)
                return out
            if isinstance(v, ast.IfExp):
                return toks(v.body) | toks(v.orelse)
            if isinstance(v, (ast.Tuple, ast.List)):
                out = set()
                for x in v.elts:
                    out |= toks(x)
                return out
            return set()
        ops = p.ops
        for i, o in enumerate(ops):
            raised = (i + 1 < len(ops) and ops[i + 1].kind == 'raise_at' and ops[i + 1].node is o.node)
            v = o.val
            if o.kind == 'call':
                tk = tok_of.get(id(o))
                f = v.func
                if is_sock_recv(w, v):
                    if not raised and tk:
                        holders[tk] = {tk}
                        sources.add(tk)
                        age[tk] = o.seq
                        n_src += 1
                elif isinstance(f, ast.Attribute) and txt(f.value) == 'self' and f.attr in ('recv_size', 'recv_until', 'recv'):
                    # inner receive: on success the result carries bytes (old buffer content may be inside it), the buffer
                    # holds the callee's leftover; on failure the callee left everything it had in the buffer
                    if raised:
                        fresh = 'Bx%d' % o.seq
                        sources.add(fresh)
                        holders['self.rbuf'] = set(holders['self.rbuf']) | {fresh}
                    elif tk:
                        left = 'Bl%d' % o.seq
                        age[tk] = o.seq
                        age[left] = o.seq + 0.5       # the callee's leftover arrived after what it returned
                        sources |= {tk, left}
                        holders[tk] = {tk} | set(holders['self.rbuf'])
                        holders['self.rbuf'] = {left}
                elif isinstance(f, ast.Attribute) and f.attr in ('append', 'extend', 'insert', 'appendleft') and isinstance(f.value, ast.Name):
                    if f.value.id in holders or f.value.id.startswith('$'):
                        holders.setdefault(f.value.id, set())
                        for a in v.args:
                            again = (toks(a) & holders[f.value.id]) - empty
                            if again and dup_bad[0] is None:
                                dup_bad[0] = (o, p, again)
                            holders[f.value.id] |= toks(a)
                elif tk and (call_name(v) in ('bytearray', 'bytes', 'list', 'memoryview') or
                             (isinstance(f, ast.Attribute) and f.attr == 'join')):
                    holders[tk] = toks(v)
                elif tk:
                    holders[tk] = set()
            elif o.kind == 'attr_store' and txt(v) == 'self.rbuf':
                # T10o: a concatenation stored back into the buffer keeps arrival order (older bytes first)
                if isinstance(o.info, ast.BinOp) and isinstance(o.info.op, ast.Add):
                    lt, rt = toks(o.info.left), toks(o.info.right)
                    la = [age.get(t) for t in lt]
                    ra = [age.get(t) for t in rt]
                    if lt and rt and None not in la and None not in ra:
                        n_order[0] += 1
                        if max(la) > min(ra) and order_bad[0] is None:
                            order_bad[0] = (o, p, txt(w.expand(o.info)))
                newv = toks(o.info)
                for nm, info in w.tokens.items():
                    if info[0] == 'old' and info[2] is o:
                        holders[nm] = set(holders['self.rbuf'])      # locals that aliased the old content
                holders['self.rbuf'] = newv
            elif o.kind == 'test':
                e, neg = strip_not(o.val)
                truthy = (o.info != neg)
                if not truthy:
                    if isinstance(e, ast.Name) and e.id in holders and holders[e.id] == {e.id}:
                        empty.add(e.id)
                    elif txt(e) == 'self.rbuf' and len(holders['self.rbuf']) == 1:
                        empty |= holders['self.rbuf']
            # fresh list literal tokens start empty
            if o.kind == 'name_store' and isinstance(o.val, ast.Name) and o.val.id.startswith('$l'):
                holders.setdefault(o.val.id, set())
                info = w.tokens.get(o.val.id)
                if info and info[0] == 'fresh':
                    for x in info[3]:
                        holders[o.val.id] |= toks(x)
        held = set(holders['self.rbuf'])
        if p.kind == 'return':
            held |= toks(p.outcome[1])
            if name == 'peek' and peek_bad[0] is None:
                # peek does not consume: everything it returns is still in the buffer afterwards
                rt = toks(p.outcome[1]) - empty
                if rt and not rt <= set(holders['self.rbuf']):
                    peek_bad[0] = (p, rt - set(holders['self.rbuf']))
        lost = sources - empty - held
        if lost and worst is None:
            worst = (p, lost, holders)
    construct = '%s.%s' % (CLS, name)
    if worst:
        p, lost, holders = worst
        what = []
        for t in sorted(lost):
            if t == 'B0':
                what.append('the buffer content at entry')
            else:
                info = w.tokens.get(t)
                what.append('bytes from `%s` (line %d)' % (txt(info[1]) if info else t, info[2].line if info else 0))
        ctx.ob('T10', construct, 'on exit %s: %s held neither by the returned value nor by self.rbuf'
               % (str(p.outcome[:2]) if p.kind == 'raise' else 'return', '; '.join(what)), False, loc=fn.loc, path=p.describe())
    else:
        ctx.ob('T10', construct, 'every byte token (buffer at entry, each successful socket/inner receive) is held by the return '
               'value or self.rbuf on all %d exits, normal and exceptional' % len(paths), True, loc=fn.loc,
               detail='%d receive events tracked' % n_src, nontrivial=True)
    if name == 'peek':
        pb = peek_bad[0]
        ctx.ob('T8.peek', construct, 'peek does not consume: every byte it returns is still held by the receive buffer on return',
               pb is None, loc=fn.loc, path=pb[0].describe() if pb else None)
    db = dup_bad[0]
    if db is not None or name in ('recv_size', 'recv_until'):
        ctx.ob('T10d', construct, 'no received chunk is added to the accumulated result twice (each byte exactly once)', db is None,
               loc=loc(fn, db[0].node) if db else fn.loc, detail='appended again: %s' % sorted(db[2]) if db else '',
               path=db[1].describe() if db else None)
    if n_order[0]:
        ob = order_bad[0]
        ctx.ob('T10o', construct, 'a concatenation stored back into the receive buffer keeps arrival order (bytes received earlier come '
               'first)', ob is None, loc=loc(fn, ob[0].node) if ob else fn.loc, detail=ob[2] if ob else '%d stores checked' % n_order[0],
               path=ob[1].describe() if ob else None)
    ctx.extra['paths_enumerated'] = ctx.extra.get('paths_enumerated', 0) + len(paths)


def run(ctx):
    from rules.common import require_fields
    require_fields(ctx.program, 'socketutils.BufferedSocket', ['rbuf', 'sbuf', 'sock', 'maxsize'])
    require_fields(ctx.program, 'socketutils.NetstringSocket', ['bsock', 'maxsize', '_msgsize_maxsize'])
    prog = ctx.program
    ci = prog.cls(CLS)
    for name in ('recv', 'peek', 'recv_close', 'recv_until', 'recv_size'):
        conservation(ctx, prog, name)
    # ---- recv_until: look-back window of the rolling search (linear form, all delimiter lengths) -------
    ru = prog.func(CLS + '.recv_until')
    finds = [n for n in ast.walk(ru.node) if isinstance(n, ast.Call) and isinstance(n.func, ast.Attribute) and n.func.attr == 'find'
             and n.args and txt(n.args[0]) == 'delimiter']
    finds = [f for f in finds if len(f.args) >= 2]
    svars = {f.args[1].id for f in finds if isinstance(f.args[1], ast.Name)}
    if not finds:
        ctx.unknown('T7.look', ru.fq, 'no <buffer>.find(delimiter, <start>, ...) call found', ru.loc)
    else:
        dl_names = {'len(delimiter)'}
        for n in ast.walk(ru.node):
            if isinstance(n, ast.Assign) and txt(n.value) == 'len(delimiter)' and isinstance(n.targets[0], ast.Name):
                dl_names.add(n.targets[0].id)
        ext = [n for n in ast.walk(ru.node) if isinstance(n, ast.Call) and isinstance(n.func, ast.Attribute) and n.func.attr == 'extend'
               and txt(n.func.value) == txt(finds[0].func.value) and n.args]
        chunk = txt(ext[0].args[0]) if ext else 'nxt'

        def linear(e):
            # -> {atom: coeff} with atom '' for the constant; None if not linear in the known atoms
            if isinstance(e, ast.Constant) and isinstance(e.value, int):
                return {'': e.value}
            t = txt(e)
            if t in dl_names:
                return {'D': 1}
            if t == 'len(%s)' % chunk:
                return {'N': 1}
            if isinstance(e, ast.UnaryOp) and isinstance(e.op, ast.USub):
                r = linear(e.operand)
                return None if r is None else {k: -v for k, v in r.items()}
            if isinstance(e, ast.BinOp) and isinstance(e.op, (ast.Add, ast.Sub)):
                l, r = linear(e.left), linear(e.right)
                if l is None or r is None:
                    return None
                out = dict(l)
                for k, v in r.items():
                    out[k] = out.get(k, 0) + (v if isinstance(e.op, ast.Add) else -v)
                return out
            return None
        # T25.bound: the search window ends at the very bound the "too long" test uses (`len(recvd) > maxsize`): a delimiter found
        # beyond it in one delivery would be MessageTooLong in another delivery of the same stream
        bounds = {txt(c.comparators[0]) for c in ast.walk(ru.node) if isinstance(c, ast.Compare) and len(c.ops) == 1 and
                  isinstance(c.ops[0], (ast.Gt, ast.GtE)) and txt(c.left).startswith('len(') and 'maxsize' in txt(c.comparators[0])}
        for f in finds:
            if len(f.args) >= 3 and bounds:
                ctx.ob('T25.bound', ru.fq, 'the delimiter search ends at the bound of the too-long test (%s)' % sorted(bounds),
                       txt(f.args[2]) in bounds, loc=loc(ru, f), detail='search end `%s`' % txt(f.args[2]))
        assigns = [n for n in ast.walk(ru.node) if isinstance(n, ast.Assign) and any(txt(t) in svars for t in n.targets)]
        # a start written in place (`find(delimiter, 0, maxsize)`) is judged like an assignment of that value
        class _Direct:
            def __init__(self, v):
                self.value, self.lineno, self.col_offset = v, v.lineno, v.col_offset
        assigns += [_Direct(f.args[1]) for f in finds if not isinstance(f.args[1], ast.Name)]
        for a in assigns:
            lf = linear(a.value)
            if lf is None:
                ctx.unknown('T7.look', ru.fq, 'search start `%s` is not a linear form of the chunk and delimiter lengths' % txt(a.value), loc(ru, a))
                continue
            if set(lf) <= {''}:
                ok = lf.get('', 0) == 0
                what = 'initial search start is 0 (whole buffer)'
            else:
                # start = -(a*N + b*D + c'): needs look-back >= N + D - 1 for every D >= 1, N >= 1
                aN, bD, c = -lf.get('N', 0), -lf.get('D', 0), -lf.get('', 0)
                ok = aN >= 1 and bD >= 1 and c >= -1
                what = 'after a chunk of N bytes the search restarts at most at -(N + D - 1) so a delimiter of any length D straddling ' \
                       'the chunk boundary is found (start = -(%d*N + %d*D + %d))' % (aN, bD, c)
            ctx.ob('T7.look', ru.fq, what, ok, loc=loc(ru, a), detail=txt(a.value))
    # ---- send ---------------------------------------------------------------------
    snd = prog.func(CLS + '.send')
    w = Walker(prog, SockModel(prog))
    paths = [p for p in w.paths(snd, recv=ci) if p.kind != 'cutoff']
    n_send = 0
    for p in paths:
        ops = p.ops
        first_sock = next((o for o in ops if o.kind == 'call' and isinstance(o.val.func, ast.Attribute) and
                           o.val.func.attr in SOCK_METHODS and txt(w.expand(o.val.func.value)) in ('self.sock', 'sock')), None)
        app = [o for o in ops if o.kind == 'call' and isinstance(o.val.func, ast.Attribute) and o.val.func.attr == 'append'
               and txt(w.expand(o.val.func.value)) == 'self.sbuf' and o.val.args and txt(o.val.args[0]) == 'data']
        if first_sock is not None:
            ok = bool(app) and app[0].seq < first_sock.seq
            ctx.ob('T9.sbuf', snd.fq, 'data is appended to the send buffer before the first socket operation', ok, loc=snd.loc,
                   path=p.describe() if not ok else None)
        for i, o in enumerate(ops):
            if o.kind == 'call' and isinstance(o.val.func, ast.Attribute) and o.val.func.attr == 'send' and \
                    txt(w.expand(o.val.func.value)) in ('self.sock', 'sock'):
                raised = (i + 1 < len(ops) and ops[i + 1].kind == 'raise_at' and ops[i + 1].node is o.node)
                if raised:
                    continue
                n_send += 1
                tk = [nm for nm, info in w.tokens.items() if info[0] == 'call' and len(info) > 2 and info[2] is o]
                nxt_risky = next((x for x in ops[i + 1:] if x.kind in ('raise',) or (x.kind == 'call' and isinstance(x.val.func, ast.Attribute)
                                  and x.val.func.attr in SOCK_METHODS and txt(w.expand(x.val.func.value)) in ('self.sock', 'sock'))), None)
                limit = nxt_risky.seq if nxt_risky is not None else 10 ** 9
                adv = [x for x in ops[i + 1:] if x.seq < limit and x.kind == 'sub_store' and txt(w.expand(x.val.value)) == 'self.sbuf'
                       and isinstance(x.info, ast.Subscript) and isinstance(x.info.slice, ast.Slice) and x.info.slice.lower is not None
                       and tk and txt(x.info.slice.lower) == tk[0] and x.info.slice.upper is None]
                ok = bool(adv)
                ctx.ob('T9.adv', snd.fq, 'after a successful sock.send the sent prefix is cut off the send buffer before any step that '
                       'can raise (a retry after Timeout never re-sends it)', ok, loc=loc(snd, o.node), path=p.describe() if not ok else None)
    if n_send == 0:
        ctx.unknown('T9.adv', snd.fq, 'no successful sock.send path found', snd.loc)
    for name, callee_args in (('sendall', ['data', 'flags', 'timeout']), ('flush', ["b''"])):
        f = prog.func('%s.%s' % (CLS, name))
        calls = [n for n in ast.walk(f.node) if isinstance(n, ast.Call) and txt(n.func) == 'self.send']
        ok = len(calls) == 1 and [txt(a) for a in calls[0].args] + [txt(k.value) for k in calls[0].keywords] == callee_args
        ctx.ob('T17', f.fq, '%s delegates to send(%s)' % (name, ', '.join(callee_args)), ok, loc=f.loc)
    bf = prog.func(CLS + '.buffer')
    ok = any(isinstance(n, ast.Call) and txt(n.func) == 'self.sbuf.append' and [txt(a) for a in n.args] == ['data'] for n in ast.walk(bf.node))
    ctx.ob('T17', bf.fq, 'buffer() appends the data to the send buffer', ok, loc=bf.loc)
    # ---- netstring ------------------------------------------------------------------
    from sa.consteval import Folder, Unknown
    folder = Folder(prog.module('socketutils'))

    def const_of(e):
        if isinstance(e, ast.Constant):
            return e.value
        try:
            return folder.fold(e)
        except Unknown:
            return None
    wn = prog.func('socketutils.NetstringSocket.write_ns')
    rn = prog.func('socketutils.NetstringSocket.read_ns')
    nci = prog.cls('socketutils.NetstringSocket')
    w2 = Walker(prog, SockModel(prog))
    sent_vals = []
    for p in w2.paths(wn, recv=nci):
        for o in p.ops:
            if o.kind == 'call' and txt(o.val.func) in ('self.bsock.send', 'self.bsock.sendall') and o.val.args:
                sent_vals.append(w2.expand(o.val.args[0]))
    parts = []

    def flat(e):
        if isinstance(e, ast.BinOp) and isinstance(e.op, ast.Add):
            flat(e.left)
            flat(e.right)
        elif isinstance(e, ast.BinOp) and isinstance(e.op, ast.Mod) and isinstance(e.left, ast.Constant) and \
                isinstance(e.left.value, bytes) and e.left.value.startswith(b'%d') and b'%' not in e.left.value[2:]:
            # b'%d:' % n  ==  b'%d' % n + b':'
            parts.append(ast.BinOp(left=ast.Constant(value=b'%d'), op=ast.Mod(), right=e.right))
            if e.left.value[2:]:
                parts.append(ast.Constant(value=e.left.value[2:]))
        else:
            parts.append(e)
    if sent_vals:
        flat(sent_vals[0])
    shape_ok = len(parts) == 4 and txt(parts[2]) == 'payload' and txt(parts[0]).replace(' ', '') in (
        "str(len(payload)).encode('ascii')", "str(len(payload)).encode()", "b'%d'%len(payload)", "b'%d'%(len(payload),)")
    sepc = const_of(parts[1]) if len(parts) == 4 else None
    termc = const_of(parts[3]) if len(parts) == 4 else None
    if not sent_vals:
        raise AnalysisError('anchor vanished: netstring writer does not hand a frame to bsock.send')
    # reader, on every normal return path of read_ns (private self helpers inlined): recv_until(SEP) -> int(that) ->
    # recv_size(that int) -> recv(len(TERM)) tested equal to TERM
    class NsModel(SockModel):
        pass          # SockModel already sees private helpers (methods of self and module-level functions) in context
    w3 = Walker(prog, NsModel(prog))
    n_ret = 0
    reader_ok = True
    rdet = ''
    for p in w3.paths(rn, recv=nci):
        if p.kind != 'return':
            continue
        n_ret += 1
        tok = {}
        for nm, info in w3.tokens.items():
            if info[0] == 'call' and len(info) > 2:
                tok[id(info[2])] = nm
        calls = [o for o in p.ops if o.kind == 'call']
        until = [o for o in calls if txt(o.val.func) == 'self.bsock.recv_until']
        ints = [o for o in calls if call_name(o.val) == 'int']
        rs = [o for o in calls if txt(o.val.func) == 'self.bsock.recv_size']
        rc = [o for o in calls if txt(o.val.func) == 'self.bsock.recv']
        good = bool(until and ints and rs and rc)
        if good:
            u, i_, r_, c_ = until[0], ints[0], rs[0], rc[0]
            good = bool(u.val.args) and const_of(u.val.args[0]) == sepc and u.seq < i_.seq < r_.seq < c_.seq
            good = good and bool(i_.val.args) and txt(i_.val.args[0]) == tok.get(id(u))
            good = good and bool(r_.val.args) and txt(r_.val.args[0]) == tok.get(id(i_))
            good = good and bool(c_.val.args) and isinstance(termc, bytes) and const_of(c_.val.args[0]) == len(termc)
            # the terminator test: a comparison of the recv(1) result with TERM that is "equal" on the return path
            ct = tok.get(id(c_))
            eq = False
            for t, truth, o in tests_on(w3, p):
                e2, neg = strip_not(o.val)
                if isinstance(e2, ast.Compare) and len(e2.ops) == 1 and ct in (txt(e2.left), txt(e2.comparators[0])):
                    other = e2.comparators[0] if txt(e2.left) == ct else e2.left
                    if const_of(other) == termc:
                        if isinstance(e2.ops[0], ast.NotEq) and (o.info != neg) is False:
                            eq = True
                        if isinstance(e2.ops[0], ast.Eq) and (o.info != neg) is True:
                            eq = True
            good = good and eq
        if not good:
            reader_ok = False
            rdet = p.describe()[:600]
    if n_ret == 0:
        raise AnalysisError('anchor vanished: read_ns has no normal return path')
    ok = shape_ok and isinstance(sepc, bytes) and isinstance(termc, bytes) and reader_ok
    ctx.ob('T12.ns', wn.fq, 'writer frames decimal size + %r + payload + %r; on every normal path the reader reads until the first, parses '
           'that as an int, reads exactly that many bytes and requires the second' % (sepc, termc), bool(ok), loc=wn.loc,
           detail='writer parts %s %s' % ([txt(p) for p in parts], rdet))
    ctx.ob('T12.ns', wn.fq, 'the whole frame is handed to send', bool(sent_vals), loc=wn.loc)
    # the size-prefix limit follows the *effective* maxsize of the call
    w4 = Walker(prog, SockModel(prog))
    for p in w4.paths(rn, recv=nci):
        if p.kind == 'cutoff':
            continue
        ru2 = [o for o in p.ops if o.kind == 'call' and txt(o.val.func) == 'self.bsock.recv_until']
        if not ru2:
            continue
        kw = {k.arg: k.value for k in ru2[0].val.keywords}
        lim = w4.expand(kw['maxsize']) if 'maxsize' in kw else None
        ts = tests_on(w4, p)
        overridden = any(t == 'maxsize is _UNSET' and not truth for t, truth, o in ts)
        if overridden:
            ok = lim is not None and 'maxsize' in {x.id for x in ast.walk(lim) if isinstance(x, ast.Name)}
            ctx.ob('T9.nslimit', rn.fq, 'with a per-call maxsize the size-prefix limit is computed from that maxsize (a valid frame up to '
                   'the new limit is not rejected by a stale prefix limit)', ok, loc=loc(rn, ru2[0].node), detail=txt(lim) if lim is not None else 'no maxsize passed')
    # T14.close: recv_close turns exactly "the peer closed the connection" into its normal return.  Timeout (and every other
    # socket error) is a subclass of the same base class: a handler for the base would end the read early with a partial result
    rcl = prog.func(CLS + '.recv_close')
    hs = [h for t in ast.walk(rcl.node) if isinstance(t, ast.Try) for h in t.handlers]
    swallowing = [h for h in hs if not any(isinstance(x, ast.Raise) for x in ast.walk(h))]
    if not swallowing:
        ctx.unknown('T14.close', rcl.fq, 'no handler that turns the end of the stream into a result found', rcl.loc)
    for h in swallowing:
        tys = [txt(x) for x in (h.type.elts if isinstance(h.type, ast.Tuple) else [h.type])] if h.type is not None else ['BaseException']
        ok = all(t.split('.')[-1] == 'ConnectionClosed' for t in tys)
        ctx.ob('T14.close', rcl.fq, 'only ConnectionClosed ends recv_close normally (a Timeout or another socket error propagates)', ok,
               loc=loc(rcl, h), detail='handler for %s' % ', '.join(tys))
    for r, n in (('T10', 5), ('T9.sbuf', 1), ('T9.adv', 1), ('T17', 3), ('T12.ns', 2), ('T7.look', 2)):
        ctx.need(r, n)
