"""C16 -- traceback text round trip (structural clauses)."""
import ast
from sa.index import AnalysisError, FuncInfo
from sa.paths import call_name
from rules.common import returned_values, Quiet, with_helpers, string_values, guard_dnf, txt, module_regex, regex_skeleton, format_skeleton, paths_of, loc, tests_on

SPEC = {
    'explanation': (
        'Static writer/reader agreement for tbutils.ParsedException and the frame renderers. T12: the frame-line template of '
        'ParsedException.to_string (format/%/f-string reduced to literal segments + holes) has, after stripping the '
        'indentation from_string strips, the same literal skeleton and the same hole order as the named groups of _frame_re '
        '(File "..", line N, in F); the holes read frame[<group name>]; the header literal emitted by to_string is the one '
        'from_string compares with; the exception line is joined with the separator from_string partitions on (": "); the '
        'source line is emitted with the 4-space indent and only when present; every frame key read by to_string is produced '
        'by from_string (regex group names and assigned keys). Callpoint.tb_frame_str uses the same frame-line skeleton and '
        'emits the source line only when it is non-empty (truthiness, as the interpreter prints nothing for missing source); '
        '_DeferredLine.__str__ validates the linecache entry (checkcache) before reading the line on every path, as the '
        'traceback module does. Not decided: the line-scanner state machine of from_string, TracebackInfo/ExceptionInfo '
        'against live frames.'
        ' T12.groups: the named groups of the frame patterns accept any text (lineno: digits), decided on the regex AST over a probe alphabet. T7.discard: the trailing-noise discard is guarded by both a prefix and a suffix test on every way to reach it (DNF). T25.globals: both Callpoint constructors pass the frame globals to _DeferredLine.'
        ' T19c: limit=None is recognised by identity in both frame walkers. T19.value: the exception instance is never truth-tested. T9.trim: the traceback text is never right-trimmed as a whole.'
        ' T9.walk: both frame walkers record, advance and count in every step, stop on None/limit, and from_frame reverses.'),
    'decided': ['frame walkers', 'limit defaulting by identity', 'exception value examined by identity', 'no right trim of the input', 'frame-pattern group classes', 'discard guard strength', 'sibling constructors pass globals', 'frame-line skeleton agreement writer vs regex', 'header and exception-line separator agreement',
                'frame keys produced vs consumed', 'source line guarded by truthiness', 'checkcache before getline'],
    'declined': ['from_string scanner over optional lines', 'agreement with the traceback module on live exceptions'],
    'trusted_base': ['re._parser', 'string.Formatter field parsing'], 'assumptions': [], 'exhaustive': True,
}
SPEC['explanation'] += " T25.modtable: every table of modules left out of the printed exception type contains '__main__' and 'builtins', and the sibling tables agree up to the Python 2 names."
SPEC['decided'] += ['unprefixed-module tables agree']
SPEC['explanation'] += " T25.line: every call point is built with a deferred source line on every path. T9.trimmsg: ExceptionInfo never strips the rendered '<type>: <message>' text."
SPEC['decided'] += ['deferred line on every path', 'rendered message not stripped']
SPEC['explanation'] += ' T12.header: the header line is written on every path of to_string.'
SPEC['decided'] += ['header on every path']
MANIFEST = {
    'technique': 'template/regex skeleton extraction and comparison (writer vs reader tables); must-pass-through and guard-shape checks',
    'text': ('Decides that what to_string writes is what from_string\'s patterns read (same literals, same field order, same '
             'keys, same separators), and two renderer conditions (source line only when non-empty, linecache validated before '
             'use). One necessary clause family of C16; the parser state machine and live-frame agreement are not decided.'),
    'note': 'Trusted: re._parser, string.Formatter.',
}


def cmp_text_(c, subject):
    from rules.common import cmp_text
    return cmp_text(c, subject)


def root_is(e, name):
    while isinstance(e, (ast.Attribute, ast.Call, ast.Subscript)):
        e = e.func if isinstance(e, ast.Call) else e.value
    return isinstance(e, ast.Name) and e.id == name


def _atom_accepts(item, ch):
    """Does one regex atom (from re._parser) accept character ch?  Decided on the pattern's syntax tree."""
    import re._constants as K
    op, av = item
    o = ord(ch)
    if op is K.ANY:
        return ch != '\n'
    if op is K.LITERAL:
        return av == o
    if op is K.NOT_LITERAL:
        return av != o
    if op is K.IN:
        neg = False
        hit = False
        for o2, a2 in av:
            if o2 is K.NEGATE:
                neg = True
            elif o2 is K.LITERAL:
                hit = hit or a2 == o
            elif o2 is K.RANGE:
                hit = hit or a2[0] <= o <= a2[1]
            elif o2 is K.CATEGORY:
                cat = {K.CATEGORY_DIGIT: ch.isdigit(), K.CATEGORY_NOT_DIGIT: not ch.isdigit(),
                       K.CATEGORY_SPACE: ch.isspace(), K.CATEGORY_NOT_SPACE: not ch.isspace(),
                       K.CATEGORY_WORD: ch.isalnum() or ch == '_', K.CATEGORY_NOT_WORD: not (ch.isalnum() or ch == '_')}.get(a2)
                if cat is None:
                    raise AnalysisError('regex category %s not modelled' % a2)
                hit = hit or cat
            else:
                raise AnalysisError('regex class item %s not modelled' % o2)
        return hit != neg
    if op is K.SUBPATTERN:
        body = list(av[3])
        return len(body) == 1 and _atom_accepts(body[0], ch)
    raise AnalysisError('regex atom %s not modelled' % op)


def run(ctx):
    from rules.common import require_fields
    require_fields(ctx.program, 'tbutils.ParsedException', ['exc_type', 'exc_msg', 'frames'])
    prog = ctx.program
    mod = prog.module('tbutils')
    pat, flags, node, attr = module_regex(prog, 'tbutils', '_frame_re')
    segs, groups, anchors = regex_skeleton(pat)
    where = '%s:%d' % (mod.relpath, node.lineno)
    ts = prog.func('tbutils.ParsedException.to_string')
    fs = prog.func('tbutils.ParsedException.from_string')
    # frame line template: the appended expression containing 'File "'
    tmpl = None
    src_tmpl = None
    pci = prog.cls('tbutils.ParsedException')
    scope = [ts]
    for n in ast.walk(ts.node):
        if isinstance(n, ast.Call) and isinstance(n.func, ast.Attribute) and isinstance(n.func.value, ast.Name) and \
                n.func.value.id in ('self', 'cls', 'ParsedException'):
            h = pci.own(n.func.attr)
            if h is not None and hasattr(h, 'node') and h not in scope:
                scope.append(h)
        if isinstance(n, ast.Call) and isinstance(n.func, ast.Name) and n.func.id in mod.functions:
            scope.append(mod.functions[n.func.id])
    tmpl_fn = ts
    for fn in scope:
        for n in ast.walk(fn.node):
            cand = None
            if isinstance(n, ast.Call) and isinstance(n.func, ast.Attribute) and n.func.attr == 'append' and n.args:
                cand = n.args[0]
            elif isinstance(n, (ast.List, ast.Tuple)):
                for el in n.elts:
                    if 'File "' in ast.unparse(el) and tmpl is None:
                        tmpl, tmpl_fn = el, fn
                    elif 'source_line' in ast.unparse(el) and src_tmpl is None and isinstance(el, (ast.JoinedStr, ast.BinOp, ast.Call)):
                        src_tmpl = el
            elif isinstance(n, ast.Assign) and isinstance(n.value, (ast.JoinedStr, ast.BinOp, ast.Call)):
                cand = n.value
            if cand is not None:
                t = ast.unparse(cand)
                if 'File "' in t and tmpl is None and isinstance(cand, (ast.JoinedStr, ast.BinOp, ast.Call)):
                    tmpl, tmpl_fn = cand, fn
                elif 'source_line' in t and src_tmpl is None and isinstance(cand, (ast.JoinedStr, ast.BinOp)):
                    src_tmpl = cand
    if tmpl is None:
        raise AnalysisError('anchor vanished: frame-line template in ParsedException.to_string')
    wsegs, holes = format_skeleton(tmpl)
    ok = [wsegs[0].strip()] + wsegs[1:] == segs and wsegs[0].startswith('  ') and wsegs[0].strip() == segs[0]
    ctx.ob('T12.frame', ts.fq, 'frame line written %r matches the literals of _frame_re %r' % (wsegs, segs),
           [s.strip() if i == 0 else s for i, s in enumerate(wsegs)] == segs, loc=loc(tmpl_fn, tmpl))
    # holes given through single-assignment locals (filepath = frame['filepath']) are resolved
    single = {}
    for n in ast.walk(tmpl_fn.node):
        if isinstance(n, ast.Assign) and len(n.targets) == 1 and isinstance(n.targets[0], ast.Name):
            single.setdefault(n.targets[0].id, []).append(n.value)
    holes = [single[h.id][0] if isinstance(h, ast.Name) and len(single.get(h.id, [])) == 1 else h for h in holes]
    keys = []
    for h in holes:
        k = None
        if isinstance(h, ast.Subscript) and isinstance(h.slice, ast.Constant):
            k = h.slice.value
        keys.append(k)
    ctx.ob('T12.frame', ts.fq, 'the holes of the frame line are frame[%s] in the order of the regex groups' % groups,
           keys == groups, loc=loc(ts, tmpl), detail='holes %s' % keys)
    # keys consumed vs produced
    consumed = set()
    fvars = {txt(h.value) for h in holes if isinstance(h, ast.Subscript)} or {'frame'}
    for fn in scope:
        for n in ast.walk(fn.node):
            if isinstance(n, ast.Subscript) and txt(n.value) in fvars and isinstance(n.slice, ast.Constant):
                consumed.add(n.slice.value)
            if isinstance(n, ast.Call) and isinstance(n.func, ast.Attribute) and n.func.attr == 'get' and txt(n.func.value) in fvars \
                    and n.args and isinstance(n.args[0], ast.Constant):
                consumed.add(n.args[0].value)
    produced = set(groups)
    from rules.common import with_helpers as _wh
    for pf in _wh(prog, fs, prog.cls('tbutils.ParsedException')):       # from_string and the private helpers it calls
        for n in ast.walk(pf.node):
            if isinstance(n, ast.Subscript) and isinstance(n.ctx, ast.Store) and isinstance(n.slice, ast.Constant):
                produced.add(n.slice.value)
    ctx.ob('T12.keys', ts.fq, 'every frame key to_string reads is produced by from_string', consumed <= produced, loc=ts.loc,
           detail='reads %s, produced %s' % (sorted(consumed), sorted(produced)))
    # header literal
    heads_w = [v for v, n in string_values(ts, [f for f in scope if f is not ts]) if v.startswith('Traceback')]
    heads_r = [v for v, n in string_values(fs, [f for f in with_helpers(prog, fs, pci) if f is not fs]) if v.startswith('Traceback')]
    # ... and it is written on every path (a text without frames still starts with the header: from_string requires it)
    from rules.common import PrivInl as _PI16
    for e_, p_, w_ in returned_values(prog, ts, recv=pci, model=_PI16(prog)):
        on_path = any(isinstance(getattr(o, 'val', None), ast.AST) and any(
            isinstance(x, ast.Constant) and isinstance(x.value, str) and x.value.startswith('Traceback') for x in ast.walk(o.val))
            for o in p_.ops) or (e_ is not None and 'Traceback' in txt(e_))
        # the header may sit in a fresh list literal token
        if not on_path:
            for nm, info in w_.tokens.items():
                if info[0] == 'fresh' and len(info) > 3 and any(
                        isinstance(x, ast.Constant) and isinstance(x.value, str) and x.value.startswith('Traceback')
                        for y in info[3] for x in ast.walk(y)) and any(
                        isinstance(getattr(o, 'val', None), ast.Name) and o.val.id == nm for o in p_.ops):
                    on_path = True
        ctx.ob('T12.header', ts.fq, 'the header line is written on every path of to_string', on_path, loc=ts.loc,
               path=p_.describe() if not on_path else None)
    ctx.ob('T12.header', ts.fq, 'header literal written == header literal recognised', bool(heads_w) and set(heads_w) == set(heads_r),
           loc=ts.loc, detail='%s vs %s' % (heads_w, heads_r))
    # exception line separator
    seps_r = [n.args[0].value for n in ast.walk(fs.node) if isinstance(n, ast.Call) and isinstance(n.func, ast.Attribute)
              and n.func.attr in ('partition', 'split') and n.args and isinstance(n.args[0], ast.Constant) and 'exc' in txt(n.func.value)]
    wsep = None
    # locals that merely name an attribute of self (a = self.x; a, b = self.x, self.y)
    local_def = {}
    for f_ in scope:
        for a in ast.walk(f_.node):
            if isinstance(a, ast.Assign) and len(a.targets) == 1:
                tg, vl = a.targets[0], a.value
                prs = list(zip(tg.elts, vl.elts)) if isinstance(tg, ast.Tuple) and isinstance(vl, ast.Tuple) and \
                    len(tg.elts) == len(vl.elts) else [(tg, vl)]
                for t_, v_ in prs:
                    if isinstance(t_, ast.Name) and isinstance(v_, ast.Attribute) and txt(v_.value) == 'self':
                        local_def[t_.id] = v_
    for n in [x for f_ in scope for x in ast.walk(f_.node)]:
        cands = []
        if isinstance(n, ast.Call) and isinstance(n.func, ast.Attribute) and n.func.attr == 'append' and n.args:
            cands.append(n.args[0])
        if isinstance(n, ast.Assign):
            cands.append(n.value)
        if isinstance(n, ast.Return) and n.value is not None:
            cands.append(n.value)
        for cnd in cands:
            if not isinstance(cnd, (ast.JoinedStr, ast.BinOp, ast.Call)):
                continue
            s2, h2 = format_skeleton(cnd)
            hs = [txt(local_def.get(h.id, h)) if isinstance(h, ast.Name) else txt(h) for h in h2]
            if hs == ['self.exc_type', 'self.exc_msg']:
                wsep = s2
    ctx.ob('T12.excline', ts.fq, 'exception line is "<type>" + separator + "<message>" with the separator from_string partitions on',
           wsep is not None and seps_r and wsep == ['', seps_r[0], ''], loc=ts.loc, detail='writer %s reader %s' % (wsep, seps_r))
    # the message is everything after the frames: the partitioned text is the join of the whole remaining slice
    ok = False
    det = ''
    for n in ast.walk(fs.node):
        if isinstance(n, ast.Call) and isinstance(n.func, ast.Attribute) and n.func.attr == 'partition' and isinstance(n.func.value, ast.Name):
            var = n.func.value.id
            defs = [a for a in ast.walk(fs.node) if isinstance(a, ast.Assign) and any(txt(t) == var for t in a.targets)]
            det = '; '.join(txt(a.value) for a in defs)
            ok = len(defs) == 1 and isinstance(defs[0].value, ast.Call) and isinstance(defs[0].value.func, ast.Attribute) \
                and defs[0].value.func.attr == 'join' and isinstance(defs[0].value.func.value, ast.Constant) \
                and defs[0].value.func.value.value == '\n' and defs[0].value.args \
                and isinstance(defs[0].value.args[0], ast.Subscript) and isinstance(defs[0].value.args[0].slice, ast.Slice) \
                and defs[0].value.args[0].slice.upper is None and defs[0].value.args[0].slice.step is None
    ctx.ob('T12.tail', fs.fq, 'the exception text is all remaining lines joined by "\\n" (multi-line messages, blank lines '
           'included, are recovered whole)', ok, loc=fs.loc, detail=det)
    # source line: 4-space indent, only when present
    ok = False
    guarded = False
    if src_tmpl is not None:
        s3, h3 = format_skeleton(src_tmpl)

        def reads_source_line(e):
            return any(isinstance(c, ast.Constant) and c.value == 'source_line' for c in ast.walk(e)) and \
                isinstance(e, (ast.Call, ast.Subscript))
        hole = h3[0] if len(h3) == 1 else None
        hname = None
        if isinstance(hole, ast.Name):
            # a local holding frame.get('source_line') / frame['source_line'] (single assignment in the rendering code)
            defs = [a.value for fn in scope for a in ast.walk(fn.node) if isinstance(a, ast.Assign) and len(a.targets) == 1
                    and txt(a.targets[0]) == hole.id]
            if len(defs) == 1 and reads_source_line(defs[0]):
                hname = hole.id
        elif hole is not None and reads_source_line(hole):
            hname = txt(hole)
        ok = s3 == ['    ', ''] and hname is not None
        guarded = hname is not None and any(isinstance(n, ast.If) and txt(n.test) in (hname, 'not ' + hname)
                                            for fn in scope for n in ast.walk(fn.node))
    ctx.ob('T12.srcline', ts.fq, 'source line is written with the 4-space indent and only when present', ok and guarded, loc=ts.loc)
    # lines joined by newline
    joins = [n for n in ast.walk(ts.node) if isinstance(n, ast.Call) and isinstance(n.func, ast.Attribute) and n.func.attr == 'join'
             and isinstance(n.func.value, ast.Constant)]
    ctx.ob('T12.join', ts.fq, 'lines are joined with "\\n" (from_string uses splitlines)', bool(joins) and all(j.func.value.value == '\n' for j in joins), loc=ts.loc)
    # Callpoint.tb_frame_str
    tf = prog.func('tbutils.Callpoint.tb_frame_str')
    tm = None
    for n in ast.walk(tf.node):
        if isinstance(n, (ast.Call, ast.JoinedStr, ast.BinOp)) and 'File "' in ast.unparse(n) and tm is None and not isinstance(n, ast.Call) or \
                (isinstance(n, ast.Call) and isinstance(n.func, ast.Attribute) and n.func.attr == 'format' and 'File "' in ast.unparse(n.func.value)):
            tm = n
            break
    if tm is None:
        raise AnalysisError('anchor vanished: frame-line template in Callpoint.tb_frame_str')
    s4, h4 = format_skeleton(tm)
    ctx.ob('T12.frame', tf.fq, 'rendered frame line has the standard skeleton', [s4[0].strip()] + s4[1:-1] + [s4[-1].rstrip('\n')] == segs
           and s4[0].startswith('  ') and s4[-1] == '\n', loc=tf.loc, detail=str(s4))
    ctx.ob('T12.frame', tf.fq, 'holes are module_path, lineno, func_name', [txt(h) for h in h4] == ['self.module_path', 'self.lineno', 'self.func_name'], loc=tf.loc)
    from rules.common import strip_not
    # decided on the tests the paths take, with locals substituted back (line = self.line; if line: ...)
    wtf, tfpaths = paths_of(prog, tf, recv=prog.cls('tbutils.Callpoint'))
    line_tests = []
    for p_ in tfpaths:
        for t_, truth_, o_ in tests_on(wtf, p_):
            if 'self.line' in t_:
                line_tests.append(t_)
    line_ifs = sorted(set(line_tests))
    ok = bool(line_ifs) and all(t_ in ('self.line', 'str(self.line)', 'str(self.line).strip()', 'len(self.line)',
                                       'len(self.line) > 0') for t_ in line_ifs)
    ctx.ob('T19.line', tf.fq, 'the source line is emitted only when it is non-empty (truthiness test; the interpreter prints nothing '
           'for a frame without source)', ok, loc=tf.loc, detail=repr(line_ifs))
    # trailing noise lines ("Exception ... ignored") are discarded only when BOTH ends of the line say so: a line that merely
    # ends (or merely starts) that way is part of the exception message
    fs = prog.func('tbutils.ParsedException.from_string')
    n_disc = 0
    for n in ast.walk(fs.node):
        is_pop = isinstance(n, ast.Call) and isinstance(n.func, ast.Attribute) and n.func.attr == 'pop' and not n.args
        if not is_pop:
            continue
        for conj in guard_dnf(fs, n):
            ends = {a.func.attr for a, truth in conj if truth and isinstance(a, ast.Call) and isinstance(a.func, ast.Attribute)
                    and a.func.attr in ('startswith', 'endswith')}
            if not ends:
                continue            # decided by something else (e.g. a pattern match): nothing to say
            n_disc += 1
            ctx.ob('T7.discard', fs.fq, 'an input line is discarded as interpreter noise only under a guard that tests both its '
                   'beginning and its end', ends == {'startswith', 'endswith'}, loc=loc(fs, n),
                   detail='one way to reach the discard tests only: ' + ' and '.join(txt(a) for a, t in conj))
    if n_disc == 0:
        ctx.info('T7.discard: no prefix/suffix-guarded line discard in from_string (nothing to check)')
    # limit=None means "the interpreter's default"; limit=0 is a valid request for no frames (as in the traceback module)
    from rules.common import check_none_default, check_identity_only
    for nm in ('from_traceback', 'from_frame'):
        check_none_default(ctx, prog.func('tbutils.TracebackInfo.' + nm), 'limit', rule='T19c')
    # an exception instance may be falsy (defines __len__/__bool__): only `is None` decides whether there is a value
    ffl = prog.module('tbutils').functions.get('_format_final_exc_line')
    if ffl is not None and len(ffl.params) >= 2:
        check_identity_only(ctx, ffl, ffl.params[1], 'T19.value', 'a falsy exception instance still has a message to print')
    # the text is only left-trimmed before it is split: trailing blanks belong to the exception message
    tb_param = fs.params[1] if len(fs.params) > 1 else 'tb_str'
    trims = [n for n in ast.walk(fs.node) if isinstance(n, ast.Call) and isinstance(n.func, ast.Attribute) and
             n.func.attr in ('strip', 'rstrip') and not n.args and root_is(n.func.value, tb_param)]
    ctx.ob('T9.trim', fs.fq, 'the traceback text is never right-trimmed as a whole (trailing blanks are part of the message)', not trims,
           loc=loc(fs, trims[0]) if trims else fs.loc, detail=txt(trims[0]) if trims else '')
    # T9.walk: the two frame walkers (sibling implementations).  Each step of the walking loop records a call point built from
    # the cursor, advances the cursor along its link (tb_next / f_back) and counts the step; the loop stops on `cursor is None`
    # and on the limit; from_frame walks from the innermost frame outwards and therefore reverses before returning
    tci = prog.cls('tbutils.TracebackInfo')
    for nm, link, factory in (('from_traceback', 'tb_next', 'from_tb'), ('from_frame', 'f_back', 'from_frame')):
        wf_ = prog.func('tbutils.TracebackInfo.' + nm)
        loops = [n for n in ast.walk(wf_.node) if isinstance(n, ast.While)]
        if len(loops) != 1:
            # the walking loop is not a named anchor of the property: a different shape (e.g. a shared generator) is not judged
            ctx.info('T9.walk: %s has no single walking loop of its own (%d found): not decided' % (wf_.fq, len(loops)))
            continue
        lp = loops[0]
        # the cursor: the name re-bound from <name>.<link> inside the loop
        adv = [n for n in ast.walk(lp) if isinstance(n, ast.Assign) and len(n.targets) == 1 and isinstance(n.targets[0], ast.Name)
               and isinstance(n.value, ast.Attribute) and n.value.attr == link and txt(n.value.value) == n.targets[0].id]
        cur = adv[0].targets[0].id if adv else None
        conds = {cmp_text_(c, cur) for c in ast.walk(lp.test) if isinstance(c, ast.Compare)} if cur else set()
        counters = [n for n in ast.walk(lp) if isinstance(n, ast.AugAssign) and isinstance(n.op, ast.Add) and isinstance(n.target, ast.Name)]
        counters += [n for n in ast.walk(lp) if isinstance(n, ast.Assign) and len(n.targets) == 1 and isinstance(n.targets[0], ast.Name)
                     and isinstance(n.value, ast.BinOp) and isinstance(n.value.op, ast.Add) and n.targets[0].id in txt(n.value)
                     and n not in adv]
        cname = txt(counters[0].target if isinstance(counters[0], ast.AugAssign) else counters[0].targets[0]) if counters else None
        stops_none = cur is not None and ('%s is not None' % cur) in conds
        stops_limit = cname is not None and any(c in conds for c in ('%s < limit' % cname, 'limit > %s' % cname)) or \
            any(('limit' in c and cname and cname in c) for c in conds) or any(c.startswith('len(') and 'limit' in c for c in conds)
        ctx.ob('T9.walk', wf_.fq, 'the walking loop runs while the cursor is not None and the limit is not reached', bool(stops_none and stops_limit),
               loc=loc(wf_, lp), detail='loop test `%s`' % txt(lp.test))
        w_, paths_ = paths_of(prog, wf_, recv=tci)
        bad = None
        n_it = 0
        for p in paths_:
            its = [o for o in p.ops if o.kind == 'loop_iter']
            bounds = [o.seq for o in its] + [10 ** 9]
            for a, b in zip(bounds, bounds[1:]):
                seg = [o for o in p.ops if a < o.seq < b]
                if not any(o.kind == 'test' and o.info is True and o.node is lp.test or
                           (o.kind == 'test' and o.info is True and any(o.node is c for c in ast.walk(lp.test))) for o in seg):
                    continue
                # only complete iterations (followed by another loop_iter or by the loop exit test)
                n_it += 1
                made = any(o.kind == 'call' and isinstance(o.val.func, ast.Attribute) and o.val.func.attr == factory for o in seg)
                kept = any(o.kind == 'call' and isinstance(o.val.func, ast.Attribute) and o.val.func.attr in ('append', 'insert', 'appendleft')
                           for o in seg)
                moved = any(o.kind == 'name_store' and isinstance(o.node, ast.Name) and o.node.id == cur and
                            isinstance(o.val, ast.Attribute) and o.val.attr == link for o in seg) if cur else False
                counted = any((o.kind == 'aug' and txt(o.node.target) == cname) or
                              (o.kind == 'name_store' and isinstance(o.node, ast.Name) and o.node.id == cname and isinstance(o.val, ast.BinOp))
                              for o in seg) if cname else False
                if cname is None and any(c.startswith('len(') and 'limit' in c for c in conds):
                    counted = kept            # the collected list itself is the step counter
                if not (made and kept and moved and counted) and bad is None:
                    bad = (p, 'call point made: %s, kept: %s, cursor advanced: %s, step counted: %s' % (made, kept, moved, counted))
        if n_it == 0:
            ctx.unknown('T9.walk', wf_.fq, 'no complete iteration of the walking loop enumerated', wf_.loc)
        else:
            ctx.ob('T9.walk', wf_.fq, 'every step records a call point (%s) of the cursor, advances the cursor along %s and counts the step'
                   % (factory, link), bad is None, loc=loc(wf_, lp), detail=bad[1] if bad else '', path=bad[0].describe() if bad else None)
        if nm == 'from_frame':
            revd = True
            for p in paths_:
                if p.kind == 'return' and any(o.kind == 'loop_iter' for o in p.ops):
                    last_it = max(o.seq for o in p.ops if o.kind == 'loop_iter')
                    if not any(o.kind == 'call' and ((isinstance(o.val.func, ast.Attribute) and o.val.func.attr == 'reverse') or
                                                     txt(o.val.func) == 'reversed') and o.seq > last_it for o in p.ops) and \
                            not any(o.kind == 'call' and isinstance(o.val.func, ast.Attribute) and o.val.func.attr in ('insert', 'appendleft')
                                    for o in p.ops) and \
                            not any(o.kind == 'sub_load' and isinstance(o.val, ast.Subscript) and isinstance(o.val.slice, ast.Slice) and
                                    o.val.slice.lower is None and o.val.slice.upper is None and txt(o.val.slice.step) == '-1' and
                                    o.seq > last_it for o in p.ops):
                        revd = False
            ctx.ob('T9.walk', wf_.fq, 'frames are collected innermost first and reversed before they are returned (most recent call last)',
                   revd, loc=wf_.loc)
    # T25.modtable: the exception type is printed with its module prefixed unless the module is one the interpreter leaves out
    # ("__main__" and "builtins", see traceback.TracebackException.format_exception_only).  Every table of unprefixed modules in
    # tbutils (ExceptionInfo.from_exc_info, format_exception_only) contains both, and the sibling tables agree up to the Python 2
    # names.
    from sa.consteval import Folder as _F, Unknown as _U
    tb_mod = prog.module('tbutils')
    tables = []
    for fi in tb_mod.all_funcs:
        for n in ast.walk(fi.node):
            if isinstance(n, ast.Compare) and len(n.ops) == 1 and isinstance(n.ops[0], (ast.In, ast.NotIn)):
                try:
                    tv = _F(tb_mod).fold(n.comparators[0])
                except (_U, Exception):
                    continue
                if isinstance(tv, (tuple, list, set, frozenset)) and tv and all(isinstance(x, str) for x in tv) and 'builtins' in tv:
                    tables.append((fi, n, frozenset(tv)))
    if not tables:
        ctx.unknown('T25.modtable', 'tbutils', 'no table of unprefixed exception modules (a membership test against names including '
                    '"builtins") found', tb_mod.relpath)
    LEGACY = {'__builtin__', 'exceptions'}
    for fi, n, tv in tables:
        ok = {'__main__', 'builtins'} <= tv and all((tv - LEGACY) == (t2 - LEGACY) for _, _, t2 in tables)
        ctx.ob('T25.modtable', fi.fq, 'the modules left out of the printed exception type are the interpreter\'s ("__main__", "builtins"), '
               'as in the sibling table', ok, loc=loc(fi, n), detail='table %s' % sorted(tv))
    # sibling constructors give the deferred line the frame's module globals (needed for loader-backed sources)
    cci = prog.cls('tbutils.Callpoint')
    for name, gl in (('from_tb', 'f_globals'), ('from_frame', 'f_globals')):
        cf = prog.func('tbutils.Callpoint.' + name)

        class ClsInl(Quiet):          # private helpers of the class (called on cls / self) are seen in context
            def inline(self, walker, op, callee, st):
                rv = op.recv_val
                return isinstance(rv, ast.Name) and rv.id in ('cls', 'self') and callee.name.startswith('_') and \
                    not callee.name.startswith('__')
        w2, paths2 = paths_of(prog, cf, recv=cci, model=ClsInl(prog))
        seen_dl = 0
        for p2 in paths2:
            for o in p2.ops:
                if o.kind == 'call' and call_name(o.val) == '_DeferredLine':
                    seen_dl += 1
                    argv = list(o.val.args) + [k.value for k in o.val.keywords]
                    exp = [txt(w2.expand(a)) for a in argv]
                    ok = len(argv) >= 3 and any(gl in e for e in exp[2:])
                    ctx.ob('T25.globals', cf.fq, 'the source line is looked up with the frame\'s module globals (as its sibling '
                           'constructor and the traceback module do)', ok, loc=loc(cf, o.node), detail='_DeferredLine(%s)' % ', '.join(exp))
        if not seen_dl:
            ctx.unknown('T25.globals', cf.fq, 'no _DeferredLine(...) construction found', cf.loc)
        else:
            # ... and on every path: a call point without a deferred line shows no source text where the traceback module
            # (which asks linecache for any file name, including registered '<...>' names) shows one
            without = [p2 for p2 in paths2 if p2.kind == 'return' and
                       not any(o.kind == 'call' and call_name(o.val) == '_DeferredLine' for o in p2.ops)]
            ctx.ob('T25.line', cf.fq, 'every call point is built with a deferred source line (no file name is exempted)', not without,
                   loc=cf.loc, path=without[0].describe() if without else None)
    # T9.trimmsg: ExceptionInfo renders "<type>: <message>" with the message as it is: the rendered text is never stripped
    eci = prog.cls('tbutils.ExceptionInfo')
    for nm in ('get_formatted', 'get_formatted_exception_only'):
        gf = prog.resolve(eci, nm)
        if not isinstance(gf, FuncInfo):
            raise AnalysisError('anchor vanished: ExceptionInfo.%s' % nm)
        from rules.common import PrivInl as _PI
        bad = None
        for e_, p_, w_ in returned_values(prog, gf, recv=eci, model=_PI(prog)):
            if e_ is None:
                continue
            for c in ast.walk(e_):
                if isinstance(c, ast.Call) and isinstance(c.func, ast.Attribute) and c.func.attr in ('strip', 'rstrip', 'lstrip'):
                    rt = txt(c.func.value)
                    for x in ast.walk(c.func.value):          # f-string tokens: look at the values of their holes
                        if isinstance(x, ast.Name) and x.id.startswith('$s'):
                            info = w_.tokens.get(x.id)
                            if info and len(info) > 3:
                                rt += ' ' + ' '.join(txt(w_.expand(v)) for v in info[3])
                    if 'exc_msg' in rt:
                        bad = (c, p_)
        ctx.ob('T9.trimmsg', gf.fq, 'the rendered exception line is not stripped (trailing blanks belong to the message)', bad is None,
               loc=gf.loc, detail=txt(bad[0])[:100] if bad else '', path=bad[1].describe() if bad else None)
    # the frame patterns accept any path / function text and digits for the line number
    import re._parser as sre_parse
    import re._constants as sre_c
    for rname in ('_frame_re', '_se_frame_re'):
        pt, fl, nd, at = module_regex(prog, 'tbutils', rname)
        pp = sre_parse.parse(pt)
        gnames = {v: k for k, v in pp.state.groupdict.items()}
        for op, av in pp:
            if op is sre_c.SUBPATTERN:
                g = gnames.get(av[0])
                body = list(av[3])
                # which of a set of probe characters can the group's repeated atom match?
                PROBES = ['"', "'", ' ', ',', '<', '>', '\\', '/', ':', 'a', 'Z', '_', '.', '0', '7', chr(0xe9), chr(0x4e2d)]
                kind = 'unrecognised'
                acc = None
                if len(body) == 1 and body[0][0] in (sre_c.MAX_REPEAT, sre_c.MIN_REPEAT) and len(body[0][1][2]) == 1:
                    inner = body[0][1][2][0]
                    acc = {c for c in PROBES if _atom_accepts(inner, c)}
                if g == 'lineno':
                    ok = acc is not None and acc == {'0', '7'}
                    what = 'decimal digits only'
                else:
                    ok = acc is not None and acc == set(PROBES)
                    what = 'any text (paths and names may contain quotes, spaces, punctuation, non-ASCII)'
                ctx.ob('T12.groups', 'tbutils.' + rname, 'group %s accepts %s' % (g, what), ok,
                       loc='%s:%d' % (mod.relpath, nd.lineno),
                       detail='rejects %r' % sorted(set(PROBES) - acc) if acc is not None else 'group body is not a repeated single atom')
    # _DeferredLine.__str__: checkcache before getline
    ds = prog.func('tbutils._DeferredLine.__str__')
    ci = prog.cls('tbutils._DeferredLine')
    w, paths = paths_of(prog, ds, recv=ci)
    n_get = 0
    for p in paths:
        gets = [o for o in p.ops if o.kind == 'call' and call_name(o.node) == 'linecache.getline']
        for g in gets:
            n_get += 1
            chk = [o for o in p.ops if o.kind == 'call' and call_name(o.node) == 'linecache.checkcache' and o.seq < g.seq
                   and o.val.args and g.val.args and txt(o.val.args[0]) == txt(g.val.args[0])]
            ctx.ob('T9.cache', ds.fq, 'linecache.checkcache(filename) precedes linecache.getline(filename, ...) (stale source is '
                   'not shown)', bool(chk), loc=loc(ds, g.node), path=p.describe() if not chk else None)
    if n_get == 0:
        ctx.unknown('T9.cache', ds.fq, 'no linecache.getline call found', ds.loc)
    for r, n in (('T12.frame', 4), ('T12.keys', 1), ('T12.header', 1), ('T12.excline', 1), ('T12.srcline', 1), ('T19.line', 1), ('T9.cache', 1)):
        ctx.need(r, n)
