"""C10 -- priority queues (structural clauses)."""
import ast
from sa.index import AnalysisError, FuncInfo
from sa.paths import call_name, Model
from rules.common import txt, paths_of, loc, tests_on, Quiet
from rules.locks import is_private
from sa.consteval import Folder, Unknown

BASE = 'queueutils.BasePriorityQueue'
CONCRETE = ('queueutils.HeapPriorityQueue', 'queueutils.SortedPriorityQueue')

SPEC = {
    'explanation': (
        'Static analysis of queueutils on every control-flow path of add/remove/pop/peek/_cull, per concrete queue class. '
        'Decided: T9 every normal path of add draws a fresh insertion count from the instance counter, builds the entry '
        '[priority, count, task], records it in the entry map and pushes it, and when the task is already queued removes '
        'the old entry first (re-adding replaces priority and arrival position on all paths, no early return); T9 in '
        'peek/pop the lazy-deletion cull precedes every access to the head of the backend; _cull pops only entries whose '
        'task slot is the tombstone; T2 remove pops the entry map and tombstones the task slot of the entry (last slot of '
        'the 3-slot layout), pop deletes the popped task from the entry map; all entry destructurings have arity 3 with '
        'the task last; T11 the counter is created once in __init__ from itertools.count(); every concrete class overrides '
        '_push_entry and _pop_entry consistently with its backend (heappush/heappop, insort/pop(0)) and __len__ reads the '
        'entry map. Not decided: the order maintained by the backends themselves (heap invariant, BarrelList index '
        'translation), observational identity at large sizes.'
        ' T9.head: peek/pop read only the head of the backend. T14.empty: the IndexError for an empty queue originates at the head access after culling. T9.translate: BarrelList sub-list positions come from _translate_index or a provably single sub-list.'
        ' T11.pq: the base class changes the entry list only through the backend hooks.'
        ' T14.default/T2.peek/T9.cullpost: answers of peek/pop on empty and live queues; _cull returns only after seeing a live head.'),
    'decided': ['peek/pop answers', '_cull postcondition', 'entry list mutated only through hooks', 'head-only access', 'empty-queue IndexError origin', 'BarrelList position provenance', 'add path discipline (fresh count, replace on re-add)', 'cull before head access', 'tombstone/entry-map pairing',
                'entry layout agreement', 'counter ownership', 'backend hook completeness'],
    'declined': ['backend ordering (heapq, bisect, BarrelList arithmetic)', 'identity of both queues at any size'],
    'trusted_base': ['heapq and bisect.insort keep their documented invariants on lists of entries'],
    'assumptions': [], 'exhaustive': True,
}
SPEC['explanation'] += ' T11.heap: the heap backend hooks change the list only through heapq. T9.scan: the sub-list index returned by BarrelList._translate_index is the one its scan stopped at (never a literal). T9.rmsub: a sub-list is dropped from `lists` only after that very sub-list was seen empty.'
SPEC['decided'] += ['heap changed only through heapq', 'sub-list index comes from the scan', 'dropped sub-list is the emptied one']
SPEC['explanation'] += ' T11.pq also rejects replacing the entry list wholesale outside __init__ (a filtered copy of a heap is not a heap).'
SPEC['decided'] += ['entry list never replaced outside __init__']
SPEC['explanation'] += ' T19t: BarrelList.pop never tests its index by truthiness (0 is a position).'
SPEC['decided'] += ['index 0 is a position']
MANIFEST = {
    'technique': 'must-pass-through and pairing analysis over all CFG paths (receiver-sensitive), layout agreement, who-may-write',
    'text': ('Decides structural necessary conditions of C10 on all paths: FIFO tie-breaking material (fresh monotone count on '
             'every add, old entry removed on re-add), lazy deletion never exposes a tombstone at the head, entry map and '
             'backend entries are kept paired. The backends\' own ordering arithmetic is not decided (partial).'),
    'note': 'Trusted: heapq / bisect invariants.',
}


class M(Quiet):
    def inline(self, walker, op, callee, st):
        rv = op.recv_val
        return isinstance(rv, ast.Name) and rv.id == 'self' and is_private(callee.name) and \
            callee.name not in ('_push_entry', '_pop_entry', '_get_priority')

    def call_raises(self, walker, op, st):
        if txt(op.val.func) == 'self._pop_entry':
            return ('IndexError',)
        return ()

    def sub_raises(self, walker, op, st):
        if op.kind == 'sub_load' and txt(walker.expand(op.val.value)) == 'self._pq':
            return ('IndexError',)
        return ()


def run(ctx):
    from rules.common import require_fields
    from rules.common import require_members, require_module_names
    require_members(ctx.program, 'queueutils.BasePriorityQueue', ['add', 'remove', '_cull', 'pop', 'peek', '_push_entry', '_pop_entry'])
    require_members(ctx.program, 'listutils.BarrelList', ['_translate_index', 'insert', 'pop', '_balance_list'])
    require_module_names(ctx.program, 'queueutils', ['_REMOVED'])
    require_fields(ctx.program, 'queueutils.BasePriorityQueue', ['_pq', '_entry_map', '_counter'])
    require_fields(ctx.program, 'listutils.BarrelList', ['lists'])
    prog = ctx.program
    barrel_positions(ctx, prog)
    base = prog.cls(BASE)
    for cls in CONCRETE:
        ci = prog.cls(cls)
        ctx.saw('classes', cls)
        # hooks
        for h in ('_push_entry', '_pop_entry'):
            m = ci.own(h)
            ctx.ob('T1.hook', '%s.%s' % (cls, h), 'backend hook is overridden by the concrete queue (the base one is a no-op)',
                   isinstance(m, FuncInfo) and m.is_static(), loc=ci.module.relpath + ':%d' % ci.node.lineno)
        pe, po = ci.own('_push_entry'), ci.own('_pop_entry')
        if isinstance(pe, FuncInfo) and isinstance(po, FuncInfo):
            from rules.common import with_helpers as _wh
            pe_scope, po_scope = _wh(prog, pe), _wh(prog, po)          # a hook may delegate to a private module function
            pcalls = {call_name(n) if not isinstance(n.func, ast.Attribute) else n.func.attr
                      for f_ in pe_scope for n in ast.walk(f_.node) if isinstance(n, ast.Call)}
            ocalls = {call_name(n) if not isinstance(n.func, ast.Attribute) else n.func.attr
                      for f_ in po_scope for n in ast.walk(f_.node) if isinstance(n, ast.Call)}
            pair_ok = (('heappush' in pcalls and 'heappop' in ocalls) or ('insort' in pcalls and 'pop' in ocalls) or
                       ('insort_right' in pcalls and 'pop' in ocalls))
            rets = [n for n in ast.walk(po.node) if isinstance(n, ast.Return) and n.value is not None]
            pop0 = True
            if 'pop' in ocalls:
                def _is_zero(e):
                    try:
                        return Folder(po.module).fold(e) == 0
                    except Unknown:
                        return False
                pop0 = any(isinstance(n, ast.Call) and isinstance(n.func, ast.Attribute) and n.func.attr == 'pop' and n.args
                           and _is_zero(n.args[0]) for f_ in po_scope for n in ast.walk(f_.node))
            ctx.ob('T1.hook', cls, 'push/pop hooks are a matching pair for the backend and _pop_entry returns the smallest entry',
                   pair_ok and bool(rets) and pop0, loc=po.loc, detail='push uses %s, pop uses %s' % (sorted(pcalls), sorted(ocalls)))
        # T11.heap: the heap backend is changed only through heapq (a plain list mutator bypasses the sift and breaks the
        # heap order on which "pop returns the smallest entry" rests)
        if isinstance(pe, FuncInfo) and isinstance(po, FuncInfo) and 'heappush' in pcalls:
            for hk in (pe, po):
                bk = hk.params[0] if hk.params else None
                resort = any(isinstance(n, ast.Call) and (call_name(n) in ('heapify', 'heapq.heapify') or
                                                         (isinstance(n.func, ast.Attribute) and n.func.attr == 'sort'))
                             for n in ast.walk(hk.node))
                raw = [n for n in ast.walk(hk.node) if
                       (isinstance(n, ast.Call) and isinstance(n.func, ast.Attribute) and txt(n.func.value) == bk and
                        n.func.attr in ('append', 'insert', 'extend', 'pop', 'remove', 'reverse', '__setitem__', '__delitem__')) or
                       (isinstance(n, ast.Subscript) and isinstance(n.ctx, (ast.Store, ast.Del)) and txt(n.value) == bk)]
                if resort:
                    ctx.info('T11.heap: %s re-establishes the heap itself (heapify/sort); raw mutators not judged' % hk.fq)
                    continue
                for n in raw:
                    ctx.ob('T11.heap', hk.fq, 'the heap is changed only through heapq: `%s` bypasses the sift' % txt(n)[:60], False,
                           loc=loc(hk, n))
                if not raw:
                    ctx.ob('T11.heap', hk.fq, 'the heap is changed only through heapq (no raw list mutator on `%s`)' % bk, True, loc=hk.loc)
        # add
        add = prog.resolve(ci, 'add')
        w, paths = paths_of(prog, add, recv=ci, model=M(prog))
        for p in paths:
            if p.kind != 'return':
                continue
            nxt = [o for o in p.ops if o.kind == 'call' and call_name(o.node) == 'next' and o.val.args and txt(o.val.args[0]) == 'self._counter']
            tok = None
            if nxt:
                tok = [nm for nm, info in w.tokens.items() if info[0] == 'call' and len(info) > 2 and info[2] is nxt[0]]
            pushes = [o for o in p.ops if o.kind == 'call' and txt(o.val.func) == 'self._push_entry']
            stores = [o for o in p.ops if o.kind == 'sub_store' and txt(o.val.value) == 'self._entry_map']
            ok = bool(nxt) and bool(pushes) and bool(stores)
            det = ''
            if ok:
                ent = pushes[0].val.args[1] if len(pushes[0].val.args) > 1 else None
                info = w.tokens.get(getattr(ent, 'id', ''), None)
                elts = [txt(x) for x in info[3]] if info and info[0] == 'fresh' and info[1] == 'list' else None
                det = 'entry %s' % elts
                ok = elts is not None and len(elts) == 3 and elts[1] == tok[0] and elts[2] == 'task' and \
                    txt(stores[0].val.slice) == 'task' and txt(stores[0].info) == txt(ent) and txt(pushes[0].val.args[0]) == 'self._pq'
                # priority slot is the effective priority
                ok = ok and ('_get_priority' in txt(w.expand(info[3][0])))
            ctx.ob('T9.add', '%s.add' % cls, 'every add draws a fresh count, builds [effective priority, count, task], maps and pushes it',
                   ok, loc=add.loc, detail=det, path=p.describe() if not ok else None)
            ts = tests_on(w, p)
            queued = [o for t, truth, o in ts if t == 'task in self._entry_map' and truth]
            if queued:
                rm = [o for o in p.ops if o.kind == 'call' and txt(o.val.func) == 'self.remove' and o.seq > queued[0].seq
                      and (not stores or o.seq < stores[0].seq)]
                ctx.ob('T9.readd', '%s.add' % cls, 're-adding a queued task removes its old entry before the new one is made', bool(rm),
                       loc=add.loc, path=p.describe() if not rm else None)
        # remove
        rm = prog.resolve(ci, 'remove')
        w, paths = paths_of(prog, rm, recv=ci, model=M(prog))
        for p in paths:
            if p.kind != 'return':
                continue
            pops = [o for o in p.ops if o.kind == 'call' and txt(o.val.func) == 'self._entry_map.pop']
            tomb = [o for o in p.ops if o.kind == 'sub_store' and txt(o.info) == '_REMOVED' and txt(o.val.slice) in ('-1', '2')]
            ok = bool(pops) and bool(tomb)
            if ok:
                tok = [nm for nm, info in w.tokens.items() if info[0] == 'call' and len(info) > 2 and info[2] is pops[0]]
                ok = txt(tomb[0].val.value) == tok[0] and txt(pops[0].val.args[0]) == 'task' and len(pops[0].val.args) == 1
            ctx.ob('T2.remove', '%s.remove' % cls, 'remove pops the task from the entry map and tombstones the task slot of that very entry',
                   ok, loc=rm.loc, path=p.describe() if not ok else None)
        # peek / pop
        for name in ('peek', 'pop'):
            f = prog.resolve(ci, name)
            w, paths = paths_of(prog, f, recv=ci, model=M(prog))
            for p in paths:
                heads = [o for o in p.ops if o.depth == 0 and ((o.kind == 'sub_load' and txt(o.val) == 'self._pq[0]') or
                                                              (o.kind == 'call' and txt(o.val.func) == 'self._pop_entry'))]
                for h in heads:
                    culls = [o for o in p.ops if o.kind == 'call' and txt(o.val.func) == 'self._cull' and o.seq < h.seq]
                    between = [o for o in p.ops if culls and culls[-1].seq < o.seq < h.seq and o.depth == 0 and o.kind == 'call'
                               and txt(o.val.func) in ('self.remove', 'self.add', 'self._push_entry')]
                    ok = bool(culls) and not between
                    ctx.ob('T9.cull', '%s.%s' % (cls, name), 'removed entries are culled before the head of the backend is read or popped',
                           ok, loc=loc(f, h.node), path=p.describe() if not ok else None)
                # the backend is ordered only at its head: peek/pop never scan it
                scans = [o for o in p.ops if o.depth == 0 and o.kind == 'iter_start' and txt(w.expand(o.val)) == 'self._pq']
                if scans:
                    ctx.ob('T9.head', '%s.%s' % (cls, name), 'the backend is read only at its head (a heap is not sorted: scanning it in '
                           'storage order does not find the highest priority)', False, loc=loc(f, scans[0].node), path=p.describe())
                # an empty (or tombstone-only) queue is answered by the default: IndexError raised by the cull or by the
                # backend must not leave the method on its own
                if p.kind == 'raise' and p.outcome[1] == 'IndexError':
                    last = [o for o in p.ops if o.kind in ('raise', 'raise_at')][-1]
                    own = last.kind == 'raise'          # an explicit raise statement of the method or of a private helper of it
                    ctx.ob('T14.empty', '%s.%s' % (cls, name), 'IndexError from culling / the backend is caught and turned into the default '
                           '(or the method\'s own IndexError)', own, loc=loc(f, last.node), path=p.describe() if not own else None)
                if name == 'pop' and p.kind == 'return':
                    raised_nodes = {id(x.node) for x in p.ops if x.kind == 'raise_at'}
                    popc = [o for o in p.ops if o.depth == 0 and o.kind == 'call' and txt(o.val.func) == 'self._pop_entry'
                            and id(o.node) not in raised_nodes]
                    if popc:
                        dels = [o for o in p.ops if o.kind == 'sub_del' and txt(o.val.value) == 'self._entry_map' and o.seq > popc[0].seq]
                        tok = [nm for nm, info in w.tokens.items() if info[0] == 'call' and len(info) > 2 and info[2] is popc[0]]
                        ok = bool(dels) and txt(dels[0].val.slice) == '%s[2]' % tok[0] and txt(p.outcome[1]) == '%s[2]' % tok[0]
                        ctx.ob('T2.pop', '%s.pop' % cls, 'pop deletes the popped task (3rd slot) from the entry map and returns it', ok,
                               loc=f.loc, path=p.describe() if not ok else None)
        # answers of peek/pop: a live queue answers with the task slot of the head entry; an empty one with the caller's
        # default when one was given (the sentinel test), else with IndexError
        for name in ('peek', 'pop'):
            f = prog.resolve(ci, name)
            dparam = f.params[1] if len(f.params) > 1 else 'default'
            w, paths = paths_of(prog, f, recv=ci, model=M(prog))
            for p in paths:
                caught = [o for o in p.ops if o.kind == 'except' and o.info == 'IndexError' and o.depth == 0]
                given = [truth for t, truth, o in tests_on(w, p) if cmp_text_safe(t) in ('%s is not _REMOVED' % dparam,)]
                given += [not truth for t, truth, o in tests_on(w, p) if cmp_text_safe(t) in ('%s is _REMOVED' % dparam,)]
                if caught:
                    if p.kind == 'return':
                        ok = bool(given) and given[-1] is True and txt(p.outcome[1]) == dparam
                        ctx.ob('T14.default', '%s.%s' % (cls, name), 'an empty queue is answered with the caller\'s default exactly when one '
                               'was given', ok, loc=f.loc, path=p.describe() if not ok else None)
                    elif p.kind == 'raise' and p.outcome[1] == 'IndexError':
                        ok = bool(given) and given[-1] is False
                        ctx.ob('T14.default', '%s.%s' % (cls, name), 'without a default an empty queue raises IndexError', ok, loc=f.loc,
                               path=p.describe() if not ok else None)
                elif p.kind == 'return' and name == 'peek':
                    heads = [o for o in p.ops if o.depth == 0 and o.kind == 'sub_load' and txt(w.expand(o.val)) == 'self._pq[0]']
                    ok = bool(heads) and txt(w.expand(p.outcome[1])) in ('self._pq[0][2]', 'self._pq[0][-1]')
                    ctx.ob('T2.peek', '%s.peek' % cls, 'peek returns the task slot of the head entry', ok, loc=f.loc,
                           detail='returns %s' % txt(w.expand(p.outcome[1])), path=p.describe() if not ok else None)
        # _cull leaves a live head: every normal return either found the list empty or just saw a head that is not a tombstone
        cu = prog.resolve(ci, '_cull')
        w, paths = paths_of(prog, cu, recv=ci, model=Quiet(prog))
        n_post = 0
        for p in paths:
            if p.kind != 'return':
                continue
            pops_ = [o for o in p.ops if o.kind == 'call' and txt(o.val.func) == 'self._pop_entry']
            last_pop = pops_[-1].seq if pops_ else -1
            ts = [(t, truth) for t, truth, x in tests_on(w, p) if x.seq > last_pop]
            live = any((t.endswith(('[2] is _REMOVED', '[-1] is _REMOVED')) and not truth) or
                       (t.endswith(('[2] is not _REMOVED', '[-1] is not _REMOVED')) and truth) for t, truth in ts)
            empty = any(t in ('self._pq',) and not truth for t, truth in ts)
            n_post += 1
            ctx.ob('T9.cullpost', '%s._cull' % cls, '_cull returns only after seeing a live head (or an empty list) since its last pop',
                   live or empty, loc=cu.loc, path=p.describe() if not (live or empty) else None)
        # _cull pops only tombstones
        for p in paths:
            for o in p.ops:
                if o.kind == 'call' and txt(o.val.func) == 'self._pop_entry':
                    last_iter = max([x.seq for x in p.ops if x.kind == 'loop_iter' and x.seq < o.seq] or [-1])
                    ts = [(t, truth) for t, truth, x in tests_on(w, p, upto_seq=o.seq) if x.seq > last_iter]
                    ok = any((t.endswith(('[2] is _REMOVED', '[-1] is _REMOVED')) and truth) or
                             (t.endswith(('[2] is not _REMOVED', '[-1] is not _REMOVED')) and not truth) for t, truth in ts)
                    ctx.ob('T9.cullonly', '%s._cull' % cls, '_cull pops an entry only when its task slot is the tombstone', ok, loc=loc(cu, o.node),
                           detail=str(ts))
        ln = prog.resolve(ci, '__len__')
        ctx.ob('T17.len', cls + '.__len__', 'len is the size of the entry map (live tasks)', isinstance(ln, FuncInfo) and
               'len(self._entry_map)' in ast.unparse(ln.node), loc=ln.loc if isinstance(ln, FuncInfo) else '')
    # layout arity
    for name, m in base.members.items():
        if not isinstance(m, FuncInfo):
            continue
        pq_alias = {x.targets[0].id for x in ast.walk(m.node) if isinstance(x, ast.Assign) and txt(x.value) == 'self._pq'
                    and isinstance(x.targets[0], ast.Name)}
        for x in ast.walk(m.node):      # pq, pop_entry = self._pq, self._pop_entry
            if isinstance(x, ast.Assign) and isinstance(x.targets[0], ast.Tuple) and isinstance(x.value, ast.Tuple) and \
                    len(x.targets[0].elts) == len(x.value.elts):
                pq_alias |= {t.id for t, v in zip(x.targets[0].elts, x.value.elts) if isinstance(t, ast.Name) and txt(v) == 'self._pq'}
        for n in ast.walk(m.node):
            if isinstance(n, ast.Assign) and isinstance(n.targets[0], ast.Tuple) and not isinstance(n.value, ast.Tuple) and (
                    '_pq' in txt(n.value) or '_pop_entry' in txt(n.value) or
                    (isinstance(n.value, ast.Subscript) and txt(n.value.value) in pq_alias)):
                t = n.targets[0]
                # names of this function used in the task role: compared with the tombstone, used as entry-map key, returned
                role = set()
                for x in ast.walk(m.node):
                    if isinstance(x, ast.Compare) and len(x.ops) == 1 and isinstance(x.ops[0], (ast.Is, ast.IsNot)) and \
                            '_REMOVED' in (txt(x.left), txt(x.comparators[0])):
                        role.update(y.id for y in (x.left, x.comparators[0]) if isinstance(y, ast.Name) and y.id != '_REMOVED')
                    if isinstance(x, ast.Subscript) and txt(x.value) == 'self._entry_map' and isinstance(x.slice, ast.Name):
                        role.add(x.slice.id)
                    if isinstance(x, ast.Return) and isinstance(x.value, ast.Name):
                        role.add(x.value.id)
                tnames = [txt(e) for e in t.elts]
                in_role = [nm for nm in tnames if nm in role]
                ctx.ob('T12.layout', '%s.%s' % (BASE, name), 'entry destructuring `%s` has the 3-slot layout with the task last' % txt(t),
                       len(t.elts) == 3 and all(nm == tnames[2] for nm in in_role), loc=loc(m, n),
                       detail='names used as the task: %s' % sorted(in_role))
        # the same layout read by index: <entry list>[0][k] used in the task role has k == 2 (or -1)
        role = set()
        for x in ast.walk(m.node):
            if isinstance(x, ast.Compare) and len(x.ops) == 1 and isinstance(x.ops[0], (ast.Is, ast.IsNot)) and \
                    '_REMOVED' in (txt(x.left), txt(x.comparators[0])):
                role.update(txt(y) for y in (x.left, x.comparators[0]) if txt(y) != '_REMOVED')
            if isinstance(x, ast.Subscript) and txt(x.value) == 'self._entry_map':
                role.add(txt(x.slice))
            if isinstance(x, ast.Return) and x.value is not None:
                role.add(txt(x.value))
        for n in ast.walk(m.node):
            if isinstance(n, ast.Subscript) and isinstance(n.value, ast.Subscript) and txt(n.value.value) in (pq_alias | {'self._pq'}) \
                    and txt(n.value.slice) == '0' and isinstance(n.ctx, ast.Load):
                k = txt(n.slice)
                named = {t.id for a in ast.walk(m.node) if isinstance(a, ast.Assign) and a.value is n for t in a.targets if isinstance(t, ast.Name)}
                in_role = txt(n) in role or bool(named & role)
                ctx.ob('T12.layout', '%s.%s' % (BASE, name), 'entry slot read `%s` follows the 3-slot layout with the task last' % txt(n),
                       (k in ('2', '-1')) if in_role else (k in ('0', '1', '-3', '-2', '2', '-1')), loc=loc(m, n),
                       detail='used as the task: %s' % in_role)
    # who may change the entry list: the backend hooks only (a heap popped with list.pop(0) loses its invariant)
    LIST_MUT = {'pop', 'append', 'insert', 'remove', 'extend', 'sort', 'reverse', 'clear', '__delitem__', '__setitem__'}
    n_w = 0
    for name, m in base.members.items():
        if not isinstance(m, FuncInfo):
            continue
        alias = {'self._pq'} | {x.targets[0].id for x in ast.walk(m.node) if isinstance(x, ast.Assign) and txt(x.value) == 'self._pq'
                                and isinstance(x.targets[0], ast.Name)}
        for n in ast.walk(m.node):
            bad = None
            if isinstance(n, ast.Call) and isinstance(n.func, ast.Attribute) and txt(n.func.value) in alias and n.func.attr in LIST_MUT:
                bad = '%s(...)' % txt(n.func)
            elif isinstance(n, ast.Subscript) and isinstance(n.ctx, (ast.Store, ast.Del)) and txt(n.value) in alias:
                bad = 'item store/delete on %s' % txt(n.value)
            elif isinstance(n, ast.Attribute) and isinstance(n.ctx, (ast.Store, ast.Del)) and txt(n) == 'self._pq' and \
                    name not in ('__init__',):
                # replaced wholesale by a list the base class built itself (e.g. a filtered copy: not a heap any more)
                bad = 'the entry list is replaced outside __init__'
            elif isinstance(n, ast.Call) and call_name(n) in ('heappop', 'heappush', 'heapq.heappop', 'heapq.heappush', 'insort',
                                                              'bisect.insort', 'bisect.insort_right') and n.args and txt(n.args[0]) in alias:
                bad = '%s on the entry list' % call_name(n)
            if bad:
                n_w += 1
                ctx.ob('T11.pq', '%s.%s' % (BASE, name), 'the entry list is changed only through the backend hooks _push_entry/_pop_entry '
                       '(the base class cannot know the backend\'s invariant)', False, loc=loc(m, n), detail=bad)
    if n_w == 0:
        ctx.ob('T11.pq', BASE, 'the entry list is changed only through the backend hooks _push_entry/_pop_entry', True, loc=base.module.relpath)
    # counter ownership
    writers = {}
    for c in (base,) + tuple(prog.cls(x) for x in CONCRETE):
        for name, m in c.members.items():
            if isinstance(m, FuncInfo):
                for n in ast.walk(m.node):
                    if isinstance(n, ast.Assign):
                        for t in n.targets:
                            if isinstance(t, ast.Attribute) and t.attr == '_counter':
                                writers.setdefault('%s.%s' % (c.name, name), []).append(txt(n.value))
    ok = list(writers) == ['BasePriorityQueue.__init__'] and writers['BasePriorityQueue.__init__'] in (['itertools.count()'], ['count()'])
    ctx.ob('T11.counter', BASE, 'the insertion counter is created once, in __init__, as itertools.count() (monotone tie-breaker)', ok,
           loc=base.module.relpath, detail=str(writers))
    for r, n in (('T1.hook', 6), ('T9.add', 2), ('T9.readd', 2), ('T2.remove', 2), ('T9.cull', 4), ('T2.pop', 2), ('T9.cullonly', 2),
                 ('T12.layout', 3), ('T11.counter', 1)):
        ctx.need(r, n)


def cmp_text_safe(t):
    return ' '.join(t.split())


def barrel_positions(ctx, prog):
    """BarrelList (backend of SortedPriorityQueue): a position inside one sub-list is meaningful only as the result of
    _translate_index, or when there is a single sub-list, or at the very end (append side).  Any other literal/derived
    position (e.g. lists[0].pop(0)) assumes a sub-list is non-empty / starts at global index 0, which the structure
    does not maintain (sub-lists may be empty)."""
    ci = prog.cls('listutils.BarrelList')
    ctx.saw('classes', 'listutils.BarrelList')
    n = 0
    for name in ('pop', 'insert', '__getitem__', '__delitem__', '__setitem__'):
        fn = ci.own(name)
        if not isinstance(fn, FuncInfo):
            continue
        class BL(Quiet):
            def inline(self, walker, op, callee, st):
                rv = op.recv_val
                return isinstance(rv, ast.Name) and rv.id == 'self' and is_private(callee.name) and \
                    callee.name not in ('_translate_index', '_balance_list')
        w, paths = paths_of(prog, fn, recv=ci, model=BL(prog))
        for p in paths:
            single = any(t in ('len(self.lists) == 1',) and truth for t, truth, o in tests_on(w, p))
            tr = set()
            for nm, info in w.tokens.items():
                if info[0] == 'call' and len(info) > 2 and isinstance(info[2].val, ast.Call) and \
                        txt(info[2].val.func) == 'self._translate_index':
                    tr.add(nm)
            for o in p.ops:
                sub = pos = None
                if o.kind == 'call' and isinstance(o.val.func, ast.Attribute) and o.val.func.attr in ('pop', 'insert') and o.val.args:
                    sub, pos = o.val.func.value, o.val.args[0]
                elif o.kind in ('sub_load', 'sub_store', 'sub_del') and isinstance(o.val, ast.Subscript):
                    sub, pos = o.val.value, o.val.slice
                if sub is None or not (isinstance(sub, ast.Subscript) and txt(sub.value) == 'self.lists'):
                    continue
                if isinstance(pos, ast.Slice):
                    continue
                n += 1
                j, i = txt(sub.slice), txt(pos)
                via = any(j == '%s[0]' % t and i == '%s[1]' % t for t in tr)
                ok = via or single
                ctx.ob('T9.translate', '%s.%s' % (ci.fq, name), 'a position inside a sub-list comes from _translate_index (or there is '
                       'provably a single sub-list)', ok, loc=loc(fn, o.node), detail='self.lists[%s] at position %s' % (j, i),
                       path=p.describe() if not ok else None)
    ctx.need('T9.translate', 5)
    from rules.common import check_no_truthiness
    popf = ci.own('pop')
    if isinstance(popf, FuncInfo) and any(isinstance(x, ast.Name) and x.id == 'index' for x in ast.walk(popf.node)):
        check_no_truthiness(ctx, popf, 'index', why='pop(0) addresses the first element, not "no index"')
    # T9.scan: the sub-list index handed out by _translate_index is found by the scan over the sub-lists (which is what skips
    # empty ones); a literal or otherwise derived sub-list index addresses a sub-list that may be empty
    tr = ci.own('_translate_index')
    if not isinstance(tr, FuncInfo):
        raise AnalysisError('anchor vanished: BarrelList._translate_index')
    w, paths = paths_of(prog, tr, recv=ci)
    loop_targets = {x.id for n_ in ast.walk(tr.node) if isinstance(n_, ast.For) for x in ast.walk(n_.target) if isinstance(x, ast.Name)}
    n_scan = 0
    for p in paths:
        if p.kind != 'return' or not isinstance(p.outcome[1], ast.Tuple) or len(p.outcome[1].elts) != 2:
            continue
        a = p.outcome[1].elts[0]
        if isinstance(a, ast.Constant) and a.value is None:
            continue
        n_scan += 1
        root = a
        while isinstance(root, ast.Subscript):          # `for i, sub in enumerate(lists)`: the index is <element>[0]
            root = root.value
        ok = isinstance(root, ast.Name) and (root.id.startswith('$e') or root.id in loop_targets)
        ctx.ob('T9.scan', tr.fq, 'the sub-list index returned is the one the scan over the sub-lists stopped at', ok, loc=tr.loc,
               detail='returns sub-list index `%s`' % txt(w.expand(a)), path=p.describe() if not ok else None)
    if n_scan == 0:
        ctx.unknown('T9.scan', tr.fq, 'no (sub-list, position) return found', tr.loc)
    # T9.rmsub: a sub-list is dropped from `lists` only after *that* sub-list was seen to be empty
    n_rm = 0
    for name, fn in ci.members.items():
        if not isinstance(fn, FuncInfo):
            continue
        if not any(isinstance(x, ast.Attribute) and x.attr == 'pop' or isinstance(x, ast.Delete) for x in ast.walk(fn.node)):
            continue
        w, paths = paths_of(prog, fn, recv=ci)
        for p in paths:
            ts = tests_on(w, p)
            for o in p.ops:
                k = None
                if o.kind == 'call' and isinstance(o.val.func, ast.Attribute) and o.val.func.attr == 'pop' and \
                        txt(w.expand(o.val.func.value)) == 'self.lists':
                    k = txt(w.expand(o.val.args[0])) if o.val.args else '-1'
                elif o.kind == 'sub_del' and isinstance(o.val, ast.Subscript) and txt(w.expand(o.val.value)) == 'self.lists' and \
                        not isinstance(o.val.slice, ast.Slice):
                    k = txt(w.expand(o.val.slice))
                if k is None:
                    continue
                n_rm += 1
                empt = ('self.lists[%s]' % k, 'len(self.lists[%s])' % k)
                ok = any(t in empt and not truth and x.seq < o.seq for t, truth, x in ts) or \
                    any(t in ('len(self.lists[%s]) == 0' % k,) and truth and x.seq < o.seq for t, truth, x in ts)
                ctx.ob('T9.rmsub', '%s.%s' % (ci.fq, name), 'the sub-list dropped from `lists` (index %s) is the one just seen to be empty' % k,
                       ok, loc=loc(fn, o.node), path=p.describe() if not ok else None)
    if n_rm == 0:
        ctx.info('T9.rmsub: no removal of a single sub-list in BarrelList (nothing to check)')
