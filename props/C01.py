"""C01 -- OrderedMultiDict == insertion-ordered list of pairs (structural clauses)."""
import ast
from rules import omdstep, onepass
from sa.index import FuncInfo
from sa.paths import call_name
from rules.common import check_get_none_presence, txt

SUBJECTS = ('dictutils.OrderedMultiDict', 'urlutils.OrderedMultiDict')

SPEC = {
    'explanation': (
        'Static analysis of dictutils.OrderedMultiDict and of its verbatim copy in urlutils (inherited by '
        'QueryParamDict), on every feasible control-flow path of every method with the private helpers '
        '(_insert/_remove/_remove_all/_clear_ll) inlined. Feasibility uses the invariant being proved, inductively: '
        'on entry both structures hold the same keys with equally long lists, so a lookup of a key cannot fail in one '
        'structure after succeeding in the other and the two emptiness tests of poplast agree. Decided: T1 every dict '
        'mutator and every list-exposing dict reader is overridden; T2 per path and per key: cells linked == values '
        'stored (same key, same value), popped cells == popped values, a key leaves both structures or neither, a '
        'value list is replaced only after the old cells were removed or the key was tested absent, no key is created '
        'with an empty list, every cell change (un)links the ring, no bulk C-level change of one structure; T3 '
        'arguments that may be one-shot iterators are traversed at most once per path; T4 no comparison result is '
        'discarded in __eq__/__ne__; T5 the copy protocol does not replay dict items; T8 read operations have no '
        'effect and never hand out a stored list; T18 clear() resets storage, cell map and ring; T23 a first-seen '
        'set is updated whenever its membership guard passes (update with repeated new keys). Not decided: that the '
        'ring order equals insertion order (pointer arithmetic), sortedvalues/__reversed__ arithmetic, value-level '
        'equality with the list model for every history.'
        ' T26: __eq__ takes no per-key decision on a None-defaulted .get() result. T17.init: the constructor loads keyword arguments through update (single values), not update_extend.'
        ' T27: consumers of the order of all pairs (__eq__ of two OMDs, __getstate__, copy, key-less poplast, popitem) enumerate through the all-pairs view (multi=True / the ring), never the per-key view. T28: unlink statements of the ring are well-formed.'
        ' T29: the padding of the pairwise OMD comparison is a unique sentinel. T19p/T9.consume: update/update_extend read and feed every source they accept. T14.default: sentinel-default protocol of getlist/pop/popall/poplast.'),
    'decided': ['sentinel padding in __eq__', 'no dropped source', 'sentinel-default protocol', 'pair-view consumption', 'splice shape', 'no presence decision on .get() None', 'constructor kwargs delegation', 'T1 override closure', 'T2 lock-step of value lists and cells', 'T3 one-pass arguments',
                'T4 no discarded comparison', 'T5 copy protocol', 'T8 observer purity / no stored list leaked',
                'T18 clear resets everything', 'T23 first-seen idiom'],
    'declined': ['ring pointer arithmetic / order of iteration', 'reads == list model for every history'],
    'trusted_base': ['CPython: C-level dict methods bypass overridden __setitem__/__delitem__',
                     'copy._reconstruct replays dictitems after __setstate__ (documented protocol)'],
    'assumptions': ['keys hashable; lists stored in the dict are only reachable through the class'],
    'exhaustive': True,
}

SPEC['explanation'] += ' T11.replace: update() never delegates to the adding bulk operations (update_extend / extend).'
SPEC['decided'] += ['update does not delegate to adding siblings']
SPEC['explanation'] += " T9.exhaust: two OMDs compare equal only on paths where both pair iterators were seen exhausted. T26 also covers setdefault and the other accessors (no presence decision on a None-defaulted get). T14.get: get/getlist/pop/poplast answer with a looked-up value or the caller's default."
SPEC['decided'] += ['both pair sequences exhausted before True', 'no None-presence decisions in accessors', 'default returned, never a constant']
SPEC['explanation'] += ' T17.sorted: sorted()/sortedvalues() hand the caller\'s key and reverse to the builtin unchanged.'
SPEC['decided'] += ['sort order parameters passed through']
MANIFEST = {
    'technique': 'paired-effect (lock-step) analysis over all feasible CFG paths with inlined helpers; MRO override closure; one-pass (consumption count) dataflow; copy-protocol and discarded-result rules',
    'text': ('Decides the structural half of C01 for every path of every method of both OMD copies: the per-key value '
             'lists and the linked cells are updated together (same key, same value, same count) on all feasible paths, '
             'no mutator or list-exposing reader is inherited from dict, iterator arguments are traversed once, '
             'comparisons in __eq__ are used, the copy module cannot collapse repeated keys, reads are pure. The '
             'behavioural equality with a list of pairs for every history is not decided (value-level).'),
    'note': 'Trusted: CPython dict C-API and copy/pickle protocol; the inductive invariant is used only to prune paths that contradict it. Loops unrolled 0..2.',
}


def exhaustion(ctx, prog, cls):
    """T9.exhaust: two OrderedMultiDicts are equal only if their pair sequences have the same length.  On every path of the
    OMD-vs-OMD branch of __eq__ that answers True, *both* pair iterators were seen exhausted: each is an argument of a
    zip_longest(...) whose loop ran to its end, or the iterable of a for loop that ran to its end, or was probed with
    next(it, S) and found to give S."""
    from rules.common import paths_of, tests_on, PrivInl
    eq = prog.func(cls + '.__eq__')
    ci = prog.cls(cls)
    w, paths = paths_of(prog, eq, recv=ci, model=PrivInl(prog))
    n = 0
    bad = None
    for p in paths:
        if p.kind != 'return' or p.outcome[1] is None:
            continue
        rv = w.expand(p.outcome[1])
        # the pair iterators of this path: tokens of calls X.iteritems(multi=True) / items(multi=True)
        its = {}
        for nm, info in w.tokens.items():
            if info[0] == 'call' and len(info) > 2 and isinstance(info[2].val, ast.Call) and isinstance(info[2].val.func, ast.Attribute) \
                    and info[2].val.func.attr in ('iteritems', 'items') and any(k.arg == 'multi' for k in info[2].val.keywords) \
                    and any(o is info[2] for o in p.ops):
                its[nm] = txt(info[2].val.func.value)
        if len(its) < 2:
            continue
        is_true = (isinstance(rv, ast.Constant) and rv.value is True)
        cond_true = not isinstance(rv, ast.Constant)          # `return A and B`: judged as a conjunction of probes below
        if not (is_true or cond_true):
            continue
        n += 1
        done = set()
        for o in p.ops:
            if o.kind == 'iter_next' and o.info is False and o.val is not None:
                src = w.expand(o.val)
                for nm in its:
                    if nm in {x.id for x in ast.walk(o.val) if isinstance(x, ast.Name)}:
                        done.add(nm)
                if isinstance(src, ast.Call) and call_name(src) in ('zip_longest', 'itertools.zip_longest'):
                    for a in src.args:
                        if isinstance(a, ast.Name) and a.id in its:
                            done.add(a.id)
                tk = o.val.id if isinstance(o.val, ast.Name) else None
                info = w.tokens.get(tk) if tk else None
                if info and info[0] == 'call' and isinstance(info[1], ast.Call) and call_name(info[1]) in ('zip_longest', 'itertools.zip_longest'):
                    for a in info[1].args:
                        if isinstance(a, ast.Name) and a.id in its:
                            done.add(a.id)
        probes = [t for t, truth, o in tests_on(w, p) if truth] + ([txt(rv)] if cond_true else [])
        for nm in its:
            if any(('next(%s, ' % nm) in t and ' is ' in t and ' is not ' not in t for t in probes):
                done.add(nm)
        if set(its) - done and bad is None:
            bad = (p, sorted(its[x] for x in set(its) - done))
    if n == 0:
        ctx.unknown('T9.exhaust', eq.fq, 'no path of the OMD-vs-OMD comparison that can answer True found', eq.loc)
    else:
        ctx.ob('T9.exhaust', eq.fq, 'two OMDs are equal only after both pair sequences were seen exhausted', bad is None, loc=eq.loc,
               detail='not seen exhausted: pairs of %s' % bad[1] if bad else '%d paths' % n, path=bad[0].describe() if bad else None)


def sorted_passthrough(ctx):
    """T17.sorted: OrderedMultiDict.sorted / sortedvalues order by the caller's `key` and `reverse` as given: the builtin sorted()
    they call receives `key=key, reverse=reverse` (the parameters themselves; with key=None the pairs are compared whole, so
    pairs under one key are ordered by value)."""
    import ast
    from rules.common import txt
    from sa.paths import call_name
    for cls in SUBJECTS:
        for name in ('sorted', 'sortedvalues'):
            try:
                f = ctx.program.func(cls + '.' + name)
            except Exception:
                continue
            calls = [c for c in ast.walk(f.node) if isinstance(c, ast.Call) and call_name(c) == 'sorted']
            for c in calls:
                kws = {k.arg: k.value for k in c.keywords}
                args = list(c.args)
                kv = kws.get('key', args[1] if len(args) > 1 else None)
                rv = kws.get('reverse', args[2] if len(args) > 2 else None)
                rebound = {n.id for n in ast.walk(f.node) if isinstance(n, ast.Name) and isinstance(n.ctx, ast.Store)}
                ok = isinstance(kv, ast.Name) and kv.id == 'key' and 'key' not in rebound
                if name == 'sorted':        # (sortedvalues consumes its sorted lists from the end and passes `not reverse`)
                    ok = ok and isinstance(rv, ast.Name) and rv.id == 'reverse' and 'reverse' not in rebound
                ctx.ob('T17.sorted', f.fq, 'sorted(...) receives the caller\'s key and reverse as given', ok,
                       loc='%s:%d' % (f.module.relpath, c.lineno), detail=txt(c)[:100])


def run(ctx):
    sorted_passthrough(ctx)
    from rules.common import check_sentinel_default as _csd
    for _c in SUBJECTS:
        for _m in ('getlist', 'pop', 'popall', 'poplast'):
            _csd(ctx, ctx.program, ctx.program.func(_c + '.' + _m), recv=ctx.program.cls(_c))
    from rules.common import require_fields
    require_fields(ctx.program, 'dictutils.OrderedMultiDict', ['_map', 'root'])
    require_fields(ctx.program, 'urlutils.OrderedMultiDict', ['_map', 'root'])
    for cls in SUBJECTS:
        omdstep.check_class(ctx, cls)
        mod = cls.split('.')[0]
        onepass.check(ctx, ctx.program.func(cls + '.addlist'), 'v', recv=ctx.program.cls(cls))
        onepass.check(ctx, ctx.program.func(cls + '.update'), 'E', recv=ctx.program.cls(cls))
        onepass.check(ctx, ctx.program.func(cls + '.update_extend'), 'E', recv=ctx.program.cls(cls))
        onepass.check(ctx, ctx.program.func(cls + '.fromkeys'), 'keys', recv=ctx.program.cls(cls))
        onepass.first_seen(ctx, ctx.program.func(cls + '.update'))
        # T11.replace: update() *replaces* the values of the keys it is given, update_extend() / extend() *add* to them; update
        # never hands its sources to the adding siblings (not even for an empty receiver: a key given both positionally and
        # as a keyword must end up with the keyword's value only)
        upf = ctx.program.func(cls + '.update')
        addcalls = [n for n in ast.walk(upf.node) if isinstance(n, ast.Call) and isinstance(n.func, ast.Attribute) and
                    isinstance(n.func.value, ast.Name) and n.func.value.id == 'self' and n.func.attr in ('update_extend', 'extend')]
        ctx.ob('T11.replace', upf.fq, 'update() does not delegate to the adding bulk operations (update_extend / extend)', not addcalls,
               loc='%s:%d' % (upf.module.relpath, addcalls[0].lineno) if addcalls else upf.loc,
               detail=txt(addcalls[0])[:80] if addcalls else '')
        check_get_none_presence(ctx, ctx.program.func(cls + '.__eq__'))
        from rules.common import check_default_returned
        for _n in ('get', 'getlist', 'pop', 'poplast'):
            check_default_returned(ctx, ctx.program, ctx.program.func(cls + '.' + _n), recv=ctx.program.cls(cls))
        # None is a legal value: no accessor / mutator decides presence from a None-defaulted .get()
        for _n in ('setdefault', 'add', 'addlist', 'update', 'update_extend', 'pop', 'popall', 'poplast', 'getlist'):
            _f = ctx.program.resolve(ctx.program.cls(cls), _n)
            if isinstance(_f, FuncInfo) and _f.cls is not None:
                check_get_none_presence(ctx, _f)
        exhaustion(ctx, ctx.program, cls)
        # T27: order-of-all-pairs consumers read the pair view
        prog = ctx.program
        cname = cls.split('.')[-1]
        eq = prog.func(cls + '.__eq__')
        branch = [n for n in ast.walk(eq.node) if isinstance(n, ast.If) and isinstance(n.test, ast.Call) and
                  call_name(n.test) == 'isinstance' and len(n.test.args) == 2 and txt(n.test.args[0]) == eq.params[1] and
                  cname in txt(n.test.args[1])]
        if not branch:
            ctx.unknown('T27', eq.fq, 'no isinstance(other, %s) branch found' % cname, eq.loc)
        else:
            onepass.pair_view(ctx, eq, branch[0].body, ['self', eq.params[1]], 'comparison of two %ss' % cname, prog=prog, ci=prog.cls(cls))
        onepass.sources_consumed(ctx, prog.func(cls + '.update'), ['E', 'F'])
        onepass.sources_consumed(ctx, prog.func(cls + '.update_extend'), ['E', 'F'])
        # T19p: a bulk mutator uses every source it accepts (a parameter that is never read is a silently dropped source)
        for mname in ('update', 'update_extend', 'addlist', 'fromkeys', '__init__'):
            mf = prog.func(cls + '.' + mname)
            a_ = mf.node.args
            pnames = [x.arg for x in a_.posonlyargs + a_.args + a_.kwonlyargs] + ([a_.vararg.arg] if a_.vararg else []) + \
                ([a_.kwarg.arg] if a_.kwarg else [])
            used = {n.id for n in ast.walk(mf.node) if isinstance(n, ast.Name) and isinstance(n.ctx, ast.Load)}
            for pn in pnames:
                if pn in ('self', 'cls') or pn.startswith('_'):
                    continue
                ctx.ob('T19p', mf.fq, 'parameter `%s` is read by the method (no source of pairs is accepted and silently dropped)' % pn,
                       pn in used, loc=mf.loc)
        # T29: a padding value used while comparing two pair sequences must not be able to equal a real pair: it is built
        # from a unique sentinel object, never from literals ((None, None) is a legal pair)
        for n in ast.walk(eq.node):
            if isinstance(n, ast.Call) and call_name(n).endswith('zip_longest'):
                fv = next((k.value for k in n.keywords if k.arg == 'fillvalue'), None)
                names = {x.id for x in ast.walk(fv) if isinstance(x, ast.Name)} if fv is not None else set()
                mod_ = prog.module(mod)
                sentinels = {nm for nm in names if nm in mod_.assigns and any(
                    isinstance(v, ast.Call) and call_name(v) in ('make_sentinel', 'object') for v, _, _ in mod_.assigns[nm])}
                lits = [x for x in ast.walk(fv) if isinstance(x, ast.Constant)] if fv is not None else []
                ok = fv is not None and bool(sentinels) and not lits
                ctx.ob('T29', eq.fq, 'the padding of the pairwise comparison cannot equal a real (key, value) pair (unique sentinel, no literal)',
                       ok, loc='%s:%d' % (eq.module.relpath, n.lineno), detail='fillvalue=%s' % (txt(fv) if fv is not None else 'None (default)'))
        gs = prog.resolve(prog.cls(cls), '__getstate__')
        if isinstance(gs, FuncInfo):
            onepass.pair_view(ctx, gs, gs.node.body, ['self'], 'pickled / copied state')
        cp = prog.func(cls + '.copy')
        onepass.pair_view(ctx, cp, cp.node.body, ['self'], 'copy()')
        pl = prog.func(cls + '.poplast')
        dflt = [n for n in ast.walk(pl.node) if isinstance(n, ast.If) and isinstance(n.test, ast.Compare) and
                txt(n.test.left) == pl.params[1] and isinstance(n.test.ops[0], ast.Is) and txt(n.test.comparators[0]) == '_MISSING']
        if not dflt:
            ctx.unknown('T27', pl.fq, 'no `%s is _MISSING` branch found' % pl.params[1], pl.loc)
        else:
            onepass.pair_view(ctx, pl, dflt[0].body, ['self'], 'poplast() without a key takes the key of the last pair')
        pi = prog.cls(cls).own('popitem')
        if isinstance(pi, FuncInfo):          # an inherited popitem is reported by T1
            onepass.pair_view(ctx, pi, pi.node.body, ['self'], 'popitem() takes the last pair')
        # T28: unlink statements of the ring are well-formed
        n_sp = 0
        for nm, mem in prog.cls(cls).members.items():
            if isinstance(mem, FuncInfo):
                n_sp += onepass.splice_shape(ctx, mem)
        if n_sp == 0:
            ctx.info('T28: no unlink statement of the form X[a][b] = X[c] in %s' % cls)
        # constructor: positional source appended pair by pair (update_extend), keyword arguments assigned (update)
        init = ctx.program.func(cls + '.__init__')
        calls = {}
        for n in ast.walk(init.node):
            if isinstance(n, ast.Call) and isinstance(n.func, ast.Attribute) and txt(n.func.value) == 'self' and n.args:
                calls[txt(n.args[0])] = n.func.attr
        if 'kwargs' not in calls or 'args[0]' not in calls:
            ctx.unknown('T17.init', init.fq, 'constructor argument handling not recognised: %s' % calls, init.loc)
        else:
            ctx.ob('T17.init', init.fq, 'the positional source is loaded with update_extend (every pair kept) and keyword arguments with '
                   'update (assignment semantics: they replace pairs of the same key)',
                   calls['args[0]'] == 'update_extend' and calls['kwargs'] == 'update', loc=init.loc, detail=str(calls))
    for r, n in (('T1', 14), ('T1r', 22), ('T2', 50), ('T4', 4), ('T5', 2), ('T8', 30), ('T18', 2), ('T3', 8), ('T23', 2)):
        ctx.need(r, n)
