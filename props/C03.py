"""C03 -- concurrent LRI/LRU operations are atomic (T6 lock discipline)."""
from rules import locks

LOCK_SPEC = {
    'lock_field': '_lock',
    'guarded_fields': ['_anchor', '_link_lookup'],
    'dict_fields': ['_link_lookup'],
}

SPEC = {
    'explanation': (
        'Static lock-discipline analysis (rule T6) of cacheutils.LRI and LRU, per concrete '
        'receiver class, on every control-flow path (exception edges included, loops unrolled '
        '0..2, private helpers and constructor chains inlined receiver-sensitively) of every '
        'public operation reachable on an instance, including inherited dict entry points. '
        'Decided: (a) every access to the guarded state (dict storage, _anchor, _link_lookup, '
        'live views of the dict) lies inside a region holding the instance lock; (b) each '
        'operation has at most one outermost critical section per path; (c) iteration over '
        'the live dict of the receiver (also when it is reached through a parameter, as in '
        'copy() -> __init__ -> update(E=self)) holds the receiver\'s own lock; (d) an unlocked '
        'operation makes exactly one guarded access and it is a single C-level reader; (e) the '
        'lock is threading.RLock whenever some path re-acquires it; (f) the lock field is only '
        'assigned during construction. If all hold, whole operations on one cache are mutually '
        'exclusive, hence every execution equals the sequential execution in lock-acquisition '
        'order. Not decided: the sequential behaviour itself (C02), deadlock freedom across '
        'two caches, the hit/miss counters (not among C03 observables).'
        ' T6g: an explicit acquire() is released on every exit of the method, exceptional exits included.'),
    'decided': ['lock balance on every exit', 'mutual exclusion of whole public operations on one cache (T6 a-f)'],
    'declined': ['sequential semantics of each operation (see C02)',
                 'cross-cache deadlocks', 'statistics counters under races'],
    'trusted_base': ['CPython GIL: a single C-level dict call is atomic',
                     'threading.RLock provides mutual exclusion and re-entrancy',
                     'dict API table of CPython 3.12 (mutators / single-step readers / views)'],
    'assumptions': ['callers do not reach into underscore-prefixed attributes',
                    'user callbacks (on_miss, __hash__/__eq__ of keys) do not touch the cache from another thread while blocking'],
    'exhaustive': True,
}


def lazy_generators(ctx):
    """T6h: a generator method of the cache (its body runs when the generator is *iterated*, not when it is called) that is
    called inside a critical section is also consumed there -- as the iterable of a for loop / comprehension, or as the argument
    of list / tuple / dict / set / sorted / sum / join / a `yield from`.  A generator object stored in a variable or returned from
    the section is walked after the lock is released: the snapshot it was meant to be is no longer atomic."""
    import ast
    from sa.index import FuncInfo
    from rules.common import txt
    prog = ctx.program
    for cls in ('cacheutils.LRI', 'cacheutils.LRU'):
        ci = prog.cls(cls)
        gens = set()
        for nm, m in ci.members.items():
            if isinstance(m, FuncInfo) and any(isinstance(x, (ast.Yield, ast.YieldFrom)) for x in ast.walk(m.node)):
                gens.add(nm)
        base = prog.cls('cacheutils.LRI')
        for nm, m in base.members.items():
            if isinstance(m, FuncInfo) and any(isinstance(x, (ast.Yield, ast.YieldFrom)) for x in ast.walk(m.node)):
                gens.add(nm)
        for nm, m in ci.members.items():
            if not isinstance(m, FuncInfo):
                continue
            par = {}
            for x in ast.walk(m.node):
                for ch in ast.iter_child_nodes(x):
                    par[ch] = x
            for c in ast.walk(m.node):
                if not (isinstance(c, ast.Call) and isinstance(c.func, ast.Attribute) and txt(c.func.value) == 'self' and c.func.attr in gens):
                    continue
                up = par.get(c)
                consumed = (isinstance(up, (ast.For, ast.comprehension)) and up.iter is c) or isinstance(up, ast.YieldFrom) or \
                    (isinstance(up, ast.Call) and c in up.args and (
                        (isinstance(up.func, ast.Name) and up.func.id in ('list', 'tuple', 'dict', 'set', 'frozenset', 'sorted', 'sum', 'max',
                                                                           'min', 'any', 'all', 'len')) or
                        (isinstance(up.func, ast.Attribute) and up.func.attr in ('join', 'extend', 'update'))))
                ctx.ob('T6h', m.fq, 'the generator self.%s() is consumed where it is created (a generator object carried out of the '
                       'critical section is walked without the lock)' % c.func.attr, consumed,
                       loc='%s:%d' % (m.module.relpath, c.lineno), detail=txt(up)[:80] if up is not None else '')


def run(ctx):
    lazy_generators(ctx)
    from rules.common import require_fields
    require_fields(ctx.program, 'cacheutils.LRI', ['_lock', '_anchor', '_link_lookup'])
    for cls in ('cacheutils.LRI', 'cacheutils.LRU'):
        locks.check_class(ctx, cls, LOCK_SPEC)
    ctx.need('T6ab', 18)
    ctx.need('T6e', 2)
    ctx.need('T6f', 2)
    ctx.need('T6.inherited', 10)

SPEC['explanation'] += " T6o: only self's own lock is ever acquired in the class (no second instance's lock: no lock-order deadlock between a == b and b == a)."
SPEC['decided'] += ['lock order (own lock only)']
SPEC['explanation'] += " T6o also recognises another instance's lock held in a local (`l = other._lock` / getattr)."
SPEC['decided'] += []
SPEC['explanation'] += ' T6h: a generator method called inside a critical section is consumed there (no lazily walked snapshot).'
SPEC['decided'] += ['no generator object leaves a critical section']
MANIFEST = {
    'technique': 'lock-discipline (lockset) analysis over all CFG paths of every public operation, receiver-sensitive inlining',
    'text': ('Decides the mutual-exclusion clause of C03 completely for the code as written: on every control-flow '
             'path (exception edges included) of every public operation of LRI and LRU, including inherited dict '
             'entry points and the copy()->__init__->update chain, each access to the dict storage, the ring and the '
             'link table lies inside exactly one critical section of the instance\'s RLock. Mutual exclusion of whole '
             'operations implies every interleaving equals the sequential execution in lock-acquisition order. This is '
             'the mechanism C03 relies on and the one thing tests cannot see (deleting a `with self._lock` passes all '
             '423 tests). It does not decide the sequential behaviour itself (C02) nor cross-cache deadlocks.'),
    'note': ('Trusted: CPython GIL atomicity of single C-level dict calls; threading.RLock semantics; the dict API '
             'table (mutators / single-step readers / view producers) of CPython 3.12. Loops unrolled 0..2, inlining depth 6.'),
}
