"""C11 -- IndexedSet (structural clauses)."""
import ast
from sa.index import AnalysisError, FuncInfo
from sa.paths import call_name
from rules.common import txt, paths_of, loc, tests_on, Quiet, cmp_text, returned_values, guard_atoms

CLS = 'setutils.IndexedSet'
SPEC = {
    'explanation': (
        'Static analysis of setutils.IndexedSet on all control-flow paths. Decided: T2 the three structures move together: '
        'remove/pop tombstone the slot, drop the item from the index map and record the dead index, and every normal path of '
        'remove and pop ends with _cull(); add stores map[item] = len(item_list) together with the append, under `item not in '
        'map`; T15 index spaces: item_list is subscripted only with values that come from _get_real_index or the index map '
        '(real slots), _add_dead receives real slots, index() returns _get_apparent_index(map[val]), and the islice bounds of '
        'iter_slice (positions in the tombstone-free iteration) are never translated to real slots; start and stop are '
        'normalised by the same expression (sibling symmetry); T16 update() flattens its operands (chain.from_iterable / '
        'chain(*others)), never iterates the operand tuple itself, and union chains self with the operands; T24 an in-place '
        'operation that removes from self while iterating a parameter guards against the parameter being self; T18 clear() '
        'empties item_list, dead_indices and the index map; operator aliases resolve to the named set operations and the '
        'in-place operators return self. Not decided: dead-interval merging/compaction thresholds in _add_dead/_cull, '
        'result ordering, set algebra of the multi-operand *_update forms.'
        " T15.len: caller-supplied positions are normalised with the apparent length. T20.foreign: no method reads another instance's internal tables."
        ' T15.neg: the position-taking entry points normalise negative positions.'),
    'decided': ['negative positions normalised', 'apparent-length normalisation', 'no foreign internals', 'T2 tombstone/map/dead-index pairing and culling', 'T15 real vs apparent index spaces', 'T16 operand flattening',
                'T24 self-alias guard', 'T18 clear', 'operator alias closure'],
    'declined': ['dead-interval arithmetic and compaction thresholds', 'multi-operand set algebra', 'ordering of results'],
    'trusted_base': ['itertools.chain / islice semantics'], 'assumptions': [], 'exhaustive': True,
}
SPEC['explanation'] += ' T15.negpath: on every path of pop(index) that tombstones a slot the position was tested for being negative first (helpers inlined). T25.raw: raw enumerations of item_list filter the tombstone marker or follow a rebuild of the list.'
SPEC['decided'] += ['negative position tested on every tombstoning path', 'raw slot enumerations filter tombstones']
SPEC['explanation'] += " T2.add holds for every method that appends a slot (add and any bulk operation that inlines it). T9.stalelen: _cull compares the last dead interval's stop with the untrimmed length of the slot list."
SPEC['decided'] += ['slot bookkeeping in every appender', 'untrimmed length in _cull']
SPEC['explanation'] += ' T9.operands: update / intersection_update / difference_update consult their *others on every normal path.'
SPEC['decided'] += ['all operands of an in-place set operation consulted']
MANIFEST = {
    'technique': 'pairing / must-pass-through analysis on CFG paths, two-point index-space qualifier check, nesting-depth check of iterator expressions, alias-guard check',
    'text': ('Decides structural necessary conditions of C11: tombstones, index map and dead-index table are updated together and '
             'culled, real and apparent indexes are not mixed at their sinks (the slicing defect class), multi-operand update '
             'flattens its operands, self-aliasing is guarded. The interval arithmetic and thresholds are not decided (partial).'),
    'note': 'Trusted: itertools semantics.',
}


def operands_consulted(ctx):
    """T9.operands: the in-place set operations with several operands (`update`, `intersection_update`, `difference_update`)
    consult every operand on every normal path: the `*others` tuple flows into a call (as `*others` or whole) or is iterated.
    A membership test on the tuple (`self in others`) consults nothing -- an early exit under it drops the remaining operands."""
    import ast
    from rules.common import paths_of, txt, Quiet
    prog = ctx.program
    ci = prog.cls(CLS)
    for name in ('update', 'intersection_update', 'difference_update'):
        f = prog.resolve(ci, name)
        if not hasattr(f, 'node') or f.node.args.vararg is None:
            continue
        var = f.node.args.vararg.arg
        w, paths = paths_of(prog, f, recv=ci, model=Quiet(prog))
        bad = None
        n = 0
        for p in paths:
            if p.kind != 'return':
                continue
            n += 1
            used = False
            for o in p.ops:
                if o.kind == 'call' and isinstance(o.node, ast.Call):
                    for a in o.node.args:
                        if (isinstance(a, ast.Starred) and txt(a.value) == var) or (isinstance(a, ast.Name) and a.id == var):
                            used = True
                if o.kind in ('iter_start', 'loop_iter') and o.node is not None:
                    it = getattr(o.node, 'iter', o.node)
                    cands = [it] + ([w.expand(o.val)] if getattr(o, 'val', None) is not None else []) + \
                        ([w.expand(it)] if isinstance(it, ast.AST) else [])
                    if any(isinstance(x, ast.Name) and x.id == var for c_ in cands if isinstance(c_, ast.AST) for x in ast.walk(c_)):
                        used = True
            from rules.common import tests_on as _to
            empty = any((t == var and not truth) or (t in ('len(%s) == 0' % var,) and truth) or
                        (t in ('len(%s)' % var,) and not truth) for t, truth, _o in _to(w, p))
            if not used and not empty and bad is None:
                bad = p
        if n:
            ctx.ob('T9.operands', f.fq, 'every normal path hands the operands (*%s) on to a call or iterates them (a membership test '
                   'on the tuple consults none of them)' % var, bad is None, loc=f.loc, detail='%d paths' % n,
                   path=bad.describe() if bad else None)


def run(ctx):
    operands_consulted(ctx)
    from rules.common import require_fields
    from rules.common import require_members, require_module_names
    require_members(ctx.program, 'setutils.IndexedSet', ['_get_real_index', '_get_apparent_index', '_add_dead', '_cull', '_compact', 'remove', 'pop', 'add', 'iter_slice', 'index', 'update', 'clear'])
    require_module_names(ctx.program, 'setutils', ['_MISSING'])
    require_fields(ctx.program, 'setutils.IndexedSet', ['item_list', 'item_index_map', 'dead_indices'])
    prog = ctx.program
    ci = prog.cls(CLS)

    class M(Quiet):
        # private helpers (other than the index translators and the culling machinery, which are
        # primitives of the rule) are seen in their caller's context
        def inline(self, walker, op, callee, st):
            rv = op.recv_val
            return isinstance(rv, ast.Name) and rv.id == 'self' and callee.name.startswith('_') and \
                not callee.name.startswith('__') and callee.name not in ('_cull', '_compact', '_add_dead', '_get_real_index',
                                                                         '_get_apparent_index')
    # ---- remove / pop -----------------------------------------------------------
    for name in ('remove', 'pop'):
        f = prog.func('%s.%s' % (CLS, name))
        w, paths = paths_of(prog, f, recv=ci, model=M(prog))
        for p in paths:
            if p.kind != 'return':
                continue
            calls = [(txt(o.val.func), o) for o in p.ops if o.kind == 'call']
            cull = [o for t, o in calls if t == 'self._cull']
            last_mut = max([o.seq for o in p.ops if (o.kind in ('sub_store', 'sub_del') and ('item_list' in txt(o.val.value) or 'item_index_map' in txt(o.val.value)))
                            or (o.kind == 'call' and txt(o.val.func) in ('self.item_list.pop', 'self.item_index_map.pop', 'item_index_map.pop', 'self._add_dead'))] or [-1])
            ok = bool(cull) and cull[-1].seq > last_mut
            ctx.ob('T9.cull', f.fq, 'every normal path ends with _cull() after the last change (no tombstone is left at the tail)',
                   ok, loc=f.loc, path=p.describe() if not ok else None)
            tomb = [o for o in p.ops if o.kind == 'sub_store' and txt(w.expand(o.val.value)) == 'self.item_list' and txt(o.info) == '_MISSING']
            dead = [o for t, o in calls if t == 'self._add_dead']
            mapdel = [o for o in p.ops if (o.kind == 'sub_del' and 'item_index_map' in txt(w.expand(o.val.value))) or
                      (o.kind == 'call' and txt(w.expand(o.val.func)) == 'self.item_index_map.pop')]
            tailpop = [o for t, o in calls if t == 'self.item_list.pop']
            if tomb:
                slot = txt(tomb[0].val.slice)
                ok = bool(dead) and bool(mapdel) and txt(dead[0].val.args[0]) == slot
                ctx.ob('T2.tomb', f.fq, 'a tombstoned slot is recorded in dead_indices (same slot) and its item leaves the index map',
                       ok, loc=loc(f, tomb[0].node), path=p.describe() if not ok else None)
                # T15: slot is a real index
                real = slot_is_real(w, tomb[0].val.slice)
                ctx.ob('T15.real', f.fq, 'the slot written in item_list is a real index (from _get_real_index or the index map)', real,
                       loc=loc(f, tomb[0].node), detail=txt(w.expand(tomb[0].val.slice)))
            elif tailpop:
                ok = bool(mapdel)
                ctx.ob('T2.tomb', f.fq, 'an item popped from the tail of item_list leaves the index map', ok, loc=loc(f, tailpop[0].node))
    # ---- add ------------------------------------------------------------------------
    add = prog.func(CLS + '.add')
    n = 0
    # every method that appends a slot (add, and any bulk operation that inlines it): per loop pass / per path segment
    appenders = [m_ for m_ in ci.members.values() if isinstance(m_, FuncInfo) and any(
        isinstance(x, ast.Call) and isinstance(x.func, ast.Attribute) and x.func.attr == 'append' and 'item_list' in txt(x.func.value)
        for x in ast.walk(m_.node))]
    if add not in appenders:
        appenders.append(add)
    for am in appenders:
        w, paths = paths_of(prog, am, recv=ci)
        for p in paths:
            marks = [0] + [o.seq for o in p.ops if o.kind in ('loop_iter', 'iter_next')] + [10 ** 9]
            for a_, b_ in zip(marks, marks[1:]):
                seg = [o for o in p.ops if a_ <= o.seq < b_]
                app = [o for o in seg if o.kind == 'call' and txt(o.val.func) == 'self.item_list.append']
                st = [o for o in seg if o.kind == 'sub_store' and txt(o.val.value) == 'self.item_index_map']
                if not (app or st):
                    continue
                n += 1
                item = txt(app[0].val.args[0]) if app and app[0].val.args else (txt(st[0].val.slice) if st else 'item')
                ts = [(t, truth) for t, truth, o in tests_on(w, p) if a_ <= o.seq < b_]
                guarded = any((t == '%s in self.item_index_map' % item and not truth) or
                              (t == '%s not in self.item_index_map' % item and truth) for t, truth in ts)
                ok = bool(app) and bool(st) and guarded and txt(w.expand(st[0].info)) == 'len(self.item_list)' and st[0].seq < app[0].seq \
                    and txt(st[0].val.slice) == txt(app[0].val.args[0])
                ctx.ob('T2.add', am.fq, 'a new item gets map[item] = len(item_list) and is appended, only when not yet present', ok,
                       loc=am.loc, detail='' if ok else 'slot recorded as `%s`' % (txt(w.expand(st[0].info)) if st else '-'),
                       path=p.describe() if not ok else None)
    if n == 0:
        ctx.unknown('T2.add', add.fq, 'no append / map store found', add.loc)
    # ---- index spaces -----------------------------------------------------------------
    gi = prog.func(CLS + '.__getitem__')

    class Duck(Quiet):
        # `index.start` on a non-slice raises AttributeError (the int-index path)
        def attr_raises(self, walker, op, st):
            base = op.val.value
            if isinstance(base, ast.Name) and base.id in gi.params[1:]:
                return ('AttributeError',)
            return ()
    w, paths = paths_of(prog, gi, recv=ci, model=Duck(prog))
    seen = False
    for p in paths:
        for o in p.ops:
            if o.kind == 'sub_load' and txt(w.expand(o.val.value)) == 'self.item_list':
                seen = True
                ctx.ob('T15.real', gi.fq, 'item_list is subscripted with a real index', slot_is_real(w, o.val.slice), loc=loc(gi, o.node),
                       detail=txt(w.expand(o.val.slice)))
    # T15.len: a negative position given by the caller is an *apparent* one: it is normalised with the apparent length
    # len(self), never with the real length of the slot list (which still counts tombstones)
    n_len = 0
    for nm, mem in ci.members.items():
        if not isinstance(mem, FuncInfo) or nm == '_get_apparent_index':
            continue
        params = set(mem.params[1:])
        for n in ast.walk(mem.node):
            tgt = other = None
            if isinstance(n, ast.AugAssign) and isinstance(n.op, ast.Add) and isinstance(n.target, ast.Name):
                tgt, other = n.target.id, n.value
            elif isinstance(n, ast.BinOp) and isinstance(n.op, ast.Add):
                for a, b in ((n.left, n.right), (n.right, n.left)):
                    if isinstance(a, ast.Name) and isinstance(b, ast.Call) and call_name(b) == 'len':
                        tgt, other = a.id, b
            if tgt in params and isinstance(other, ast.Call) and call_name(other) == 'len' and other.args:
                what = txt(other.args[0])
                if what in ('self', 'self.item_list', 'self.item_index_map'):
                    n_len += 1
                    ctx.ob('T15.len', mem.fq, 'a caller-supplied (apparent) position `%s` is normalised with the apparent length' % tgt,
                           what in ('self', 'self.item_index_map'), loc=loc(mem, n), detail='adds len(%s)' % what)
    if n_len == 0:
        ctx.unknown('T15.len', CLS, 'no negative-position normalisation found', ci.module.relpath)
    # T15.neg: the position-taking entry points handle negative positions: a `pos < 0` test whose branch adds a length
    for nm, pnames in (('_get_real_index', ['index']), ('__getitem__', ['index']), ('iter_slice', ['start', 'stop'])):
        mem = prog.func('%s.%s' % (CLS, nm))
        for pn in pnames:
            if pn not in mem.params:
                ctx.unknown('T15.neg', mem.fq, 'parameter %s not found' % pn, mem.loc)
                continue
            # the position may be copied into a local first (`i = index`): the copy stands for the parameter
            copies = [pn] + [n.targets[0].id for n in ast.walk(mem.node) if isinstance(n, ast.Assign) and len(n.targets) == 1 and
                             isinstance(n.targets[0], ast.Name) and isinstance(n.value, ast.Name) and n.value.id == pn]
            tests, fixes = [], []
            for q in copies:
                tq = [n for n in ast.walk(mem.node) if isinstance(n, ast.If) and any(
                    cmp_text(c, q) == '%s < 0' % q for c in ast.walk(n.test) if isinstance(c, ast.Compare))]
                tests += tq
                fixes += [n for n in tq if any(
                    (isinstance(x, ast.AugAssign) and txt(x.target) == q and isinstance(x.op, ast.Add)) or
                    (isinstance(x, ast.Assign) and any(txt(t) == q for t in x.targets) and any(
                        isinstance(b, ast.BinOp) and isinstance(b.op, ast.Add) and q in (txt(b.left), txt(b.right)) for b in ast.walk(x.value)))
                    for st in n.body for x in ast.walk(st))]
            if not fixes:
                # the normalisation may live in a private helper the position is passed through: p = self._h(p) / f(self._h(p))
                for c in ast.walk(mem.node):
                    if isinstance(c, ast.Call) and isinstance(c.func, ast.Attribute) and txt(c.func.value) == 'self' and \
                            c.func.attr.startswith('_') and any(txt(a) == pn for a in c.args):
                        h = prog.resolve(ci, c.func.attr)
                        if isinstance(h, FuncInfo) and len(h.params) > 1:
                            hp = h.params[1 + [txt(a) for a in c.args].index(pn)] if len(h.params) > 1 + [txt(a) for a in c.args].index(pn) else None
                            if hp:
                                ht = [n for n in ast.walk(h.node) if isinstance(n, ast.If) and any(
                                    cmp_text(cc, hp) == '%s < 0' % hp for cc in ast.walk(n.test) if isinstance(cc, ast.Compare))]
                                fixes += [n for n in ht if any(
                                    (isinstance(x, ast.AugAssign) and txt(x.target) == hp and isinstance(x.op, ast.Add)) or
                                    (isinstance(x, ast.Assign) and any(txt(t) == hp for t in x.targets) and any(
                                        isinstance(b, ast.BinOp) and isinstance(b.op, ast.Add) and hp in (txt(b.left), txt(b.right))
                                        for b in ast.walk(x.value))) for st in n.body for x in ast.walk(st))]
                                tests = tests or ht
            ctx.ob('T15.neg', mem.fq, 'a negative `%s` is brought into range by adding a length (a `%s < 0` test whose branch does so)'
                   % (pn, pn), bool(fixes), loc=loc(mem, tests[0]) if tests else mem.loc,
                   detail='%d test(s) `%s < 0`, %d with the addition' % (len(tests), pn, len(fixes)))
    # T9.stalelen: _cull trims trailing tombstones and retires the dead interval that covered them; the interval is recognised by
    # its stop being the length of the slot list *before* the trim.  On every path the length compared with the interval's stop
    # is the untrimmed one: read before the `del items[-n:]`, or read after it and corrected by + n.
    cu = prog.func(CLS + '._cull')
    w, paths = paths_of(prog, cu, recv=ci)
    n_cmp = 0
    for p in paths:
        dels = [o for o in p.ops if o.kind == 'sub_del' and isinstance(o.val, ast.Subscript) and txt(o.val.value) == 'self.item_list'
                and isinstance(o.val.slice, ast.Slice) and o.val.slice.upper is None and
                isinstance(o.val.slice.lower, ast.UnaryOp) and isinstance(o.val.slice.lower.op, ast.USub)]
        lens = {}
        for nm, info in w.tokens.items():
            if info[0] == 'call' and len(info) > 2 and isinstance(info[2].val, ast.Call) and txt(info[2].val) == 'len(self.item_list)':
                lens[nm] = info[2]
        for o in p.ops:
            if o.kind != 'compare' or not isinstance(o.val, ast.Compare) or len(o.val.ops) != 1 or \
                    not isinstance(o.val.ops[0], (ast.Eq, ast.NotEq)):
                continue
            sides = [o.val.left, o.val.comparators[0]]
            stop = [x for x in sides if 'self.dead_indices[' in txt(x) and txt(x).endswith('[1]')]
            other = [x for x in sides if x not in stop]
            if len(stop) != 1 or len(other) != 1:
                continue
            toks = [x.id for x in ast.walk(other[0]) if isinstance(x, ast.Name) and x.id in lens]
            if len(toks) != 1:
                continue
            n_cmp += 1
            before = [d for d in dels if d.seq < lens[toks[0]].seq]
            if not before:
                ok = isinstance(other[0], ast.Name)
                want = 'the plain length'
            else:
                n_txt = txt(before[0].val.slice.lower.operand)
                e = other[0]
                ok = isinstance(e, ast.BinOp) and isinstance(e.op, ast.Add) and \
                    {txt(e.left), txt(e.right)} == {toks[0], n_txt}
                want = 'length + %s (the slots already deleted)' % n_txt
            ctx.ob('T9.stalelen', cu.fq, 'the stop of the last dead interval is compared with the untrimmed length of the slot list', ok,
                   loc=loc(cu, o.node), detail='compared with `%s`; expected %s' % (txt(w.expand(other[0])), want),
                   path=p.describe() if not ok else None)
    if n_cmp == 0:
        ctx.info('T9.stalelen: no comparison of a dead interval\'s stop with len(item_list) in _cull (nothing to check)')
    # T25.raw: the slot list holds the tombstone marker in removed-but-not-compacted slots; whoever enumerates it raw filters
    # the marker out (or has just rebuilt it tombstone-free with `item_list[:] = ...`), as __iter__/__reversed__ do
    n_raw = 0
    for nm, mem in ci.members.items():
        if not isinstance(mem, FuncInfo):
            continue
        aliases = {'self.item_list'}
        for n in ast.walk(mem.node):
            if isinstance(n, ast.Assign) and len(n.targets) == 1:
                tg, vv = n.targets[0], n.value
                if isinstance(tg, ast.Name) and txt(vv) == 'self.item_list':
                    aliases.add(tg.id)
                elif isinstance(tg, ast.Tuple) and isinstance(vv, ast.Tuple) and len(tg.elts) == len(vv.elts):
                    for a, b in zip(tg.elts, vv.elts):
                        if isinstance(a, ast.Name) and txt(b) == 'self.item_list':
                            aliases.add(a.id)
        rebuilt = [n.lineno for n in ast.walk(mem.node) if isinstance(n, ast.Assign) and any(
            isinstance(t, ast.Subscript) and isinstance(t.slice, ast.Slice) and txt(t.value) in aliases for t in n.targets)]
        loops = [(n.iter, n.target, n.body, n) for n in ast.walk(mem.node) if isinstance(n, ast.For)]
        for n in ast.walk(mem.node):
            if isinstance(n, (ast.ListComp, ast.SetComp, ast.GeneratorExp, ast.DictComp)):
                for g in n.generators:
                    loops.append((g.iter, g.target, list(g.ifs) + ([n.elt] if hasattr(n, 'elt') else [n.key, n.value]), g))
        for it, tg, body, node in loops:
            pos = 0
            while isinstance(it, ast.Call) and call_name(it) in ('enumerate', 'reversed', 'iter', 'list', 'tuple') and it.args:
                if call_name(it) == 'enumerate':
                    pos = 1
                it = it.args[0]
            if txt(it) not in aliases:
                continue
            n_raw += 1
            var = tg.elts[pos] if pos and isinstance(tg, ast.Tuple) and len(tg.elts) > pos else tg
            filt = any(isinstance(c, ast.Compare) and len(c.ops) == 1 and isinstance(c.ops[0], (ast.Is, ast.IsNot)) and
                       {txt(c.left), txt(c.comparators[0])} == {txt(var), '_MISSING'} for b in body for c in ast.walk(b))
            ok = filt or any(ln < getattr(node, 'lineno', it.lineno) for ln in rebuilt)
            ctx.ob('T25.raw', mem.fq, 'a raw enumeration of the slot list filters the tombstone marker (or follows a rebuild of the list)',
                   ok, loc=loc(mem, it), detail='for %s in %s' % (txt(tg), txt(it)))
    if n_raw == 0:
        ctx.unknown('T25.raw', CLS, 'no raw enumeration of item_list found (not even in __iter__)', ci.module.relpath)
    # T15.negpath: pop(index) tombstones a slot; on every path that does, the position was tested for being negative first
    # (a fast path that hands a negative position through unchanged records the tombstone interval at a negative slot)
    pp = prog.func(CLS + '.pop')
    if 'index' not in pp.params:
        raise AnalysisError('anchor vanished: parameter index of IndexedSet.pop')

    class PosInl(Quiet):
        def inline(self, walker, op, callee, st):
            return callee.name.startswith('_') and not callee.name.startswith('__') and isinstance(op.recv_val, ast.Name) and \
                op.recv_val.id == 'self' and any('index' in {x.id for x in ast.walk(walker.expand(a)) if isinstance(x, ast.Name)}
                                                 for a in op.val.args)
    w, paths = paths_of(prog, pp, recv=ci, model=PosInl(prog))
    n_tomb = 0
    for p in paths:
        if p.kind != 'return':
            continue
        tomb = [o for o in p.ops if o.kind == 'sub_store' and txt(o.val.value) == 'self.item_list' and o.info is not None and
                txt(w.expand(o.info)) == '_MISSING']
        if not tomb:
            continue
        n_tomb += 1
        neg = [x for t, truth, x in tests_on(w, p) if x.seq < tomb[0].seq and t.replace(' ', '') in ('index<0', '0>index', 'index>=0', '0<=index')]
        ok = bool(neg)
        ctx.ob('T15.negpath', pp.fq, 'on every path that tombstones a slot the position was tested for being negative before it was '
               'turned into a real slot', ok, loc=loc(pp, tomb[0].node), path=p.describe() if not ok else None)
    if n_tomb == 0:
        ctx.unknown('T15.negpath', pp.fq, 'no tombstoning store (item_list[...] = _MISSING) found on the paths of pop', pp.loc)
    # no method reaches into another instance's slot list / index map / dead-interval table (sharing the inner mutable
    # interval lists or skipping the other object's own bookkeeping)
    foreign = []
    for nm, mem in ci.members.items():
        if not isinstance(mem, FuncInfo):
            continue
        for n in ast.walk(mem.node):
            if isinstance(n, ast.Attribute) and n.attr in ('item_list', 'item_index_map', 'dead_indices') and \
                    not (isinstance(n.value, ast.Name) and n.value.id == 'self'):
                foreign.append((mem, n))
    for mem, n in foreign:
        ctx.ob('T20.foreign', mem.fq, 'IndexedSet methods touch only their own slot list, index map and dead-interval table', False,
               loc=loc(mem, n), detail='reads %s' % txt(n))
    if not foreign:
        ctx.ob('T20.foreign', CLS, 'IndexedSet methods touch only their own slot list, index map and dead-interval table', True,
               loc=ci.module.relpath)
    ix = prog.func(CLS + '.index')
    rvs = [e for e, _, _ in returned_values(prog, ix, recv=ci) if e is not None]
    ok = bool(rvs) and all(isinstance(e, ast.Call) and txt(e.func) == 'self._get_apparent_index' and e.args and
                           'item_index_map[' in txt(e.args[0]) for e in rvs)
    ctx.ob('T15.app', ix.fq, 'index() returns the apparent position of the real slot stored in the map', ok, loc=ix.loc)
    sl = prog.func(CLS + '.iter_slice')
    w, paths = paths_of(prog, sl, recv=ci)
    for p in paths:
        for o in p.ops:
            if o.kind == 'call' and call_name(o.node) in ('islice', 'itertools.islice') and len(o.val.args) >= 3:
                src = txt(w.expand(o.val.args[0]))
                bounds = [txt(w.expand(a)) for a in o.val.args[1:3]]
                ok = not any('_get_real_index' in b for b in bounds) and src in ('self', 'reversed(self)', 'iter(self)')
                ctx.ob('T15.app', sl.fq, 'islice bounds over the tombstone-free iteration are apparent positions (never translated to real slots)',
                       ok, loc=loc(sl, o.node), detail='islice(%s, %s)' % (src, ', '.join(bounds)))
    # sibling symmetry of start / stop normalisation
    norm = {}
    for nd in ast.walk(sl.node):
        if isinstance(nd, ast.If):
            for s in nd.body:
                if isinstance(s, ast.Assign) and len(s.targets) == 1 and isinstance(s.targets[0], ast.Name) and s.targets[0].id in ('start', 'stop'):
                    v = s.targets[0].id
                    norm[v] = (sorted(sorted(c) for c in guard_atoms(sl, s, v)), txt(s.value).replace(v, 'X'))
    ctx.ob('T25.sym', sl.fq, 'start and stop are normalised by the same test and expression (negative indexes handled alike)',
           'start' in norm and 'stop' in norm and norm['start'] == norm['stop'], loc=sl.loc, detail=str(norm))
    # ---- T16 operand flattening ------------------------------------------------------
    up = prog.func(CLS + '.update')
    w, paths = paths_of(prog, up, recv=ci)
    for p in paths:
        for o in p.ops:
            if o.kind == 'iter_start':
                e = w.expand(o.val)
                t = txt(e)
                if t.startswith('others['):
                    depth = 1
                elif t in ('chain.from_iterable(others)', 'itertools.chain.from_iterable(others)', 'chain(*others)', 'itertools.chain(*others)'):
                    depth = 1
                elif t in ('others', 'chain(others)', 'itertools.chain(others)', 'iter(others)'):
                    depth = 2
                else:
                    depth = None
                adds = [x for x in p.ops if x.kind == 'call' and txt(x.val.func) == 'self.add' and x.seq > o.seq]
                if adds or depth == 2:
                    ctx.ob('T16', up.fq, 'the loop that adds items iterates the *elements* of the operands (`%s`), not the operand tuple' % t,
                           depth == 1, loc=loc(up, o.node), detail='nesting depth %s' % depth)
    un = prog.func(CLS + '.union')
    ok = any(isinstance(n, ast.Call) and call_name(n) in ('chain', 'itertools.chain') and [txt(a) for a in n.args] == ['self', '*others']
             for n in ast.walk(un.node))
    ctx.ob('T16', un.fq, 'union chains self with the flattened operands', ok, loc=un.loc)
    # ---- T24 alias guard ---------------------------------------------------------------
    for name, m in ci.members.items():
        if not isinstance(m, FuncInfo) or not name.endswith('_update') and name != 'update':
            continue
        params = set(m.params[1:])
        for nd in ast.walk(m.node):
            if isinstance(nd, ast.For) and isinstance(nd.iter, ast.Name) and nd.iter.id in params:
                rm_alias = set()
                for a in ast.walk(m.node):
                    if isinstance(a, ast.Assign) and len(a.targets) == 1:
                        tg, vl = a.targets[0], a.value
                        pairs_ = list(zip(tg.elts, vl.elts)) if isinstance(tg, ast.Tuple) and isinstance(vl, ast.Tuple) and \
                            len(tg.elts) == len(vl.elts) else [(tg, vl)]
                        for t_, v_ in pairs_:
                            if isinstance(t_, ast.Name) and txt(v_) in ('self.discard', 'self.remove', 'self.pop', 'self.clear'):
                                rm_alias.add(t_.id)
                removes = any(isinstance(c, ast.Call) and (txt(c.func) in ('self.discard', 'self.remove', 'self.pop', 'self.clear') or
                                                           (isinstance(c.func, ast.Name) and c.func.id in rm_alias))
                              for c in ast.walk(nd))
                if removes:
                    guard = any(isinstance(t, ast.If) and txt(t.test) in ('self is %s' % nd.iter.id, '%s is self' % nd.iter.id) and t.lineno < nd.lineno
                                for t in ast.walk(m.node))
                    ctx.ob('T24', m.fq, 'removing from self while iterating parameter `%s` is guarded against `%s is self`' % (nd.iter.id, nd.iter.id),
                           guard, loc=loc(m, nd))
    # ---- T18 clear -----------------------------------------------------------------------
    cl = prog.func(CLS + '.clear')
    t = ast.unparse(cl.node)
    ok = all(any(s in t for s in alts) for alts in (('del self.item_list[:]', 'self.item_list.clear()', 'self.item_list = []'),
                                                    ('del self.dead_indices[:]', 'self.dead_indices.clear()', 'self.dead_indices = []'),
                                                    ('self.item_index_map.clear()', 'self.item_index_map = {}', 'self.item_index_map = dict()')))
    ctx.ob('T18', cl.fq, 'clear() empties item_list, dead_indices and the index map', ok, loc=cl.loc)
    # ---- operator aliases -------------------------------------------------------------------
    want = {'__or__': 'union', '__ror__': 'union', '__and__': 'intersection', '__rand__': 'intersection', '__sub__': 'difference',
            '__xor__': 'symmetric_difference', '__rxor__': 'symmetric_difference'}
    for op, target in want.items():
        m = prog.resolve(ci, op)
        tm = prog.resolve(ci, target)
        ctx.ob('T1.alias', '%s.%s' % (CLS, op), 'operator resolves to %s' % target, isinstance(m, FuncInfo) and m is tm, loc=ci.module.relpath)
    for op, target in (('__ior__', 'update'), ('__iand__', 'intersection_update'), ('__isub__', 'difference_update'),
                       ('__ixor__', 'symmetric_difference_update')):
        m = prog.func('%s.%s' % (CLS, op))
        src = ast.unparse(m.node)
        rets = [n for n in ast.walk(m.node) if isinstance(n, ast.Return)]
        ok = ('self.%s(' % target) in src and len(rets) == 1 and txt(rets[0].value) == 'self'
        ctx.ob('T1.alias', m.fq, 'in-place operator calls %s and returns self' % target, ok, loc=m.loc)
    for r, n in (('T9.cull', 3), ('T2.tomb', 3), ('T2.add', 1), ('T15.real', 3), ('T15.app', 2), ('T25.sym', 1), ('T16', 2), ('T24', 1),
                 ('T18', 1), ('T1.alias', 11)):
        ctx.need(r, n)


def slot_is_real(w, v):
    t = txt(w.expand(v))
    return t.startswith('self._get_real_index(') or 'item_index_map.pop(' in t or 'item_index_map[' in t
