"""C06 -- URL components survive render->parse; only URLParseError escapes (structural clauses)."""
from rules import urlquote

SPEC = {
    'explanation': (
        'Static table-agreement, sanitizer-flow and exception-escape analysis of urlutils. T12: the safe-character '
        'tables are folded from the module source (set algebra with Python precedence) and compared, character by '
        'character, with the delimiters the *reader* actually splits on - extracted from the parsed _URL_RE named '
        'groups (re._parser) and from the split/partition/replace constants in parse_url, parse_qsl, URL.__init__ and '
        'the path setter: SAFE(c) and READER(c) are disjoint, "%" is never safe, SAFE(c) is RFC 3986-legal at that '
        'position, DELIMS(c) == ALL_DELIMS - SAFE(c) and covers every reader delimiter, each quote function is wired to '
        'its own map/delimiter set, _make_quote_map emits "%" + two upper-case hex digits over range(256), '
        '_HEX_CHAR_MAP (folded, including module-level fill loops) decodes every one of the 484 digit spellings, '
        'unquote_to_bytes re-emits "%" + chunk on a miss. T13: username/password/fragment/path segments/query keys and '
        'values reach the output only through their own quote function with the caller\'s full_quote (userinfo always '
        'full). T14: with a closed typed may-raise table, every path through URL.__init__/parse_url/parse_host/'
        'unquote/unquote_to_bytes leaves with URLParseError only, and every URL() call in find_all_links is inside a '
        'URLParseError handler. Not decided: round-trip equality for every string (NFC, IDNA, IPv6 forms), fixed '
        'points on arbitrary RFC texts, lone surrogates.'
        " T9.plus: in parse_qsl '+' becomes a space before percent-decoding."
        ' T12.polarity: minimal quoting escapes exactly the delimiter set. T12.unqs: unquote emits the decoded escape run and the following plain piece in every step.'),
    'decided': ['minimal-quoting polarity', 'unquote emits both pieces', 'plus-before-unquote order', 'T12 character x component matrix (writer tables vs reader delimiters)', 'T12 hex tables and wiring',
                'T13 sanitizer flow', 'T14 exception escape'],
    'declined': ['round-trip equality for every input string', 'IDNA / IPv6 textual forms', 'lone surrogates'],
    'trusted_base': ['RFC 3986 character classes (frozen table)', 're._parser AST of this interpreter',
                     'typed may-raise table: int(), .decode/.encode by codec, inet_pton, groupdict on None'],
    'assumptions': ['str.split/partition/replace constants are the only reader-side delimiters besides the regex'],
    'exhaustive': True,
}

SPEC['explanation'] += ' T9.plus follows private helpers of parse_qsl. T12.hex: without a decoding table, int(text, 16) must be guarded by a hex-digit test.'
SPEC['decided'] += []
SPEC['explanation'] += ' T20.nocache: the functions that build a fresh list / dict / generator per call are not memoised.'
SPEC['decided'] += ['results are fresh per call (no memoising decorator)']
MANIFEST = {
    'technique': 'constant-table folding + regex-AST extraction with set-relation checks; syntactic sanitizer-flow (taint) check; typed exception-escape analysis over inlined CFG paths',
    'text': ('Decides, exhaustively over the character x component matrix, that no character emitted raw by a quoting '
             'table is a delimiter the parser splits that component on, that escapes are well-formed and decodable, '
             'that every decoded component passes through its own quoting function, and that only URLParseError can '
             'leave URL()/nothing can leave find_all_links. The per-cell failures the suite cannot sample (";" in a '
             'query, an IDNA host) are cells of exactly this matrix. Round-trip equality itself is not decided.'),
    'note': 'Trusted: RFC 3986 tables, re._parser, the typed may-raise table listed in the evidence.',
}


def run(ctx):
    from rules.common import check_not_memoised as _cnm
    _cnm(ctx, [ctx.program.func(n) for n in ['urlutils.parse_url', 'urlutils.parse_qsl', 'urlutils.find_all_links', 'urlutils.parse_host']])
    urlquote.check_tables(ctx)
    urlquote.check_flow(ctx)
    urlquote.check_escape(ctx)
    for r, n in (('T12.safe', 300), ('T12.pct', 4), ('T12.legal', 4), ('T12.min', 4), ('T12.wire', 8), ('T12.hex', 1),
                 ('T12.qmap', 1), ('T12.unq', 1), ('T13', 10), ('T14', 2)):
        ctx.need(r, n)
